fn main(){}
