//! C05 worker: runs every input on a 2 MiB thread: parse, print, debug-print, clone, drop,
//! deserialize. One result line per input, flushed, so that the parent knows which input killed
//! the process if it dies.
//!
//! usage: c05worker <inputs-file> <start-index>
//! inputs-file: repeated (u32 LE length, bytes)

use std::io::Write;

fn depth_of(doc: &toml_edit::DocumentMut) -> usize {
    // explicit stack: the measurement itself must not depend on the thread's stack
    enum N<'a> {
        I(&'a toml_edit::Item),
        V(&'a toml_edit::Value),
        T(&'a toml_edit::Table),
    }
    let mut max = 0;
    let mut stack: Vec<(N, usize)> = vec![(N::I(doc.as_item()), 0)];
    while let Some((n, d)) = stack.pop() {
        if d > max {
            max = d;
        }
        match n {
            N::I(toml_edit::Item::Table(t)) | N::T(t) => {
                for (_, it) in t.iter() {
                    stack.push((N::I(it), d + 1));
                }
            }
            N::I(toml_edit::Item::ArrayOfTables(a)) => {
                for t in a.iter() {
                    stack.push((N::T(t), d + 1));
                }
            }
            N::I(toml_edit::Item::Value(v)) => stack.push((N::V(v), d)),
            N::I(toml_edit::Item::None) => {}
            N::V(toml_edit::Value::Array(a)) => {
                for e in a.iter() {
                    stack.push((N::V(e), d + 1));
                }
            }
            N::V(toml_edit::Value::InlineTable(t)) => {
                for (_, e) in t.iter() {
                    stack.push((N::V(e), d + 1));
                }
            }
            N::V(_) => {}
        }
    }
    max
}

fn one(text: &str) -> String {
    let mut out = String::new();
    match text.parse::<toml_edit::DocumentMut>() {
        Ok(doc) => {
            let depth = depth_of(&doc);
            let s = doc.to_string();
            let c = doc.clone();
            let dbg = format!("{doc:?}");
            drop(c);
            let im = toml_edit::ImDocument::parse(text).map(|d| d.to_string().len()).unwrap_or(0);
            let v: Result<toml::Value, _> = toml_edit::de::from_document(doc);
            let vs = v.map(|v| {
                let c2 = v.clone();
                let s = v.to_string().len();
                drop(c2);
                s
            });
            out.push_str(&format!("accept depth={depth} printed={} dbg={} im={im} value={}", s.len(), dbg.len(), vs.unwrap_or(0)));
        }
        Err(e) => {
            let rec = e.message().contains("recursion limit");
            out.push_str(&format!("reject recursion={rec} msg={:?}", e.message().lines().next().unwrap_or("")));
        }
    }
    match toml::from_str::<toml::Value>(text) {
        Ok(v) => {
            let c = v.clone();
            let n = format!("{v:?}").len();
            drop(c);
            out.push_str(&format!(" toml=ok:{n}"));
        }
        Err(e) => out.push_str(&format!(" toml=err:{}", e.message().contains("recursion limit"))),
    }
    out
}

fn main() {
    let args: Vec<String> = std::env::args().collect();
    let data = std::fs::read(&args[1]).expect("inputs file");
    let start: usize = args.get(2).and_then(|s| s.parse().ok()).unwrap_or(0);
    let mut inputs: Vec<String> = vec![];
    let mut p = 0;
    while p + 4 <= data.len() {
        let n = u32::from_le_bytes([data[p], data[p + 1], data[p + 2], data[p + 3]]) as usize;
        p += 4;
        inputs.push(String::from_utf8_lossy(&data[p..p + n]).to_string());
        p += n;
    }
    let stdout = std::io::stdout();
    for (i, text) in inputs.into_iter().enumerate().skip(start) {
        let h = std::thread::Builder::new()
            .stack_size(2 * 1024 * 1024)
            .spawn(move || one(&text))
            .expect("spawn");
        let line = match h.join() {
            Ok(l) => l,
            Err(_) => "panic".to_string(),
        };
        let mut lock = stdout.lock();
        writeln!(lock, "{i} {line}").unwrap();
        lock.flush().unwrap();
    }
}
