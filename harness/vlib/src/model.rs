//! The plain value tree shared by all oracles, with converters from the library's types (public
//! accessors only).

use serde_json::{json, Value as J};

#[derive(Clone, Copy, Debug, PartialEq, Eq, Hash)]
pub enum Off {
    Z,
    Min(i16),
}

#[derive(Clone, Copy, Debug, PartialEq, Eq, Hash)]
pub struct Dt {
    pub date: Option<(u16, u8, u8)>,
    pub time: Option<(u8, u8, u8, u32)>,
    pub offset: Option<Off>,
}

impl Dt {
    pub fn from_lib(d: &toml_datetime::Datetime) -> Dt {
        Dt {
            date: d.date.map(|d| (d.year, d.month, d.day)),
            time: d.time.map(|t| (t.hour, t.minute, t.second, t.nanosecond)),
            offset: d.offset.map(|o| match o {
                toml_datetime::Offset::Z => Off::Z,
                toml_datetime::Offset::Custom { minutes } => Off::Min(minutes),
            }),
        }
    }
    pub fn to_lib(&self) -> toml_datetime::Datetime {
        toml_datetime::Datetime {
            date: self.date.map(|(year, month, day)| toml_datetime::Date { year, month, day }),
            time: self.time.map(|(hour, minute, second, nanosecond)| toml_datetime::Time {
                hour,
                minute,
                second,
                nanosecond,
            }),
            offset: self.offset.map(|o| match o {
                Off::Z => toml_datetime::Offset::Z,
                Off::Min(minutes) => toml_datetime::Offset::Custom { minutes },
            }),
        }
    }
    /// canonical text (harness' own printer: RFC 3339, `T`, shortest fraction)
    pub fn canonical(&self) -> String {
        let mut s = String::new();
        if let Some((y, m, d)) = self.date {
            s.push_str(&format!("{y:04}-{m:02}-{d:02}"));
        }
        if let Some((h, mi, se, ns)) = self.time {
            if self.date.is_some() {
                s.push('T');
            }
            s.push_str(&format!("{h:02}:{mi:02}:{se:02}"));
            if ns != 0 {
                let f = format!("{ns:09}");
                s.push('.');
                s.push_str(f.trim_end_matches('0'));
            }
        }
        match self.offset {
            Some(Off::Z) => s.push('Z'),
            Some(Off::Min(m)) => {
                let sign = if m < 0 { '-' } else { '+' };
                let a = (m as i32).abs();
                s.push_str(&format!("{sign}{:02}:{:02}", a / 60, a % 60));
            }
            None => {}
        }
        s
    }
}

#[derive(Clone, Copy, Debug, PartialEq, Eq, Hash)]
pub enum TblKind {
    /// root or `[header]` table
    Std,
    /// exists only through longer header paths
    Implicit,
    /// created by dotted keys
    Dotted,
    /// `{ ... }`
    Inline,
    /// element of an array of tables
    AotElem,
    /// unknown / not tracked (toml::Value)
    Any,
}

#[derive(Clone, Debug)]
pub struct Tbl {
    pub kind: TblKind,
    pub entries: Vec<(String, Node)>,
    /// children compared as a set
    pub order_ambiguous: bool,
    /// U2.c: keys whose place among their siblings is undecided (a table declared after one of its
    /// sub-tables); the order of all the other children is still compared
    pub floating: Vec<String>,
}

impl Tbl {
    pub fn new(kind: TblKind) -> Tbl {
        Tbl { kind, entries: vec![], order_ambiguous: false, floating: vec![] }
    }
    pub fn get(&self, k: &str) -> Option<&Node> {
        self.entries.iter().find(|(kk, _)| kk == k).map(|(_, v)| v)
    }
    pub fn get_mut(&mut self, k: &str) -> Option<&mut Node> {
        self.entries.iter_mut().find(|(kk, _)| kk == k).map(|(_, v)| v)
    }
    pub fn index_of(&self, k: &str) -> Option<usize> {
        self.entries.iter().position(|(kk, _)| kk == k)
    }
}

#[derive(Clone, Debug)]
pub enum Node {
    Str(String),
    Int(i64),
    Float(u64),
    Bool(bool),
    Dt(Dt),
    Array(Vec<Node>),
    Table(Tbl),
    Aot(Vec<Tbl>),
}

impl Node {
    pub fn float(f: f64) -> Node {
        Node::Float(f.to_bits())
    }
    pub fn type_name(&self) -> &'static str {
        match self {
            Node::Str(_) => "string",
            Node::Int(_) => "integer",
            Node::Float(_) => "float",
            Node::Bool(_) => "boolean",
            Node::Dt(_) => "datetime",
            Node::Array(_) => "array",
            Node::Table(_) => "table",
            Node::Aot(_) => "array-of-tables",
        }
    }
    pub fn is_scalar(&self) -> bool {
        !matches!(self, Node::Array(_) | Node::Table(_) | Node::Aot(_))
    }
    pub fn depth(&self) -> usize {
        match self {
            Node::Array(a) => 1 + a.iter().map(|n| n.depth()).max().unwrap_or(0),
            Node::Table(t) => 1 + t.entries.iter().map(|(_, n)| n.depth()).max().unwrap_or(0),
            Node::Aot(a) => {
                1 + a
                    .iter()
                    .map(|t| 1 + t.entries.iter().map(|(_, n)| n.depth()).max().unwrap_or(0))
                    .max()
                    .unwrap_or(0)
            }
            _ => 0,
        }
    }
    pub fn count(&self) -> usize {
        match self {
            Node::Array(a) => 1 + a.iter().map(|n| n.count()).sum::<usize>(),
            Node::Table(t) => 1 + t.entries.iter().map(|(_, n)| n.count()).sum::<usize>(),
            Node::Aot(a) => {
                1 + a
                    .iter()
                    .map(|t| 1 + t.entries.iter().map(|(_, n)| n.count()).sum::<usize>())
                    .sum::<usize>()
            }
            _ => 1,
        }
    }
}

/// How two trees are compared.
#[derive(Clone, Copy, Debug)]
pub struct Cmp {
    /// table key order matters (except where a side is flagged `order_ambiguous`)
    pub ordered: bool,
    /// NaN sign matters (construction / print routes); serde routes discard it (U2.d)
    pub nan_sign: bool,
    /// U2.f: an empty array of tables equals an absent key; empty implicit/dotted tables are hidden
    pub hide_empty: bool,
}
impl Cmp {
    pub const EXACT: Cmp = Cmp { ordered: true, nan_sign: true, hide_empty: false };
    pub const UNORDERED: Cmp = Cmp { ordered: false, nan_sign: true, hide_empty: false };
    pub const SERDE: Cmp = Cmp { ordered: false, nan_sign: false, hide_empty: false };
    pub const SERDE_ORDERED: Cmp = Cmp { ordered: true, nan_sign: false, hide_empty: false };
}

fn float_eq(a: u64, b: u64, c: Cmp) -> bool {
    if a == b {
        return true;
    }
    let (fa, fb) = (f64::from_bits(a), f64::from_bits(b));
    if fa.is_nan() && fb.is_nan() {
        return !c.nan_sign || (fa.is_sign_negative() == fb.is_sign_negative());
    }
    false
}

/// `Ok(())` or a path-qualified description of the first difference.
pub fn diff(a: &Node, b: &Node, c: Cmp) -> Result<(), String> {
    diff_at(a, b, c, &mut String::new())
}

pub fn diff_tbl(a: &Tbl, b: &Tbl, c: Cmp) -> Result<(), String> {
    diff_tbl_at(a, b, c, &mut String::new())
}

fn hidden(n: &Node, c: Cmp) -> bool {
    if !c.hide_empty {
        return false;
    }
    match n {
        Node::Aot(a) => a.is_empty(),
        Node::Table(t) => {
            matches!(t.kind, TblKind::Implicit | TblKind::Dotted)
                && t.entries.iter().all(|(_, n)| hidden(n, c))
        }
        _ => false,
    }
}

fn diff_tbl_at(a: &Tbl, b: &Tbl, c: Cmp, path: &mut String) -> Result<(), String> {
    let ea: Vec<&(String, Node)> = a.entries.iter().filter(|(_, n)| !hidden(n, c)).collect();
    let eb: Vec<&(String, Node)> = b.entries.iter().filter(|(_, n)| !hidden(n, c)).collect();
    if ea.len() != eb.len() {
        return Err(format!(
            "at `{path}`: key sets differ: {:?} vs {:?}",
            ea.iter().map(|e| &e.0).collect::<Vec<_>>(),
            eb.iter().map(|e| &e.0).collect::<Vec<_>>()
        ));
    }
    let ordered = c.ordered && !a.order_ambiguous && !b.order_ambiguous;
    if ordered && (!a.floating.is_empty() || !b.floating.is_empty()) {
        // order of the non-floating children
        let fl = |k: &String| a.floating.contains(k) || b.floating.contains(k);
        let ka: Vec<&String> = ea.iter().map(|e| &e.0).filter(|k| !fl(k)).collect();
        let kb: Vec<&String> = eb.iter().map(|e| &e.0).filter(|k| !fl(k)).collect();
        if ka != kb {
            return Err(format!("at `{path}`: key order differs (ignoring {:?}, whose place is undecided): {ka:?} vs {kb:?}", a.floating.iter().chain(b.floating.iter()).collect::<Vec<_>>()));
        }
    }
    let ordered = ordered && a.floating.is_empty() && b.floating.is_empty();
    for (i, (k, va)) in ea.iter().map(|e| (&e.0, &e.1)).enumerate() {
        let vb = if ordered {
            if &eb[i].0 != k {
                return Err(format!(
                    "at `{path}`: key order differs: {:?} vs {:?}",
                    ea.iter().map(|e| &e.0).collect::<Vec<_>>(),
                    eb.iter().map(|e| &e.0).collect::<Vec<_>>()
                ));
            }
            &eb[i].1
        } else {
            match eb.iter().find(|e| &e.0 == k) {
                Some(e) => &e.1,
                None => {
                    return Err(format!(
                        "at `{path}`: key {k:?} missing on the right: {:?} vs {:?}",
                        ea.iter().map(|e| &e.0).collect::<Vec<_>>(),
                        eb.iter().map(|e| &e.0).collect::<Vec<_>>()
                    ))
                }
            }
        };
        let l = path.len();
        if !path.is_empty() {
            path.push('.');
        }
        path.push_str(&format!("{k:?}"));
        diff_at(va, vb, c, path)?;
        path.truncate(l);
    }
    Ok(())
}

fn diff_at(a: &Node, b: &Node, c: Cmp, path: &mut String) -> Result<(), String> {
    match (a, b) {
        (Node::Str(x), Node::Str(y)) if x == y => Ok(()),
        (Node::Int(x), Node::Int(y)) if x == y => Ok(()),
        (Node::Float(x), Node::Float(y)) if float_eq(*x, *y, c) => Ok(()),
        (Node::Bool(x), Node::Bool(y)) if x == y => Ok(()),
        (Node::Dt(x), Node::Dt(y)) if x == y => Ok(()),
        (Node::Table(x), Node::Table(y)) => diff_tbl_at(x, y, c, path),
        (Node::Array(_) | Node::Aot(_), Node::Array(_) | Node::Aot(_)) => {
            // an array of tables and an array of inline tables are the same data
            let la = seq_len(a);
            let lb = seq_len(b);
            if la != lb {
                return Err(format!("at `{path}`: array lengths differ: {la} vs {lb}"));
            }
            for i in 0..la {
                let l = path.len();
                path.push_str(&format!("[{i}]"));
                match (seq_get(a, i), seq_get(b, i)) {
                    (SeqEl::N(x), SeqEl::N(y)) => diff_at(x, y, c, path)?,
                    (SeqEl::T(x), SeqEl::T(y)) => diff_tbl_at(x, y, c, path)?,
                    (SeqEl::T(x), SeqEl::N(Node::Table(y))) => diff_tbl_at(x, y, c, path)?,
                    (SeqEl::N(Node::Table(x)), SeqEl::T(y)) => diff_tbl_at(x, y, c, path)?,
                    (x, y) => {
                        return Err(format!(
                            "at `{path}`: element types differ: {} vs {}",
                            x.type_name(),
                            y.type_name()
                        ))
                    }
                }
                path.truncate(l);
            }
            Ok(())
        }
        _ => Err(format!("at `{path}`: {} vs {}", show(a), show(b))),
    }
}

enum SeqEl<'a> {
    N(&'a Node),
    T(&'a Tbl),
}
impl SeqEl<'_> {
    fn type_name(&self) -> &'static str {
        match self {
            SeqEl::N(n) => n.type_name(),
            SeqEl::T(_) => "table",
        }
    }
}
fn seq_len(n: &Node) -> usize {
    match n {
        Node::Array(a) => a.len(),
        Node::Aot(a) => a.len(),
        _ => 0,
    }
}
fn seq_get(n: &Node, i: usize) -> SeqEl<'_> {
    match n {
        Node::Array(a) => SeqEl::N(&a[i]),
        Node::Aot(a) => SeqEl::T(&a[i]),
        _ => unreachable!(),
    }
}

pub fn show(n: &Node) -> String {
    let s = to_json(n).to_string();
    if s.len() > 400 {
        let mut t: String = s.chars().take(400).collect();
        t.push('…');
        t
    } else {
        s
    }
}

/// JSON rendering (tagged scalars, toml-test style plus float bits) for replay files and samples.
pub fn to_json(n: &Node) -> J {
    match n {
        Node::Str(s) => json!({"type": "string", "value": s}),
        Node::Int(i) => json!({"type": "integer", "value": i.to_string()}),
        Node::Float(b) => {
            json!({"type": "float", "value": format!("{:?}", f64::from_bits(*b)), "bits": format!("{b:#018x}")})
        }
        Node::Bool(b) => json!({"type": "bool", "value": b.to_string()}),
        Node::Dt(d) => json!({"type": "datetime", "value": d.canonical()}),
        Node::Array(a) => J::Array(a.iter().map(to_json).collect()),
        Node::Table(t) => tbl_to_json(t),
        Node::Aot(a) => J::Array(a.iter().map(tbl_to_json).collect()),
    }
}
pub fn tbl_to_json(t: &Tbl) -> J {
    // keep order: serde_json without preserve_order sorts keys, so emit a list of pairs when needed
    let mut m = serde_json::Map::new();
    for (k, v) in &t.entries {
        m.insert(k.clone(), to_json(v));
    }
    let keys: Vec<&String> = t.entries.iter().map(|e| &e.0).collect();
    json!({"#keys": keys, "#kind": format!("{:?}", t.kind), "#table": m})
}

// ------------------------------------------------------------------------------------------------
// converters from the library (public accessors only)
// ------------------------------------------------------------------------------------------------

pub fn from_edit_value(v: &toml_edit::Value) -> Node {
    use toml_edit::Value as V;
    match v {
        V::String(_) => Node::Str(v.as_str().expect("as_str on String").to_string()),
        V::Integer(_) => Node::Int(v.as_integer().expect("as_integer")),
        V::Float(_) => Node::Float(v.as_float().expect("as_float").to_bits()),
        V::Boolean(_) => Node::Bool(v.as_bool().expect("as_bool")),
        V::Datetime(_) => Node::Dt(Dt::from_lib(v.as_datetime().expect("as_datetime"))),
        V::Array(a) => Node::Array(a.iter().map(from_edit_value).collect()),
        V::InlineTable(t) => {
            let mut out = Tbl::new(if t.is_dotted() { TblKind::Dotted } else { TblKind::Inline });
            for (k, v) in t.iter() {
                out.entries.push((k.to_string(), from_edit_value(v)));
            }
            Node::Table(out)
        }
    }
}

pub fn from_edit_table(t: &toml_edit::Table, kind_hint: Option<TblKind>) -> Tbl {
    let kind = kind_hint.unwrap_or(if t.is_dotted() {
        TblKind::Dotted
    } else if t.is_implicit() {
        TblKind::Implicit
    } else {
        TblKind::Std
    });
    let mut out = Tbl::new(kind);
    for (k, item) in t.iter() {
        if let Some(n) = from_edit_item(item) {
            out.entries.push((k.to_string(), n));
        }
    }
    out
}

/// `None` for `Item::None`
pub fn from_edit_item(item: &toml_edit::Item) -> Option<Node> {
    use toml_edit::Item as I;
    match item {
        I::None => None,
        I::Value(v) => Some(from_edit_value(v)),
        I::Table(t) => Some(Node::Table(from_edit_table(t, None))),
        I::ArrayOfTables(a) => {
            Some(Node::Aot(a.iter().map(|t| from_edit_table(t, Some(TblKind::AotElem))).collect()))
        }
    }
}

pub fn from_doc(d: &toml_edit::DocumentMut) -> Tbl {
    from_edit_table(d.as_table(), Some(TblKind::Std))
}
pub fn from_imdoc<S>(d: &toml_edit::ImDocument<S>) -> Tbl {
    from_edit_table(d.as_table(), Some(TblKind::Std))
}

pub fn from_toml_value(v: &toml::Value) -> Node {
    use toml::Value as V;
    match v {
        V::String(s) => Node::Str(s.clone()),
        V::Integer(i) => Node::Int(*i),
        V::Float(f) => Node::Float(f.to_bits()),
        V::Boolean(b) => Node::Bool(*b),
        V::Datetime(d) => Node::Dt(Dt::from_lib(d)),
        V::Array(a) => Node::Array(a.iter().map(from_toml_value).collect()),
        V::Table(t) => Node::Table(from_toml_table(t)),
    }
}
pub fn from_toml_table(t: &toml::Table) -> Tbl {
    let mut out = Tbl::new(TblKind::Any);
    for (k, v) in t.iter() {
        out.entries.push((k.clone(), from_toml_value(v)));
    }
    out
}

/// Build a `toml::Value` from a model node (arrays of tables become arrays of tables).
pub fn to_toml_value(n: &Node) -> toml::Value {
    use toml::Value as V;
    match n {
        Node::Str(s) => V::String(s.clone()),
        Node::Int(i) => V::Integer(*i),
        Node::Float(b) => V::Float(f64::from_bits(*b)),
        Node::Bool(b) => V::Boolean(*b),
        Node::Dt(d) => V::Datetime(d.to_lib()),
        Node::Array(a) => V::Array(a.iter().map(to_toml_value).collect()),
        Node::Table(t) => V::Table(to_toml_table(t)),
        Node::Aot(a) => V::Array(a.iter().map(|t| V::Table(to_toml_table(t))).collect()),
    }
}
pub fn to_toml_table(t: &Tbl) -> toml::Table {
    let mut out = toml::Table::new();
    for (k, v) in &t.entries {
        out.insert(k.clone(), to_toml_value(v));
    }
    out
}

/// stable digest of a tree (for distinct counting)
pub fn digest(n: &Node) -> u64 {
    crate::tape::fnv64(to_json(n).to_string().as_bytes())
}
