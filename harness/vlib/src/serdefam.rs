//! `serdefam` — a family of derived types covering the serde shapes TOML supports, value
//! generators for them, and a model serializer that records a value as a serde data-model tree
//! (giving an equality that is total on NaN and an expected TOML tree that does not go through
//! either of the library's serializers).

use crate::model::{Dt, Node, Tbl, TblKind};
use crate::scalars::*;
use crate::tape::Tape;
use serde::ser;
use serde::Serialize;
use serde::Deserialize;
use std::collections::BTreeMap;

// ------------------------------------------------------------------------------------------------
// serde data-model tree
// ------------------------------------------------------------------------------------------------

#[derive(Clone, Debug, PartialEq)]
pub enum SD {
    Bool(bool),
    I(i128),
    F64(u64),
    F32(u32),
    Char(char),
    Str(String),
    None,
    Unit,
    Some(Box<SD>),
    Seq(Vec<SD>),
    Map(Vec<(SD, SD)>),
    Struct(&'static str, Vec<(&'static str, SD)>),
    UnitVariant(&'static str),
    NewtypeVariant(&'static str, Box<SD>),
    TupleVariant(&'static str, Vec<SD>),
    StructVariant(&'static str, Vec<(&'static str, SD)>),
    Newtype(Box<SD>),
    Datetime(String),
}

/// equality of two recorded values: floats by bits, except that any two NaNs are equal (the serde
/// routes discard the NaN sign by documented design)
pub fn sd_eq(a: &SD, b: &SD) -> bool {
    use SD::*;
    match (a, b) {
        (F64(x), F64(y)) => x == y || (f64::from_bits(*x).is_nan() && f64::from_bits(*y).is_nan()),
        (F32(x), F32(y)) => x == y || (f32::from_bits(*x).is_nan() && f32::from_bits(*y).is_nan()),
        (Some(x), Some(y)) | (Newtype(x), Newtype(y)) => sd_eq(x, y),
        (Seq(x), Seq(y)) => x.len() == y.len() && x.iter().zip(y).all(|(a, b)| sd_eq(a, b)),
        (Map(x), Map(y)) => x.len() == y.len() && x.iter().zip(y).all(|((k1, v1), (k2, v2))| sd_eq(k1, k2) && sd_eq(v1, v2)),
        (Struct(n1, x), Struct(n2, y)) => n1 == n2 && x.len() == y.len() && x.iter().zip(y).all(|((k1, v1), (k2, v2))| k1 == k2 && sd_eq(v1, v2)),
        (NewtypeVariant(n1, x), NewtypeVariant(n2, y)) => n1 == n2 && sd_eq(x, y),
        (TupleVariant(n1, x), TupleVariant(n2, y)) => n1 == n2 && x.len() == y.len() && x.iter().zip(y).all(|(a, b)| sd_eq(a, b)),
        (StructVariant(n1, x), StructVariant(n2, y)) => n1 == n2 && x.len() == y.len() && x.iter().zip(y).all(|((k1, v1), (k2, v2))| k1 == k2 && sd_eq(v1, v2)),
        _ => a == b,
    }
}

#[derive(Debug)]
pub struct SdErr(String);
impl std::fmt::Display for SdErr {
    fn fmt(&self, f: &mut std::fmt::Formatter<'_>) -> std::fmt::Result {
        f.write_str(&self.0)
    }
}
impl std::error::Error for SdErr {}
impl ser::Error for SdErr {
    fn custom<T: std::fmt::Display>(m: T) -> Self {
        SdErr(m.to_string())
    }
}

pub struct ModelSerializer;
pub struct SeqS(Vec<SD>, Option<&'static str>);
pub struct MapS(Vec<(SD, SD)>, Option<SD>);
pub struct StructS(&'static str, Vec<(&'static str, SD)>, bool);

pub fn record<T: Serialize + ?Sized>(v: &T) -> SD {
    v.serialize(ModelSerializer).expect("model serializer never fails")
}

impl ser::Serializer for ModelSerializer {
    type Ok = SD;
    type Error = SdErr;
    type SerializeSeq = SeqS;
    type SerializeTuple = SeqS;
    type SerializeTupleStruct = SeqS;
    type SerializeTupleVariant = SeqS;
    type SerializeMap = MapS;
    type SerializeStruct = StructS;
    type SerializeStructVariant = StructS;
    fn serialize_bool(self, v: bool) -> Result<SD, SdErr> {
        Ok(SD::Bool(v))
    }
    fn serialize_i8(self, v: i8) -> Result<SD, SdErr> {
        Ok(SD::I(v as i128))
    }
    fn serialize_i16(self, v: i16) -> Result<SD, SdErr> {
        Ok(SD::I(v as i128))
    }
    fn serialize_i32(self, v: i32) -> Result<SD, SdErr> {
        Ok(SD::I(v as i128))
    }
    fn serialize_i64(self, v: i64) -> Result<SD, SdErr> {
        Ok(SD::I(v as i128))
    }
    fn serialize_i128(self, v: i128) -> Result<SD, SdErr> {
        Ok(SD::I(v))
    }
    fn serialize_u8(self, v: u8) -> Result<SD, SdErr> {
        Ok(SD::I(v as i128))
    }
    fn serialize_u16(self, v: u16) -> Result<SD, SdErr> {
        Ok(SD::I(v as i128))
    }
    fn serialize_u32(self, v: u32) -> Result<SD, SdErr> {
        Ok(SD::I(v as i128))
    }
    fn serialize_u64(self, v: u64) -> Result<SD, SdErr> {
        Ok(SD::I(v as i128))
    }
    fn serialize_u128(self, v: u128) -> Result<SD, SdErr> {
        Ok(SD::I(v as i128))
    }
    fn serialize_f32(self, v: f32) -> Result<SD, SdErr> {
        Ok(SD::F32(v.to_bits()))
    }
    fn serialize_f64(self, v: f64) -> Result<SD, SdErr> {
        Ok(SD::F64(v.to_bits()))
    }
    fn serialize_char(self, v: char) -> Result<SD, SdErr> {
        Ok(SD::Char(v))
    }
    fn serialize_str(self, v: &str) -> Result<SD, SdErr> {
        Ok(SD::Str(v.to_string()))
    }
    fn serialize_bytes(self, v: &[u8]) -> Result<SD, SdErr> {
        Ok(SD::Seq(v.iter().map(|b| SD::I(*b as i128)).collect()))
    }
    fn serialize_none(self) -> Result<SD, SdErr> {
        Ok(SD::None)
    }
    fn serialize_some<T: Serialize + ?Sized>(self, v: &T) -> Result<SD, SdErr> {
        Ok(SD::Some(Box::new(v.serialize(ModelSerializer)?)))
    }
    fn serialize_unit(self) -> Result<SD, SdErr> {
        Ok(SD::Unit)
    }
    fn serialize_unit_struct(self, _n: &'static str) -> Result<SD, SdErr> {
        Ok(SD::Unit)
    }
    fn serialize_unit_variant(self, _n: &'static str, _i: u32, v: &'static str) -> Result<SD, SdErr> {
        Ok(SD::UnitVariant(v))
    }
    fn serialize_newtype_struct<T: Serialize + ?Sized>(self, _n: &'static str, v: &T) -> Result<SD, SdErr> {
        Ok(SD::Newtype(Box::new(v.serialize(ModelSerializer)?)))
    }
    fn serialize_newtype_variant<T: Serialize + ?Sized>(self, _n: &'static str, _i: u32, var: &'static str, v: &T) -> Result<SD, SdErr> {
        Ok(SD::NewtypeVariant(var, Box::new(v.serialize(ModelSerializer)?)))
    }
    fn serialize_seq(self, _l: Option<usize>) -> Result<SeqS, SdErr> {
        Ok(SeqS(vec![], None))
    }
    fn serialize_tuple(self, _l: usize) -> Result<SeqS, SdErr> {
        Ok(SeqS(vec![], None))
    }
    fn serialize_tuple_struct(self, _n: &'static str, _l: usize) -> Result<SeqS, SdErr> {
        Ok(SeqS(vec![], None))
    }
    fn serialize_tuple_variant(self, _n: &'static str, _i: u32, var: &'static str, _l: usize) -> Result<SeqS, SdErr> {
        Ok(SeqS(vec![], Some(var)))
    }
    fn serialize_map(self, _l: Option<usize>) -> Result<MapS, SdErr> {
        Ok(MapS(vec![], None))
    }
    fn serialize_struct(self, n: &'static str, _l: usize) -> Result<StructS, SdErr> {
        Ok(StructS(n, vec![], false))
    }
    fn serialize_struct_variant(self, _n: &'static str, _i: u32, var: &'static str, _l: usize) -> Result<StructS, SdErr> {
        Ok(StructS(var, vec![], true))
    }
}
impl ser::SerializeSeq for SeqS {
    type Ok = SD;
    type Error = SdErr;
    fn serialize_element<T: Serialize + ?Sized>(&mut self, v: &T) -> Result<(), SdErr> {
        self.0.push(v.serialize(ModelSerializer)?);
        Ok(())
    }
    fn end(self) -> Result<SD, SdErr> {
        Ok(SD::Seq(self.0))
    }
}
impl ser::SerializeTuple for SeqS {
    type Ok = SD;
    type Error = SdErr;
    fn serialize_element<T: Serialize + ?Sized>(&mut self, v: &T) -> Result<(), SdErr> {
        self.0.push(v.serialize(ModelSerializer)?);
        Ok(())
    }
    fn end(self) -> Result<SD, SdErr> {
        Ok(SD::Seq(self.0))
    }
}
impl ser::SerializeTupleStruct for SeqS {
    type Ok = SD;
    type Error = SdErr;
    fn serialize_field<T: Serialize + ?Sized>(&mut self, v: &T) -> Result<(), SdErr> {
        self.0.push(v.serialize(ModelSerializer)?);
        Ok(())
    }
    fn end(self) -> Result<SD, SdErr> {
        Ok(SD::Seq(self.0))
    }
}
impl ser::SerializeTupleVariant for SeqS {
    type Ok = SD;
    type Error = SdErr;
    fn serialize_field<T: Serialize + ?Sized>(&mut self, v: &T) -> Result<(), SdErr> {
        self.0.push(v.serialize(ModelSerializer)?);
        Ok(())
    }
    fn end(self) -> Result<SD, SdErr> {
        Ok(SD::TupleVariant(self.1.unwrap(), self.0))
    }
}
impl ser::SerializeMap for MapS {
    type Ok = SD;
    type Error = SdErr;
    fn serialize_key<T: Serialize + ?Sized>(&mut self, k: &T) -> Result<(), SdErr> {
        self.1 = Some(k.serialize(ModelSerializer)?);
        Ok(())
    }
    fn serialize_value<T: Serialize + ?Sized>(&mut self, v: &T) -> Result<(), SdErr> {
        let k = self.1.take().unwrap();
        self.0.push((k, v.serialize(ModelSerializer)?));
        Ok(())
    }
    fn end(self) -> Result<SD, SdErr> {
        Ok(SD::Map(self.0))
    }
}
impl ser::SerializeStruct for StructS {
    type Ok = SD;
    type Error = SdErr;
    fn serialize_field<T: Serialize + ?Sized>(&mut self, k: &'static str, v: &T) -> Result<(), SdErr> {
        self.1.push((k, v.serialize(ModelSerializer)?));
        Ok(())
    }
    fn end(self) -> Result<SD, SdErr> {
        if self.0 == "$__toml_private_Datetime" {
            if let Some((_, SD::Str(s))) = self.1.first() {
                return Ok(SD::Datetime(s.clone()));
            }
        }
        Ok(SD::Struct(self.0, self.1))
    }
}
impl ser::SerializeStructVariant for StructS {
    type Ok = SD;
    type Error = SdErr;
    fn serialize_field<T: Serialize + ?Sized>(&mut self, k: &'static str, v: &T) -> Result<(), SdErr> {
        self.1.push((k, v.serialize(ModelSerializer)?));
        Ok(())
    }
    fn end(self) -> Result<SD, SdErr> {
        Ok(SD::StructVariant(self.0, self.1))
    }
}

#[derive(Clone, Debug, PartialEq)]
pub enum Unsupported {
    /// None or unit inside a sequence / as a map value
    NoneInSeq,
    KeyNotString,
    OutOfRange,
    /// the root is not a table
    RootNotTable,
}

/// The TOML tree a value must serialize to, by the documented mapping (struct/map -> table with
/// `None` fields omitted, unit variant -> string, other variants -> single-key table, seq/tuple ->
/// array, newtype -> inner, char -> string, date-time -> date-time), or the reason it cannot.
pub fn expected_node(sd: &SD) -> Result<Node, Unsupported> {
    Ok(match sd {
        SD::Bool(b) => Node::Bool(*b),
        SD::I(i) => {
            if *i < i64::MIN as i128 || *i > i64::MAX as i128 {
                return Err(Unsupported::OutOfRange);
            }
            Node::Int(*i as i64)
        }
        SD::F64(b) => Node::Float(*b),
        SD::F32(b) => Node::float(f32::from_bits(*b) as f64),
        SD::Char(c) => Node::Str(c.to_string()),
        SD::Str(s) => Node::Str(s.clone()),
        SD::None | SD::Unit => return Err(Unsupported::NoneInSeq),
        SD::Some(x) | SD::Newtype(x) => expected_node(x)?,
        SD::Seq(v) => Node::Array(v.iter().map(expected_node).collect::<Result<_, _>>()?),
        SD::Map(m) => {
            let mut t = Tbl::new(TblKind::Any);
            for (k, v) in m {
                let key = match k {
                    SD::Str(s) => s.clone(),
                    SD::UnitVariant(v) => v.to_string(),
                    SD::Newtype(x) => match &**x {
                        SD::Str(s) => s.clone(),
                        _ => return Err(Unsupported::KeyNotString),
                    },
                    _ => return Err(Unsupported::KeyNotString),
                };
                match v {
                    SD::None => return Err(Unsupported::NoneInSeq),
                    v => t.entries.push((key, expected_node(v)?)),
                }
            }
            Node::Table(t)
        }
        SD::Struct(_, fields) => {
            let mut t = Tbl::new(TblKind::Any);
            for (k, v) in fields {
                if *v == SD::None {
                    continue;
                }
                t.entries.push((k.to_string(), expected_node(v)?));
            }
            Node::Table(t)
        }
        SD::UnitVariant(v) => Node::Str(v.to_string()),
        SD::NewtypeVariant(var, x) => {
            let mut t = Tbl::new(TblKind::Any);
            t.entries.push((var.to_string(), expected_node(x)?));
            Node::Table(t)
        }
        SD::TupleVariant(var, xs) => {
            let mut t = Tbl::new(TblKind::Any);
            t.entries.push((var.to_string(), Node::Array(xs.iter().map(expected_node).collect::<Result<_, _>>()?)));
            Node::Table(t)
        }
        SD::StructVariant(var, fields) => {
            let mut inner = Tbl::new(TblKind::Any);
            for (k, v) in fields {
                if *v == SD::None {
                    continue;
                }
                inner.entries.push((k.to_string(), expected_node(v)?));
            }
            let mut t = Tbl::new(TblKind::Any);
            t.entries.push((var.to_string(), Node::Table(inner)));
            Node::Table(t)
        }
        SD::Datetime(s) => Node::Dt(crate::tomlref::datetime(s).map_err(|_| Unsupported::OutOfRange)?),
    })
}

/// is the root a tuple / struct variant: the two crates differ on whether that is an error
/// (documented as unsupported); an error is accepted, a success must round-trip
pub fn root_variant_may_fail(sd: &SD) -> bool {
    matches!(sd, SD::TupleVariant(..) | SD::StructVariant(..))
}

/// the expected document for a root value (must be a table; a struct variant at the root is not)
pub fn expected_doc(sd: &SD) -> Result<Tbl, Unsupported> {
    match sd {
        SD::Struct(..) | SD::Map(_) => match expected_node(sd)? {
            Node::Table(t) => Ok(t),
            _ => Err(Unsupported::RootNotTable),
        },
        SD::Newtype(x) | SD::Some(x) => expected_doc(x),
        // a newtype variant at the root is the single-key table `Variant = ...`; struct (and
        // tuple) variants at the root are the documented unsupported root shapes
        SD::NewtypeVariant(..) | SD::TupleVariant(..) | SD::StructVariant(..) => match expected_node(sd)? {
            Node::Table(t) => Ok(t),
            _ => Err(Unsupported::RootNotTable),
        },
        _ => Err(Unsupported::RootNotTable),
    }
}

// ------------------------------------------------------------------------------------------------
// the type family
// ------------------------------------------------------------------------------------------------

#[derive(Serialize, Deserialize, Debug, Clone, PartialEq, Eq, PartialOrd, Ord)]
pub enum KeyEnum {
    Alpha,
    Beta,
    #[serde(rename = "ga mma")]
    Gamma,
}

#[derive(Serialize, Deserialize, Debug, Clone)]
pub enum E {
    Unit,
    Other,
    New(i32),
    NewS(String),
    NewV(Vec<i64>),
    Tup(i32, String),
    /// fields of one type: a positional mix-up still type-checks
    Pair(i64, i64),
    Trio(String, String, String),
    St { a: i32, b: Option<String> },
    Nest(Box<Inner>),
    /// table-valued fields declared before scalar ones (TOML writes the scalars first)
    Rec { inner: Inner, list: Vec<Inner>, m: BTreeMap<String, i32>, n: i32, s: String },
    /// a tuple variant all of whose fields are tables (becomes `[[x.Seg]]` in header form)
    Seg(Inner, Inner),
    /// many fields, declared in no particular order
    Wide { zeta: i32, alpha: String, mid: bool, beta: i64, omega: Option<String>, gamma: Vec<i32> },
}

#[derive(Serialize, Deserialize, Debug, Clone)]
pub struct Inner {
    pub x: i32,
    pub y: Option<String>,
}

#[derive(Serialize, Deserialize, Debug, Clone)]
pub struct NewT(pub i64);
#[derive(Serialize, Deserialize, Debug, Clone)]
pub struct TupS(pub i32, pub String, pub bool);
/// newtype structs as *root* targets of the single-value routes
#[derive(Serialize, Deserialize, Debug, Clone)]
pub struct NewStr(pub String);
#[derive(Serialize, Deserialize, Debug, Clone)]
pub struct NewInner(pub Inner);
#[derive(Serialize, Deserialize, Debug, Clone)]
pub struct NewVec(pub Vec<Inner>);
#[derive(Serialize, Deserialize, Debug, Clone)]
pub struct NewE(pub E);
#[derive(Serialize, Deserialize, Debug, Clone)]
pub struct NewNew(pub NewT);
#[derive(Serialize, Deserialize, Debug, Clone)]
pub struct NewArr(pub Vec<Vec<String>>);
#[derive(Serialize, Deserialize, Debug, Clone)]
pub struct EmptyS {}

#[derive(Serialize, Deserialize, Debug, Clone)]
pub struct Scalars {
    pub a_i8: i8,
    pub a_i16: i16,
    pub a_i32: i32,
    pub a_i64: i64,
    pub a_u8: u8,
    pub a_u16: u16,
    pub a_u32: u32,
    pub a_u64: u64,
    pub a_f32: f32,
    pub a_f64: f64,
    pub a_bool: bool,
    pub a_char: char,
    pub a_string: String,
    pub a_new: NewT,
}

#[derive(Serialize, Deserialize, Debug, Clone)]
pub struct Opts {
    pub a: Option<i32>,
    pub b: Option<String>,
    pub c: Option<Inner>,
    pub d: Option<E>,
    pub e: Option<Vec<i32>>,
    pub f: Option<f64>,
}

#[derive(Serialize, Deserialize, Debug, Clone)]
pub struct Seqs {
    pub a: Vec<i32>,
    pub b: Vec<Vec<String>>,
    pub c: Vec<Inner>,
    pub d: Vec<E>,
    pub e: (i32, String, bool),
    pub f: Vec<(i32, Inner)>,
    pub g: TupS,
    pub h: (String, Inner),
}

#[derive(Serialize, Deserialize, Debug, Clone)]
pub struct Maps {
    pub a: BTreeMap<String, i32>,
    pub b: BTreeMap<String, Inner>,
    pub c: BTreeMap<String, Vec<E>>,
    pub d: BTreeMap<KeyEnum, i32>,
    pub e: BTreeMap<String, BTreeMap<String, Opts>>,
}

#[derive(Serialize, Deserialize, Debug, Clone)]
pub struct Dates {
    pub d: toml_datetime::Datetime,
    pub l: Vec<toml_datetime::Datetime>,
    pub o: Option<toml_datetime::Datetime>,
    pub m: BTreeMap<String, toml_datetime::Datetime>,
    pub n: Inner,
}

#[derive(Serialize, Deserialize, Debug, Clone)]
pub struct Nested {
    pub e: E,
    pub v: Vec<BTreeMap<String, Vec<E>>>,
    pub t: (Inner, E),
    pub o: Opts,
    pub s: Seqs,
    pub z: EmptyS,
    pub dates: Option<Dates>,
}

/// serde attribute shapes: internally / adjacently tagged and untagged enums, renamed and skipped
/// fields, a flattened map (they reach the deserializers through `deserialize_any` and serde's
/// buffered `Content`, not through the typed entry points)
#[derive(Serialize, Deserialize, Debug, Clone)]
#[serde(tag = "type")]
pub enum Tagged {
    Alpha { x: i32 },
    Beta { y: String, inner: Inner },
    Gamma,
}
#[derive(Serialize, Deserialize, Debug, Clone)]
#[serde(untagged)]
pub enum Untagged {
    I(i64),
    S(String),
    V(Vec<i32>),
    T { a: i32, b: String },
}
#[derive(Serialize, Deserialize, Debug, Clone)]
#[serde(tag = "kind", content = "data")]
pub enum Adjacent {
    One(i32),
    Two { p: i32, q: Vec<Inner> },
    Three,
}
#[derive(Serialize, Deserialize, Debug, Clone)]
pub struct Attrs {
    #[serde(rename = "re-named key")]
    pub renamed: i32,
    #[serde(default, skip_serializing_if = "Option::is_none")]
    pub skipped: Option<String>,
    pub tagged: Tagged,
    pub tagged_list: Vec<Tagged>,
    pub untagged: Vec<Untagged>,
    pub adjacent: Adjacent,
    pub adj_map: BTreeMap<String, Adjacent>,
    #[serde(flatten)]
    pub rest: BTreeMap<String, i32>,
}
pub fn g_tagged(t: &mut Tape) -> Tagged {
    match t.below(3) {
        0 => Tagged::Alpha { x: g_i32(t) },
        1 => Tagged::Beta { y: g_string(t), inner: g_inner(t) },
        _ => Tagged::Gamma,
    }
}
pub fn g_untagged(t: &mut Tape) -> Untagged {
    match t.below(4) {
        0 => Untagged::I(crate::scalars::gen_int(t)),
        1 => Untagged::S(g_string(t)),
        2 => Untagged::V(g_vec(t, 3, g_i32)),
        _ => Untagged::T { a: g_i32(t), b: g_string(t) },
    }
}
pub fn g_adjacent(t: &mut Tape) -> Adjacent {
    match t.below(3) {
        0 => Adjacent::One(g_i32(t)),
        1 => Adjacent::Two { p: g_i32(t), q: g_vec(t, 2, g_inner) },
        _ => Adjacent::Three,
    }
}
pub fn g_attrs(t: &mut Tape) -> Attrs {
    let n = t.small(3);
    Attrs {
        renamed: g_i32(t),
        skipped: g_opt(t, g_string),
        tagged: g_tagged(t),
        tagged_list: g_vec(t, 3, g_tagged),
        untagged: g_vec(t, 4, g_untagged),
        adjacent: g_adjacent(t),
        adj_map: g_map(t, 2, g_adjacent),
        rest: (0..n).map(|i| (format!("x-{i}"), g_i32(t))).collect(),
    }
}

// unsupported shapes
#[derive(Serialize, Deserialize, Debug, Clone)]
pub struct BadNoneInSeq {
    pub a: Vec<Option<i32>>,
}
/// the unsupported shape sits among ordinary fields: after an absent optional field, before
/// another one, next to a nested table
#[derive(Serialize, Deserialize, Debug, Clone)]
pub struct BadCtx {
    pub first: Option<i32>,
    pub a: Vec<Option<i32>>,
    pub inner: Inner,
    pub second: Option<String>,
    pub b: Vec<Vec<Option<String>>>,
    pub e: Option<EN>,
    pub last: Option<i32>,
}
#[derive(Serialize, Deserialize, Debug, Clone)]
pub enum EN {
    N(Option<i32>),
    V(Vec<Option<i32>>),
    Fine(i32),
}
pub fn g_bad_ctx(t: &mut Tape) -> BadCtx {
    BadCtx {
        first: g_opt(t, g_i32),
        a: g_vec(t, 3, |t| g_opt(t, g_i32)),
        inner: g_inner(t),
        second: g_opt(t, g_string),
        b: g_vec(t, 2, |t| g_vec(t, 2, |t| g_opt(t, g_string))),
        e: g_opt(t, |t| match t.below(3) {
            0 => EN::N(g_opt(t, g_i32)),
            1 => EN::V(g_vec(t, 2, |t| g_opt(t, g_i32))),
            _ => EN::Fine(g_i32(t)),
        }),
        last: g_opt(t, g_i32),
    }
}

#[derive(Serialize, Deserialize, Debug, Clone)]
pub struct BadUnitInSeq {
    pub a: Vec<()>,
}
#[derive(Serialize, Deserialize, Debug, Clone)]
pub struct BadIntKey {
    pub a: BTreeMap<i32, i32>,
}
#[derive(Serialize, Deserialize, Debug, Clone)]
pub struct BadU64 {
    pub a: u64,
}
#[derive(Serialize, Deserialize, Debug, Clone)]
pub struct BadNoneInMap {
    pub a: BTreeMap<String, Option<i32>>,
}

// ---- generators ------------------------------------------------------------------------------------

pub fn g_string(t: &mut Tape) -> String {
    if t.chance(2, 3) {
        gen_plain_string(t)
    } else {
        gen_string(t)
    }
}
pub fn g_i32(t: &mut Tape) -> i32 {
    match t.below(3) {
        0 => t.range(-5, 5) as i32,
        1 => *t.pick(&[i32::MIN, i32::MAX, 0, -1, 1 << 20]),
        _ => t.next() as i32,
    }
}
pub fn g_f64(t: &mut Tape) -> f64 {
    gen_float(t)
}
pub fn g_inner(t: &mut Tape) -> Inner {
    Inner { x: g_i32(t), y: if t.chance(1, 2) { Some(g_string(t)) } else { None } }
}
pub fn g_e(t: &mut Tape) -> E {
    match t.below(13) {
        11 => E::Seg(g_inner(t), g_inner(t)),
        12 => E::Wide { zeta: g_i32(t), alpha: g_string(t), mid: t.chance(1, 2), beta: crate::scalars::gen_int(t), omega: g_opt(t, g_string), gamma: g_vec(t, 3, g_i32) },
        10 => E::Rec { inner: g_inner(t), list: g_vec(t, 2, g_inner), m: g_map(t, 2, g_i32), n: g_i32(t), s: g_string(t) },
        8 => E::Pair(gen_int(t), gen_int(t)),
        9 => E::Trio(g_string(t), g_string(t), g_string(t)),
        0 => E::Unit,
        1 => E::Other,
        2 => E::New(g_i32(t)),
        3 => E::NewS(g_string(t)),
        4 => E::NewV((0..t.small(3)).map(|_| gen_int(t)).collect()),
        5 => E::Tup(g_i32(t), g_string(t)),
        6 => E::St { a: g_i32(t), b: if t.chance(1, 2) { Some(g_string(t)) } else { None } },
        _ => E::Nest(Box::new(g_inner(t))),
    }
}
pub fn g_vec<T>(t: &mut Tape, max: usize, mut f: impl FnMut(&mut Tape) -> T) -> Vec<T> {
    let n = t.small(max);
    (0..n).map(|_| f(t)).collect()
}
pub fn g_map<T>(t: &mut Tape, max: usize, mut f: impl FnMut(&mut Tape) -> T) -> BTreeMap<String, T> {
    let n = t.small(max);
    let mut m = BTreeMap::new();
    for _ in 0..n {
        let k = gen_key(t);
        if k.starts_with("$__") {
            continue;
        }
        let v = f(t);
        m.insert(k, v);
    }
    m
}
pub fn g_opt<T>(t: &mut Tape, f: impl FnOnce(&mut Tape) -> T) -> Option<T> {
    if t.chance(1, 2) {
        Some(f(t))
    } else {
        None
    }
}
pub fn g_scalars(t: &mut Tape) -> Scalars {
    let edge = t.chance(1, 3);
    Scalars {
        a_i8: if edge { *t.pick(&[i8::MIN, i8::MAX]) } else { t.next() as i8 },
        a_i16: if edge { *t.pick(&[i16::MIN, i16::MAX]) } else { t.next() as i16 },
        a_i32: g_i32(t),
        a_i64: gen_int(t),
        a_u8: if edge { u8::MAX } else { t.next() as u8 },
        a_u16: if edge { u16::MAX } else { t.next() as u16 },
        a_u32: if edge { u32::MAX } else { t.next() },
        a_u64: if edge { i64::MAX as u64 } else { (t.u64() >> 1) as u64 },
        a_f32: match t.below(4) {
            0 => f32::from_bits(t.next()),
            1 => *t.pick(&[0.0f32, -0.0, 1.0, f32::MAX, f32::MIN_POSITIVE, f32::INFINITY, f32::NEG_INFINITY, f32::NAN]),
            2 => gen_int(t) as f32,
            _ => 0.1,
        },
        a_f64: g_f64(t),
        a_bool: t.chance(1, 2),
        a_char: gen_char(t),
        a_string: gen_string(t),
        a_new: NewT(gen_int(t)),
    }
}
pub fn g_opts(t: &mut Tape) -> Opts {
    Opts { a: g_opt(t, g_i32), b: g_opt(t, g_string), c: g_opt(t, g_inner), d: g_opt(t, g_e), e: g_opt(t, |t| g_vec(t, 3, g_i32)), f: g_opt(t, g_f64) }
}
pub fn g_seqs(t: &mut Tape) -> Seqs {
    Seqs {
        a: g_vec(t, 4, g_i32),
        b: g_vec(t, 3, |t| g_vec(t, 3, g_string)),
        c: if t.chance(1, 12) { let n = 22 + t.small(25); (0..n).map(|_| g_inner(t)).collect() } else { g_vec(t, 3, g_inner) },
        d: g_vec(t, 4, g_e),
        e: (g_i32(t), g_string(t), t.chance(1, 2)),
        f: g_vec(t, 2, |t| (g_i32(t), g_inner(t))),
        g: TupS(g_i32(t), g_string(t), t.chance(1, 2)),
        h: (g_string(t), g_inner(t)),
    }
}
/// a map with exactly n entries (numbered keys, visited out of order)
pub fn g_map_n<T>(t: &mut Tape, n: usize, mut f: impl FnMut(&mut Tape) -> T) -> BTreeMap<String, T> {
    (0..n).map(|i| (format!("w{:02}", (i * 7) % n.max(1)), f(t))).collect()
}
pub fn g_maps(t: &mut Tape) -> Maps {
    if t.chance(1, 12) {
        // wide: dozens of tables
        let n = 22 + t.small(25);
        let m = t.small(12);
        return Maps { a: g_map(t, 4, g_i32), b: g_map_n(t, n, g_inner), c: g_map_n(t, m, |t| g_vec(t, 3, g_e)), d: BTreeMap::new(), e: g_map(t, 2, |t| g_map(t, 2, g_opts)) };
    }
    let mut d = BTreeMap::new();
    for k in [KeyEnum::Alpha, KeyEnum::Beta, KeyEnum::Gamma] {
        if t.chance(1, 2) {
            d.insert(k, g_i32(t));
        }
    }
    Maps { a: g_map(t, 4, g_i32), b: g_map(t, 3, g_inner), c: g_map(t, 3, |t| g_vec(t, 3, g_e)), d, e: g_map(t, 2, |t| g_map(t, 2, g_opts)) }
}
pub fn g_datetime(t: &mut Tape) -> toml_datetime::Datetime {
    gen_dt(t).to_lib()
}
pub fn g_dates(t: &mut Tape) -> Dates {
    Dates { d: g_datetime(t), l: g_vec(t, 3, g_datetime), o: g_opt(t, g_datetime), m: g_map(t, 2, g_datetime), n: g_inner(t) }
}
pub fn g_nested(t: &mut Tape) -> Nested {
    Nested {
        e: g_e(t),
        v: g_vec(t, 2, |t| g_map(t, 2, |t| g_vec(t, 3, g_e))),
        t: (g_inner(t), g_e(t)),
        o: g_opts(t),
        s: g_seqs(t),
        z: EmptyS {},
        dates: g_opt(t, g_dates),
    }
}

/// does a recorded value contain the shapes C07 calls non-trivial: a variant, table or option at
/// depth >= 2
pub fn sd_nontrivial(sd: &SD, depth: usize) -> bool {
    match sd {
        SD::UnitVariant(_) | SD::NewtypeVariant(..) | SD::TupleVariant(..) | SD::StructVariant(..) | SD::Some(_) if depth >= 2 => true,
        SD::Some(x) | SD::Newtype(x) | SD::NewtypeVariant(_, x) => sd_nontrivial(x, depth + 1),
        SD::Seq(v) | SD::TupleVariant(_, v) => v.iter().any(|x| sd_nontrivial(x, depth + 1)),
        SD::Map(m) => depth >= 2 || m.iter().any(|(_, v)| sd_nontrivial(v, depth + 1)),
        SD::Struct(_, f) | SD::StructVariant(_, f) => depth >= 2 || f.iter().any(|(_, v)| sd_nontrivial(v, depth + 1)),
        _ => false,
    }
}

pub fn dt_node(d: &Dt) -> Node {
    Node::Dt(*d)
}
