//! Adversarial leaf values and every spelling the grammar allows for them. The value is chosen
//! first; the spelling is constructed from it, so the expected decode is known by construction.

use crate::model::{Dt, Off};
use crate::tape::Tape;
use crate::tomlref::days_in_month;

// ------------------------------------------------------------------------------------------------
// values
// ------------------------------------------------------------------------------------------------

const STR_CHARS: [char; 30] = [
    'a', 'b', 'z', ' ', '"', '\'', '\\', '\n', '\r', '\t', '\0', '\u{1b}', '\u{7f}', '#', 'é', '😀', '\u{8}',
    '\u{c}', '\u{feff}', '=', '.', ',', '[', ']', '{', '}', '0', '-', '\u{ffff}', '\u{10ffff}',
];

pub fn gen_char(t: &mut Tape) -> char {
    match t.weighted(&[6, 6, 1]) {
        0 => *t.pick(&['a', 'b', 'c', 'x', 'y', ' ', '1']),
        1 => *t.pick(&STR_CHARS),
        _ => char::from_u32(t.below(0x11_0000) as u32).unwrap_or('?'),
    }
}

pub fn gen_string(t: &mut Tape) -> String {
    let mut s = String::new();
    let n = t.small(24);
    for _ in 0..n {
        match t.weighted(&[10, 1, 1, 1]) {
            0 => s.push(gen_char(t)),
            1 => {
                for _ in 0..=t.small(5) {
                    s.push('"')
                }
            }
            2 => {
                for _ in 0..=t.small(5) {
                    s.push('\'')
                }
            }
            _ => s.push('\n'),
        }
    }
    s
}

/// strings without anything needing an escape (for contexts that want mostly-plain text)
pub fn gen_plain_string(t: &mut Tape) -> String {
    let n = t.small(12);
    (0..n).map(|_| *t.pick(&['a', 'b', 'c', ' ', 'é', '1', '-', '_'])).collect()
}

pub const KEY_POOL: [&str; 8] = ["a", "b", "c", "d", "e", "k", "x", "y"];
const ODD_KEYS: [&str; 26] = [
    "", " ", "a.b", "é", "\"", "'", "1", "1979-05-27", "true", "inf", "-", "_", "a b", "\\", "\n", "\t",
    "a-very-long-key-beyond-inline", "😀", "1.5", "0x10", "A", "nan", "[a]", "#", "=", "\u{7f}",
];

pub fn gen_key(t: &mut Tape) -> String {
    match t.weighted(&[12, 3, 1]) {
        0 => t.pick(&KEY_POOL).to_string(),
        1 => t.pick(&ODD_KEYS).to_string(),
        _ => {
            let s = gen_string(t);
            if s.starts_with("$__") {
                "k".to_string()
            } else {
                s
            }
        }
    }
}

pub fn gen_int(t: &mut Tape) -> i64 {
    match t.weighted(&[4, 3, 3, 2]) {
        0 => t.range(-20, 20),
        1 => {
            // near a power of two
            let k = t.below(64) as u32;
            let base: i128 = 1i128 << k;
            let d = t.range(-3, 3) as i128;
            let v = if t.chance(1, 2) { -(base + d) } else { base + d };
            v.clamp(i64::MIN as i128, i64::MAX as i128) as i64
        }
        2 => {
            let k = t.below(19) as u32;
            let base = 10i128.pow(k);
            let d = t.range(-2, 2) as i128;
            let v = if t.chance(1, 2) { -(base + d) } else { base + d };
            v.clamp(i64::MIN as i128, i64::MAX as i128) as i64
        }
        _ => t.u64() as i64,
    }
}

pub const FLOAT_EDGES: [u64; 24] = [
    0x0000000000000000, // +0
    0x8000000000000000, // -0
    0x0000000000000001, // min subnormal
    0x000fffffffffffff, // max subnormal
    0x0010000000000000, // min normal
    0x7fefffffffffffff, // max
    0xffefffffffffffff, // -max
    0x7ff0000000000000, // inf
    0xfff0000000000000, // -inf
    0x7ff8000000000000, // nan
    0xfff8000000000000, // -nan
    0x4340000000000000, // 2^53
    0x4340000000000001, // 2^53+2
    0x433fffffffffffff, // 2^53-1
    0x3ff0000000000000, // 1
    0x3ff0000000000001, // 1+eps
    0x3fb999999999999a, // 0.1
    0x4024000000000000, // 10
    0x430c6bf526340000, // 1e15
    0x4341c37937e08000, // 1e16
    0x444b1ae4d6e2ef50, // 1e21
    0x44b52d02c7e14af6, // 1e23
    0x3eb0c6f7a0b5ed8d, // 1e-6
    0x3e7ad7f29abcaf48, // 1e-7
];

pub fn gen_float(t: &mut Tape) -> f64 {
    match t.weighted(&[3, 3, 3, 3, 2]) {
        0 => *t.pick(&[0.0, 1.0, -1.0, 0.5, 1.5, 3.14, -2.5e10, 1e-3]),
        1 => f64::from_bits(*t.pick(&FLOAT_EDGES)),
        2 => {
            // uniform over bit patterns, but not NaN payload variants (not representable)
            let f = f64::from_bits(t.u64());
            if f.is_nan() {
                f64::NAN.copysign(f)
            } else {
                f
            }
        }
        3 => {
            // uniform over decimal exponents
            let e = t.range(-330, 310) as i32;
            let m = t.below(100_000) as f64 / 10_000.0 + 0.1;
            let v = m * 10f64.powi(e);
            let v = if v.is_finite() { v } else { f64::MAX };
            if t.chance(1, 3) {
                -v
            } else {
                v
            }
        }
        _ => {
            // integer-valued
            let v = gen_int(t) as f64;
            v
        }
    }
}

pub fn gen_date(t: &mut Tape) -> (u16, u8, u8) {
    let y = match t.weighted(&[4, 2, 2]) {
        0 => t.range(1970, 2030) as u32,
        1 => *t.pick(&[0u32, 1, 4, 100, 400, 1900, 2000, 2100, 2400, 9999, 1600, 2024, 2023]),
        _ => t.below(10000) as u32,
    };
    let m = match t.weighted(&[3, 2]) {
        0 => t.range(1, 12) as u32,
        _ => *t.pick(&[1u32, 2, 12, 2, 2]),
    };
    let dim = days_in_month(y, m);
    let d = match t.weighted(&[3, 3]) {
        0 => t.range(1, dim as i64) as u32,
        _ => *t.pick(&[1u32, dim, dim, 28.min(dim)]),
    };
    (y as u16, m as u8, d as u8)
}

pub fn gen_time(t: &mut Tape) -> (u8, u8, u8, u32) {
    let h = if t.chance(1, 3) { *t.pick(&[0u8, 23, 12]) } else { t.below(24) as u8 };
    let mi = if t.chance(1, 3) { *t.pick(&[0u8, 59]) } else { t.below(60) as u8 };
    let s = if t.chance(1, 3) { *t.pick(&[0u8, 59, 60]) } else { t.below(61) as u8 };
    let ns = match t.weighted(&[3, 2, 2, 2]) {
        0 => 0,
        1 => *t.pick(&[1u32, 999_999_999, 500_000_000, 100_000_000, 1000, 123_456_789, 10]),
        2 => (t.below(1000) as u32) * 1_000_000,
        _ => t.below(1_000_000_000) as u32,
    };
    (h, mi, s, ns)
}

pub fn gen_offset(t: &mut Tape) -> Off {
    match t.weighted(&[3, 3, 2]) {
        0 => Off::Z,
        1 => {
            let m = (t.below(24) * 60 + t.below(60)) as i16;
            if t.chance(1, 2) {
                Off::Min(-m)
            } else {
                Off::Min(m)
            }
        }
        _ => Off::Min(*t.pick(&[0i16, 1439, -1439, 60, -60, 59, -59, 330, -30])),
    }
}

pub fn gen_dt(t: &mut Tape) -> Dt {
    match t.below(4) {
        0 => Dt { date: Some(gen_date(t)), time: Some(gen_time(t)), offset: Some(gen_offset(t)) },
        1 => Dt { date: Some(gen_date(t)), time: Some(gen_time(t)), offset: None },
        2 => Dt { date: Some(gen_date(t)), time: None, offset: None },
        _ => Dt { date: None, time: Some(gen_time(t)), offset: None },
    }
}

// ------------------------------------------------------------------------------------------------
// spellings
// ------------------------------------------------------------------------------------------------

fn hex(v: u32, width: usize, t: &mut Tape) -> String {
    let s = format!("{v:0width$x}");
    s.chars().map(|c| if t.chance(1, 2) { c.to_ascii_uppercase() } else { c }).collect()
}

fn short_escape(c: char) -> Option<&'static str> {
    Some(match c {
        '\u{8}' => "\\b",
        '\t' => "\\t",
        '\n' => "\\n",
        '\u{c}' => "\\f",
        '\r' => "\\r",
        '"' => "\\\"",
        '\\' => "\\\\",
        _ => return None,
    })
}

/// some escape for `c` (short, \u or \U)
fn any_escape(c: char, t: &mut Tape, out: &mut String) {
    let v = c as u32;
    let mut opts: Vec<u8> = vec![];
    if short_escape(c).is_some() {
        opts.push(0);
    }
    if v <= 0xffff {
        opts.push(1);
    }
    opts.push(2);
    match *t.pick(&opts) {
        0 => out.push_str(short_escape(c).unwrap()),
        1 => {
            out.push_str("\\u");
            out.push_str(&hex(v, 4, t));
        }
        _ => {
            out.push_str("\\U");
            out.push_str(&hex(v, 8, t));
        }
    }
}

fn raw_ok_basic(c: char) -> bool {
    // basic-unescaped = wschar / %x21 / %x23-5B / %x5D-7E / non-ascii
    c == '\t' || (c >= ' ' && c != '"' && c != '\\' && c != '\u{7f}')
}
fn raw_ok_literal(c: char) -> bool {
    c == '\t' || (c >= ' ' && c != '\'' && c != '\u{7f}')
}

pub fn can_literal(s: &str) -> bool {
    s.chars().all(raw_ok_literal)
}
pub fn can_ml_literal(s: &str) -> bool {
    let mut run = 0;
    for c in s.chars() {
        if c == '\'' {
            run += 1;
            if run > 2 {
                return false;
            }
        } else {
            run = 0;
            if !(raw_ok_literal(c) || c == '\n') {
                return false;
            }
        }
    }
    true
}
pub fn is_bare_key(s: &str) -> bool {
    !s.is_empty() && s.bytes().all(|c| c.is_ascii_alphanumeric() || c == b'_' || c == b'-')
}

pub fn spell_basic(s: &str, t: &mut Tape) -> String {
    let mut out = String::from("\"");
    // escape density for this string: 0 = only where needed
    let dens = *t.pick(&[0u32, 0, 1, 4]);
    for c in s.chars() {
        if raw_ok_basic(c) && !(dens > 0 && t.chance(dens, 8)) {
            out.push(c);
        } else {
            any_escape(c, t, &mut out);
        }
    }
    out.push('"');
    out
}

pub fn spell_literal(s: &str) -> String {
    format!("'{s}'")
}

fn nl(t: &mut Tape, out: &mut String) {
    if t.chance(1, 3) {
        out.push_str("\r\n");
    } else {
        out.push('\n');
    }
}

pub fn spell_ml_basic(s: &str, t: &mut Tape) -> String {
    let mut out = String::from("\"\"\"");
    let chars: Vec<char> = s.chars().collect();
    let dens = *t.pick(&[0u32, 0, 1, 3]);
    let cont = *t.pick(&[0u32, 0, 1, 2]); // line-continuation density
    // a newline directly after the opening delimiter is trimmed
    let starts_nl = chars.first() == Some(&'\n');
    if starts_nl || t.chance(1, 2) {
        nl(t, &mut out);
    }
    let mut quote_run = 0; // raw quotes just emitted
    let mut i = 0;
    while i < chars.len() {
        let c = chars[i];
        // line-ending backslash: only where the next content char is not raw whitespace/newline
        if cont > 0 && t.chance(cont, 10) {
            // whatever follows the trimmed region must not be a raw space/tab/newline: we force
            // the next char to be escaped if it is one
            out.push('\\');
            for _ in 0..t.small(2) {
                out.push(*t.pick(&[' ', '\t']));
            }
            nl(t, &mut out);
            for _ in 0..t.small(3) {
                match t.below(3) {
                    0 => out.push(' '),
                    1 => out.push('\t'),
                    _ => nl(t, &mut out),
                }
            }
            quote_run = 0;
            if matches!(c, ' ' | '\t' | '\n') {
                any_escape(c, t, &mut out);
                i += 1;
                continue;
            }
        }
        if c == '"' {
            if quote_run < 2 && !(dens > 0 && t.chance(dens, 8)) {
                out.push('"');
                quote_run += 1;
            } else {
                any_escape(c, t, &mut out);
                quote_run = 0;
            }
        } else if c == '\n' {
            if dens > 0 && t.chance(dens, 8) {
                any_escape(c, t, &mut out);
            } else {
                nl(t, &mut out);
            }
            quote_run = 0;
        } else if raw_ok_basic(c) && !(dens > 0 && t.chance(dens, 8)) {
            out.push(c);
            quote_run = 0;
        } else {
            any_escape(c, t, &mut out);
            quote_run = 0;
        }
        i += 1;
    }
    if cont > 0 && t.chance(1, 6) {
        out.push('\\');
        nl(t, &mut out);
        for _ in 0..t.small(2) {
            out.push(' ');
        }
    }
    out.push_str("\"\"\"");
    out
}

pub fn spell_ml_literal(s: &str, t: &mut Tape) -> String {
    let mut out = String::from("'''");
    if s.starts_with('\n') || t.chance(1, 2) {
        nl(t, &mut out);
    }
    for c in s.chars() {
        if c == '\n' {
            nl(t, &mut out);
        } else {
            out.push(c);
        }
    }
    out.push_str("'''");
    out
}

#[derive(Clone, Copy, PartialEq, Eq, Debug)]
pub enum StrKind {
    Basic,
    Literal,
    MlBasic,
    MlLiteral,
}
impl StrKind {
    pub fn name(self) -> &'static str {
        match self {
            StrKind::Basic => "basic",
            StrKind::Literal => "literal",
            StrKind::MlBasic => "ml_basic",
            StrKind::MlLiteral => "ml_literal",
        }
    }
}

/// any legal spelling of a string value; `allow_ml` = false inside contexts where a raw newline is
/// not wanted (none in TOML proper; used by the toml! generator)
pub fn spell_string(s: &str, t: &mut Tape, allow_ml: bool) -> (String, StrKind) {
    let mut opts = vec![StrKind::Basic];
    if can_literal(s) {
        opts.push(StrKind::Literal);
    }
    if allow_ml {
        opts.push(StrKind::MlBasic);
        if can_ml_literal(s) {
            opts.push(StrKind::MlLiteral);
        }
    }
    let k = *t.pick(&opts);
    let tok = match k {
        StrKind::Basic => spell_basic(s, t),
        StrKind::Literal => spell_literal(s),
        StrKind::MlBasic => spell_ml_basic(s, t),
        StrKind::MlLiteral => spell_ml_literal(s, t),
    };
    (tok, k)
}

/// canonical-first spelling of one key segment: bare when possible
pub fn spell_key(s: &str, t: &mut Tape) -> String {
    let mut opts: Vec<u8> = vec![];
    if is_bare_key(s) {
        opts.push(0);
        opts.push(0);
    }
    opts.push(1);
    if can_literal(s) {
        opts.push(2);
    }
    match *t.pick(&opts) {
        0 => s.to_string(),
        1 => spell_basic(s, t),
        _ => spell_literal(s),
    }
}

fn underscores(digits: &str, t: &mut Tape, is_digit: impl Fn(char) -> bool) -> String {
    let dens = *t.pick(&[0u32, 0, 1, 3]);
    if dens == 0 {
        return digits.to_string();
    }
    let cs: Vec<char> = digits.chars().collect();
    let mut out = String::new();
    for (i, c) in cs.iter().enumerate() {
        out.push(*c);
        if i + 1 < cs.len() && is_digit(*c) && is_digit(cs[i + 1]) && t.chance(dens, 6) {
            out.push('_');
        }
    }
    out
}

pub fn spell_int(v: i64, t: &mut Tape) -> (String, &'static str) {
    let base = if v >= 0 { t.weighted(&[5, 2, 1, 1]) } else { 0 };
    match base {
        0 => {
            let mag = (v as i128).unsigned_abs().to_string();
            let d = underscores(&mag, t, |c| c.is_ascii_digit());
            let sign = if v < 0 {
                "-"
            } else if v == 0 {
                *t.pick(&["", "+", "-"])
            } else {
                *t.pick(&["", "", "+"])
            };
            (format!("{sign}{d}"), "dec")
        }
        b => {
            let (pre, digits, name) = match b {
                1 => ("0x", format!("{v:x}"), "hex"),
                2 => ("0o", format!("{v:o}"), "oct"),
                _ => ("0b", format!("{v:b}"), "bin"),
            };
            let mut d = String::new();
            for _ in 0..t.small(3) {
                d.push('0');
            }
            for c in digits.chars() {
                d.push(if t.chance(1, 2) { c.to_ascii_uppercase() } else { c });
            }
            let d = underscores(&d, t, |c| c.is_ascii_hexdigit());
            (format!("{pre}{d}"), name)
        }
    }
}

/// shortest round-trip decimal digits and exponent: value = 0.D * 10^e ... returned as (D, e10)
/// with value = D * 10^e10, D without leading/trailing zeros (non-zero finite input).
pub fn shortest_digits(f: f64) -> (String, i32) {
    let s = format!("{:e}", f.abs());
    let (m, e) = s.split_once('e').unwrap();
    let e: i32 = e.parse().unwrap();
    let (ip, fp) = match m.split_once('.') {
        Some((a, b)) => (a, b),
        None => (m, ""),
    };
    let d = format!("{ip}{fp}");
    (d, e - fp.len() as i32)
}

fn spell_exp(e: i32, t: &mut Tape) -> String {
    let mut out = String::new();
    out.push(if t.chance(1, 2) { 'E' } else { 'e' });
    if e < 0 {
        out.push('-');
    } else if t.chance(1, 3) {
        out.push('+');
    }
    let mut d = String::new();
    for _ in 0..t.small(2) {
        d.push('0');
    }
    d.push_str(&e.unsigned_abs().to_string());
    out.push_str(&underscores(&d, t, |c| c.is_ascii_digit()));
    out
}

/// Exact decimal re-spellings of a float's shortest round-trip digits.
pub fn spell_float(f: f64, t: &mut Tape) -> (String, &'static str) {
    if f.is_nan() {
        let s = if f.is_sign_negative() { "-nan" } else { *t.pick(&["nan", "+nan"]) };
        return (s.to_string(), "nan");
    }
    if f.is_infinite() {
        let s = if f < 0.0 { "-inf" } else { *t.pick(&["inf", "+inf"]) };
        return (s.to_string(), "inf");
    }
    let sign = if f.is_sign_negative() { "-" } else { *t.pick(&["", "", "+"]) };
    if f == 0.0 {
        let body = match t.below(5) {
            0 => "0.0".to_string(),
            1 => format!("0{}", spell_exp(t.range(-400, 400) as i32, t)),
            2 => format!("0.000{}", spell_exp(t.range(-9, 9) as i32, t)),
            3 => "0.0_0".to_string(),
            _ => "0e0".to_string(),
        };
        return (format!("{sign}{body}"), "zero");
    }
    let (mut d, mut e10) = shortest_digits(f);
    // trailing zeros keep the value
    for _ in 0..t.small(4) {
        d.push('0');
        e10 -= 1;
    }
    let len = d.len() as i32;
    let form = t.weighted(&[3, 3, 2]);
    let (body, class) = match form {
        // scientific with the point after p digits
        0 => {
            let p = 1 + t.below(d.len()) as i32; // 1..=len
            let exp = e10 + (len - p);
            let ip = &d[..p as usize];
            let fp = &d[p as usize..];
            let ip = underscores(ip, t, |c| c.is_ascii_digit());
            let mant = if fp.is_empty() {
                ip
            } else {
                format!("{ip}.{}", underscores(fp, t, |c| c.is_ascii_digit()))
            };
            (format!("{mant}{}", spell_exp(exp, t)), "sci")
        }
        // plain decimal expansion (when not absurdly long), else scientific
        1 if e10 > -40 && e10 < 40 => {
            let (ip, fp) = if e10 >= 0 {
                let mut ip = d.clone();
                for _ in 0..e10 {
                    ip.push('0');
                }
                (ip, "0".to_string())
            } else if len > -e10 {
                let cut = (len + e10) as usize;
                (d[..cut].to_string(), d[cut..].to_string())
            } else {
                let mut fp = String::new();
                for _ in 0..(-e10 - len) {
                    fp.push('0');
                }
                fp.push_str(&d);
                ("0".to_string(), fp)
            };
            let ip = underscores(&ip, t, |c| c.is_ascii_digit());
            let fp = underscores(&fp, t, |c| c.is_ascii_digit());
            (format!("{ip}.{fp}"), "plain")
        }
        // 0.000ddd e X
        _ => {
            let z = t.small(3) as i32;
            let mut fp = String::new();
            for _ in 0..z {
                fp.push('0');
            }
            fp.push_str(&d);
            let exp = e10 + len + z;
            (format!("0.{}{}", underscores(&fp, t, |c| c.is_ascii_digit()), spell_exp(exp, t)), "zero-int-part")
        }
    };
    (format!("{sign}{body}"), class)
}

pub fn spell_dt(d: &Dt, t: &mut Tape) -> String {
    let mut s = String::new();
    if let Some((y, m, dd)) = d.date {
        s.push_str(&format!("{y:04}-{m:02}-{dd:02}"));
    }
    if let Some((h, mi, se, ns)) = d.time {
        if d.date.is_some() {
            s.push(*t.pick(&['T', 't', ' ']));
        }
        s.push_str(&format!("{h:02}:{mi:02}:{se:02}"));
        let full = format!("{ns:09}");
        let minimal = full.trim_end_matches('0');
        match t.weighted(&[3, 2, 2, 1]) {
            0 => {
                if !minimal.is_empty() {
                    s.push('.');
                    s.push_str(minimal);
                }
            }
            1 => {
                // padded with zeros up to 9 digits
                let want = minimal.len().max(1) + t.below(9 - minimal.len().max(1) + 1);
                s.push('.');
                s.push_str(&full[..want.min(9)]);
            }
            2 => {
                s.push('.');
                s.push_str(&full);
            }
            _ => {
                // more than nine digits: the rest is truncated
                s.push('.');
                s.push_str(&full);
                for _ in 0..=t.small(6) {
                    s.push((b'0' + t.below(10) as u8) as char);
                }
            }
        }
    }
    match d.offset {
        None => {}
        Some(Off::Z) => s.push(*t.pick(&['Z', 'z'])),
        Some(Off::Min(m)) => {
            let a = (m as i32).abs();
            let sign = if m < 0 {
                '-'
            } else if m == 0 {
                *t.pick(&['+', '-'])
            } else {
                '+'
            };
            s.push_str(&format!("{sign}{:02}:{:02}", a / 60, a % 60));
        }
    }
    s
}


// ------------------------------------------------------------------------------------------------
// the Rust-tokenizable sub-grammar (C19): spellings that mean the same to TOML and to rustc's lexer
// ------------------------------------------------------------------------------------------------

pub const RUST_KEYS: [&str; 24] = ["a", "b", "c", "d", "e", "k", "x", "y", "type", "fn", "a-b", "x_1", "crates-io", "a b", "cfg(windows)", "é", "-v", "--flag", "-", "x-", "1st", "a.b", "", "a\"b"];

pub fn spell_rust_key(k: &str) -> String {
    let ident_like = |s: &str| !s.is_empty() && s.chars().next().unwrap().is_ascii_alphabetic() && s.chars().all(|c| c.is_ascii_alphanumeric() || c == '_');
    if k.split('-').all(ident_like) {
        k.to_string()
    } else {
        format!("\"{}\"", k.replace('\\', "\\\\").replace('"', "\\\""))
    }
}

pub fn gen_rust_scalar(t: &mut Tape) -> crate::model::Node {
    use crate::model::Node;
    match t.weighted(&[4, 3, 2, 3, 3]) {
        0 => Node::Int(match t.below(3) {
            0 => t.range(-20, 20),
            1 => *t.pick(&[i32::MAX as i64, i32::MIN as i64 + 1, 0, 255, 65535, -1]),
            _ => (t.next() as i32 / 2) as i64,
        }),
        1 => {
            let n = t.small(10);
            Node::Str((0..n).map(|_| *t.pick(&['a', 'b', ' ', 'é', '1', '-', '_', '"', '\\', '\n', '\t', '\r', '#', '=', '[', '{', '\'', '😀'])).collect())
        }
        2 => Node::Bool(t.chance(1, 2)),
        3 => {
            let f = match t.below(4) {
                0 => *t.pick(&[0.0, -0.0, 1.5, -2.25, 1e10, 6.626e-34, 3.0]),
                1 => f64::from_bits(*t.pick(&FLOAT_EDGES)),
                2 => (t.range(-1000, 1000) as f64) / 8.0,
                _ => {
                    let f = f64::from_bits(t.u64());
                    if f.is_nan() {
                        f64::NAN.copysign(f)
                    } else {
                        f
                    }
                }
            };
            Node::float(f)
        }
        _ => {
            let mut d = gen_dt(t);
            // the macro has no arm for positive offsets
            if let Some(Off::Min(m)) = d.offset {
                if m > 0 {
                    d.offset = Some(Off::Min(-m));
                }
            }
            Node::Dt(d)
        }
    }
}

pub fn spell_rust_scalar(n: &crate::model::Node, t: &mut Tape) -> String {
    use crate::model::Node;
    match n {
        Node::Str(s) => {
            let mut out = String::from("\"");
            for c in s.chars() {
                match c {
                    '"' => out.push_str("\\\""),
                    '\\' => out.push_str("\\\\"),
                    '\n' => out.push_str("\\n"),
                    '\t' => out.push_str("\\t"),
                    '\r' => out.push_str("\\r"),
                    c => out.push(c),
                }
            }
            out.push('"');
            out
        }
        Node::Int(i) => {
            let v = *i;
            if v >= 0 {
                match t.weighted(&[5, 2, 1, 1]) {
                    0 => {
                        let sign = *t.pick(&["", "", "+"]);
                        let d = v.to_string();
                        let d = if d.len() > 3 && t.chance(1, 3) { format!("{}_{}", &d[..d.len() - 3], &d[d.len() - 3..]) } else { d };
                        format!("{sign}{d}")
                    }
                    1 => format!("0x{v:x}"),
                    2 => format!("0o{v:o}"),
                    _ => format!("0b{v:b}"),
                }
            } else {
                format!("{v}")
            }
        }
        Node::Float(b) => {
            let f = f64::from_bits(*b);
            if f.is_nan() {
                return if f.is_sign_negative() { "-nan".into() } else { t.pick(&["nan", "+nan"]).to_string() };
            }
            if f.is_infinite() {
                return if f < 0.0 { "-inf".into() } else { t.pick(&["inf", "+inf"]).to_string() };
            }
            let sign = if f.is_sign_negative() { "-" } else { *t.pick(&["", "", "+"]) };
            let a = f.abs();
            // shortest digits; plain `d.ddd` or `d.ddde±x`, both valid Rust float literals
            let body = if a == 0.0 {
                "0.0".to_string()
            } else if a >= 1e-5 && a < 1e15 && t.chance(1, 2) {
                let s = format!("{a}");
                if s.contains('.') {
                    s
                } else {
                    format!("{s}.0")
                }
            } else {
                let s = format!("{a:e}");
                // Rust prints 1e10 as "1e10": add a fraction half of the time
                if !s.contains('.') && t.chance(1, 2) {
                    s.replacen('e', ".0e", 1)
                } else {
                    s
                }
            };
            format!("{sign}{body}")
        }
        Node::Bool(b) => b.to_string(),
        Node::Dt(d) => {
            let mut s = String::new();
            if let Some((y, m, dd)) = d.date {
                s.push_str(&format!("{y:04}-{m:02}-{dd:02}"));
            }
            if let Some((h, mi, se, ns)) = d.time {
                if d.date.is_some() {
                    s.push(*t.pick(&['T', ' ', 't']));
                }
                s.push_str(&format!("{h:02}:{mi:02}:{se:02}"));
                if ns != 0 {
                    let f = format!("{ns:09}");
                    s.push('.');
                    match t.weighted(&[4, 1, 2]) {
                        0 => s.push_str(f.trim_end_matches('0')),
                        // all nine digits
                        1 => s.push_str(&f),
                        _ => {
                            // more than nine digits: the rest is truncated
                            s.push_str(&f);
                            for _ in 0..=t.small(6) {
                                s.push((b'0' + t.below(10) as u8) as char);
                            }
                        }
                    }
                }
            }
            match d.offset {
                None => {}
                Some(Off::Z) => s.push(*t.pick(&['Z', 'z'])),
                Some(Off::Min(m)) => {
                    let a = (m as i32).abs();
                    s.push_str(&format!("-{:02}:{:02}", a / 60, a % 60));
                }
            }
            s
        }
        _ => unreachable!(),
    }
}
