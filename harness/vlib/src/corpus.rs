//! The vendored toml-test 1.0.0 fixtures and the calibration of the reference decoder on them.

use crate::model::{Node, Tbl, TblKind};
use crate::tomlref;
use serde_json::Value as J;

pub struct Fixture {
    pub name: String,
    pub valid: bool,
    pub bytes: Vec<u8>,
    pub expected: Option<Tbl>,
}

pub fn corpus_dir() -> String {
    format!("{}/corpus/toml-test", crate::engine::VERIF_DIR)
}

fn json_to_node(j: &J) -> Node {
    match j {
        J::Array(a) => Node::Array(a.iter().map(json_to_node).collect()),
        J::Object(m) => {
            if m.len() == 2 && m.contains_key("type") && m.contains_key("value") && m["type"].is_string() && m["value"].is_string() {
                let ty = m["type"].as_str().unwrap();
                let v = m["value"].as_str().unwrap();
                match ty {
                    "string" => Node::Str(v.to_string()),
                    "integer" => Node::Int(v.parse().expect("fixture integer")),
                    "float" => {
                        let f: f64 = match v {
                            "inf" | "+inf" => f64::INFINITY,
                            "-inf" => f64::NEG_INFINITY,
                            "nan" | "+nan" | "-nan" => f64::NAN,
                            _ => v.parse().expect("fixture float"),
                        };
                        Node::float(f)
                    }
                    "bool" => Node::Bool(v == "true"),
                    "datetime" | "datetime-local" | "date-local" | "time-local" => {
                        Node::Dt(tomlref::datetime(v).expect("fixture datetime"))
                    }
                    _ => panic!("unknown fixture type {ty}"),
                }
            } else {
                let mut t = Tbl::new(TblKind::Any);
                for (k, v) in m {
                    t.entries.push((k.clone(), json_to_node(v)));
                }
                Node::Table(t)
            }
        }
        _ => panic!("unexpected fixture json"),
    }
}

pub fn load() -> Vec<Fixture> {
    let dir = corpus_dir();
    let list = std::fs::read_to_string(format!("{dir}/files-toml-1.0.0"))
        .unwrap_or_else(|e| crate::engine::fault(&format!("corpus list: {e}")));
    let mut out = vec![];
    for line in list.lines() {
        if !line.ends_with(".toml") {
            continue;
        }
        let bytes = std::fs::read(format!("{dir}/{line}"))
            .unwrap_or_else(|e| crate::engine::fault(&format!("corpus file {line}: {e}")));
        let valid = line.starts_with("valid/");
        let expected = if valid {
            let jp = format!("{dir}/{}.json", line.trim_end_matches(".toml"));
            let js = std::fs::read_to_string(&jp)
                .unwrap_or_else(|e| crate::engine::fault(&format!("corpus json {jp}: {e}")));
            let j: J = serde_json::from_str(&js).unwrap();
            match json_to_node(&j) {
                Node::Table(t) => Some(t),
                _ => panic!("fixture root"),
            }
        } else {
            None
        };
        out.push(Fixture { name: line.to_string(), valid, bytes, expected });
    }
    out
}

/// The reference must reproduce the verdict (and for valid fixtures the tree) of every fixture.
/// Returns the list of disagreements (empty = calibrated).
pub fn calibrate(fixtures: &[Fixture]) -> Vec<String> {
    let mut bad = vec![];
    for f in fixtures {
        let text = match std::str::from_utf8(&f.bytes) {
            Ok(t) => t,
            Err(_) => {
                if f.valid {
                    bad.push(format!("{}: valid fixture is not UTF-8", f.name));
                }
                continue;
            }
        };
        let (v, _) = tomlref::decode(text);
        match (&v, f.valid) {
            (tomlref::Verdict::Valid(t), true) => {
                let exp = f.expected.as_ref().unwrap();
                if let Err(e) = crate::model::diff_tbl(t, exp, crate::model::Cmp::SERDE) {
                    bad.push(format!("{}: tree differs from expected JSON: {e}", f.name));
                }
            }
            (tomlref::Verdict::Invalid(_), false) => {}
            // integers beyond i64 etc. are `invalid` fixtures (the spec demands an error)
            (tomlref::Verdict::Limit(_), false) => {}
            _ => bad.push(format!("{}: reference says {}", f.name, v.short())),
        }
    }
    bad
}
