//! `tomlgen` — tree-first document generator and renderer with provenance.
//!
//! A layout-annotated tree is generated from the choice tape, planned into a list of sections and
//! body lines (a random linear extension of the ordering constraints TOML imposes), and emitted as
//! text together with: the expected decode (by construction), the normalised text C03 promises, and
//! a source map (byte ranges of every key, value and table; verbatim fragments of every entry).

use crate::model::{Node, Tbl};
use crate::scalars::*;
use crate::tape::Tape;
use crate::tomlref::{self, SemStmt, SemVal};
use std::ops::Range;

#[derive(Clone, Copy, Debug, PartialEq, Eq)]
pub enum Layout {
    Root,
    Header,
    Implicit,
    Dotted,
    Inline,
    AotElem,
}

#[derive(Clone, Debug)]
pub struct GTable {
    pub layout: Layout,
    pub entries: Vec<(String, GNode)>,
}

#[derive(Clone, Debug)]
pub enum GNode {
    Scalar(Node),
    Array(Vec<GNode>),
    Table(GTable),
    Aot(Vec<GTable>),
}

#[derive(Clone, Debug)]
pub struct GenCfg {
    /// rough bound on the number of nodes
    pub budget: usize,
    pub max_depth: usize,
    /// decoration: 0 = canonical minimal, 1 = some, 2 = heavy
    pub decor: u8,
    /// keys sharing a dotted prefix stay adjacent (C03's exact mode)
    pub adjacent: bool,
    /// spell repeated path components consistently (excludes known finding F11 by construction)
    pub f11_safe: bool,
    pub allow_bom: bool,
    pub allow_crlf: bool,
    /// leaves restricted to short plain scalars
    pub plain_leaves: bool,
    /// keys only from the small pool (no odd keys)
    pub plain_keys: bool,
    /// every entry line gets a trailing comment with a unique marker
    pub mark_every_line: bool,
    /// allow section reordering (sub before super, interleaving)
    pub reorder: bool,
    /// multi-line strings allowed
    pub allow_ml: bool,
    /// a `[sub.table]` header may come before its `[sub]` super-table's header
    pub sub_before_super: bool,
    /// tables created by dotted keys may have `[header]` / `[[header]]` children
    pub sections_under_dotted: bool,
    /// restrict keys, values and spellings to what is both TOML and a sequence of Rust tokens the
    /// `toml!` macro takes (C19)
    pub rust_tokens: bool,
    /// wide documents: the root gets 14..54 entries, most of them `[tables]` and `[[arrays of
    /// tables]]` with few entries each (code that sorts or indexes tables behaves differently
    /// beyond a few dozen of them); needs a budget of a few hundred
    pub many_sections: bool,
}

impl Default for GenCfg {
    fn default() -> Self {
        GenCfg {
            budget: 30,
            max_depth: 5,
            decor: 1,
            adjacent: true,
            f11_safe: true,
            allow_bom: true,
            allow_crlf: true,
            plain_leaves: false,
            plain_keys: false,
            mark_every_line: false,
            reorder: true,
            allow_ml: true,
            sub_before_super: true,
            sections_under_dotted: true,
            rust_tokens: false,
            many_sections: false,
        }
    }
}

#[derive(Clone, Debug, PartialEq, Eq, Hash)]
pub enum Seg {
    Key(String),
    Idx(usize),
}
pub type Path = Vec<Seg>;

pub fn path_str(p: &Path) -> String {
    let mut s = String::new();
    for seg in p {
        match seg {
            Seg::Key(k) => {
                if !s.is_empty() {
                    s.push('.');
                }
                s.push_str(&format!("{k:?}"));
            }
            Seg::Idx(i) => s.push_str(&format!("[{i}]")),
        }
    }
    s
}

#[derive(Clone, Debug, Default)]
pub struct SourceMap {
    /// every value (scalar, array, inline table): path and the byte range of its token
    pub values: Vec<(Path, Range<usize>)>,
    /// every key token: path of the node it names, byte range (without surrounding whitespace)
    pub keys: Vec<(Path, Range<usize>)>,
    /// every `[header]` / `[[header]]` section: path of the table (AoT elements end in Idx),
    /// range of the header token `[...]`, range from header start to the end of its last value
    pub sections: Vec<(Path, Range<usize>, Range<usize>)>,
    /// per body line / inline entry with a leaf value: path of the leaf, range of the whole
    /// entry `key = value` (key start to value end), full line range incl. leading decor and eol comment
    pub entries: Vec<EntryFrag>,
    pub comments: Vec<String>,
    /// root table span end: end of last root-body value (0 if none)
    pub root_end: usize,
}

#[derive(Clone, Debug)]
pub struct EntryFrag {
    pub path: Path,
    /// `key = value` without surrounding decoration
    pub kv: Range<usize>,
    /// from the start of the leading decor (blank/comment lines) through the end-of-line comment
    pub line: Range<usize>,
    pub in_inline: bool,
}

#[derive(Clone, Debug)]
pub struct Rendered {
    pub text: String,
    /// what C03 promises `to_string()` returns in adjacent mode
    pub normalised: String,
    pub expected: Tbl,
    pub statements: Vec<SemStmt>,
    pub map: SourceMap,
    pub classes: Vec<&'static str>,
    pub noncanonical: bool,
    pub f11_excluded: usize,
    pub n_sections: usize,
}

// ------------------------------------------------------------------------------------------------
// tree generation
// ------------------------------------------------------------------------------------------------

struct G<'a, 't> {
    t: &'a mut Tape<'t>,
    cfg: &'a GenCfg,
    budget: isize,
}

impl G<'_, '_> {
    fn key(&mut self, used: &[(String, GNode)]) -> Option<String> {
        for _ in 0..4 {
            let k = if self.cfg.rust_tokens {
                self.t.pick(&RUST_KEYS).to_string()
            } else if self.cfg.plain_keys {
                self.t.pick(&KEY_POOL).to_string()
            } else {
                gen_key(self.t)
            };
            if !used.iter().any(|(u, _)| *u == k) && !k.starts_with("$__") {
                return Some(k);
            }
        }
        if self.cfg.many_sections && !self.cfg.rust_tokens {
            return Some(format!("s{}", used.len()));
        }
        None
    }

    fn scalar(&mut self) -> Node {
        self.budget -= 1;
        if self.cfg.rust_tokens {
            return gen_rust_scalar(self.t);
        }
        if self.cfg.plain_leaves {
            return match self.t.below(4) {
                0 => Node::Int(self.t.range(-5, 100)),
                1 => Node::Str(gen_plain_string(self.t)),
                2 => Node::Bool(self.t.chance(1, 2)),
                _ => Node::Float((self.t.range(-8, 8) as f64 * 0.25).to_bits()),
            };
        }
        match self.t.weighted(&[4, 4, 2, 3, 2]) {
            0 => Node::Int(gen_int(self.t)),
            1 => Node::Str(gen_string(self.t)),
            2 => Node::Bool(self.t.chance(1, 2)),
            3 => Node::float(gen_float(self.t)),
            _ => Node::Dt(gen_dt(self.t)),
        }
    }

    /// value context: scalar / array / inline table
    fn value(&mut self, depth: usize) -> GNode {
        if depth >= self.cfg.max_depth || self.budget <= 0 {
            return GNode::Scalar(self.scalar());
        }
        match self.t.weighted(&[8, 2, 2]) {
            0 => GNode::Scalar(self.scalar()),
            1 => {
                self.budget -= 1;
                if self.cfg.many_sections && self.t.chance(1, 6) {
                    // a long array of scalars (beyond the small-slice threshold of the sorting code)
                    let n = 21 + self.t.small(20);
                    return GNode::Array((0..n).map(|_| GNode::Scalar(self.scalar())).collect());
                }
                let n = self.t.small(5);
                GNode::Array((0..n).map(|_| self.value(depth + 1)).collect())
            }
            _ => GNode::Table(self.inline(depth + 1)),
        }
    }

    fn inline(&mut self, depth: usize) -> GTable {
        self.budget -= 1;
        let mut entries: Vec<(String, GNode)> = vec![];
        let n = self.t.small(4);
        for _ in 0..n {
            let Some(k) = self.key(&entries) else { continue };
            let node = if depth < self.cfg.max_depth && self.budget > 0 && self.t.chance(1, 5) {
                GNode::Table(self.dotted(depth + 1, false))
            } else {
                self.value(depth)
            };
            entries.push((k, node));
        }
        GTable { layout: Layout::Inline, entries }
    }

    /// a table created by dotted keys: at least one leaf reachable through dotted tables only
    fn dotted(&mut self, depth: usize, body_ctx: bool) -> GTable {
        self.budget -= 1;
        let mut entries: Vec<(String, GNode)> = vec![];
        let n = 1 + self.t.small(3);
        for i in 0..n {
            let Some(k) = self.key(&entries) else { continue };
            let node = if i > 0 && depth < self.cfg.max_depth && self.budget > 0 {
                let sec = body_ctx && self.cfg.sections_under_dotted;
                match self.t.weighted(&[10, 3, if sec { 2 } else { 0 }, if sec { 1 } else { 0 }]) {
                    0 => self.value(depth),
                    1 => GNode::Table(self.dotted(depth + 1, body_ctx)),
                    2 => GNode::Table(self.header_table(depth + 1, Layout::Header)),
                    _ => self.aot(depth + 1),
                }
            } else if i == 0 && depth < self.cfg.max_depth && self.budget > 0 && self.t.chance(1, 4) {
                GNode::Table(self.dotted(depth + 1, body_ctx))
            } else {
                self.value(depth)
            };
            entries.push((k, node));
        }
        if entries.is_empty() {
            entries.push(("k".into(), GNode::Scalar(self.scalar())));
        }
        GTable { layout: Layout::Dotted, entries }
    }

    fn aot(&mut self, depth: usize) -> GNode {
        self.budget -= 1;
        let n = 1 + self.t.small(3);
        GNode::Aot((0..n).map(|_| self.header_table(depth + 1, Layout::AotElem)).collect())
    }

    fn implicit(&mut self, depth: usize) -> GTable {
        self.budget -= 1;
        let mut entries: Vec<(String, GNode)> = vec![];
        let n = 1 + self.t.small(2);
        for _ in 0..n {
            let Some(k) = self.key(&entries) else { continue };
            let node = if depth + 1 < self.cfg.max_depth && self.t.chance(1, 4) {
                if self.t.chance(1, 2) {
                    GNode::Table(self.implicit(depth + 1))
                } else {
                    self.aot(depth + 1)
                }
            } else {
                GNode::Table(self.header_table(depth + 1, Layout::Header))
            };
            entries.push((k, node));
        }
        if entries.is_empty() {
            entries.push(("k".into(), GNode::Table(self.header_table(depth + 1, Layout::Header))));
        }
        GTable { layout: Layout::Implicit, entries }
    }

    /// Root / Header / AotElem
    fn header_table(&mut self, depth: usize, layout: Layout) -> GTable {
        self.budget -= 1;
        let mut entries: Vec<(String, GNode)> = vec![];
        let wide = self.cfg.many_sections;
        let n = match (layout == Layout::Root, wide) {
            (true, true) => 14 + self.t.small(40),
            (true, false) => 1 + self.t.small(8),
            (false, true) => self.t.small(3),
            (false, false) => self.t.small(5),
        };
        let weights: [u32; 6] = if wide && layout == Layout::Root { [3, 1, 8, 0, 1, 6] } else { [10, 3, 3, 4, 1, 3] };
        for _ in 0..n {
            let Some(k) = self.key(&entries) else { continue };
            let deep_ok = depth < self.cfg.max_depth && self.budget > 0;
            let node = if !deep_ok {
                GNode::Scalar(self.scalar())
            } else {
                match self.t.weighted(&weights) {
                    0 => self.value(depth),
                    1 => GNode::Table(self.dotted(depth + 1, true)),
                    2 => GNode::Table(self.header_table(depth + 1, Layout::Header)),
                    3 => self.value(depth),
                    4 => GNode::Table(self.implicit(depth + 1)),
                    _ => self.aot(depth + 1),
                }
            };
            entries.push((k, node));
        }
        GTable { layout, entries }
    }
}

pub fn gen_tree(t: &mut Tape, cfg: &GenCfg) -> GTable {
    let mut g = G { t, cfg, budget: cfg.budget as isize };
    g.header_table(0, Layout::Root)
}

/// the plain model of a generated tree (order = generation order; the renderer recomputes order
/// from the statement sequence)
pub fn tree_model(t: &GTable) -> Tbl {
    use crate::model::TblKind;
    let mut out = Tbl::new(match t.layout {
        Layout::Root | Layout::Header => TblKind::Std,
        Layout::Implicit => TblKind::Implicit,
        Layout::Dotted => TblKind::Dotted,
        Layout::Inline => TblKind::Inline,
        Layout::AotElem => TblKind::AotElem,
    });
    for (k, n) in &t.entries {
        out.entries.push((k.clone(), node_model(n)));
    }
    out
}
pub fn node_model(n: &GNode) -> Node {
    match n {
        GNode::Scalar(s) => s.clone(),
        GNode::Array(a) => Node::Array(a.iter().map(node_model).collect()),
        GNode::Table(t) => Node::Table(tree_model(t)),
        GNode::Aot(a) => Node::Aot(a.iter().map(tree_model).collect()),
    }
}

// ------------------------------------------------------------------------------------------------
// planning
// ------------------------------------------------------------------------------------------------

/// identity of a table-naming key: the path of the table/aot node
type KeyId = Path;

#[derive(Clone, Debug)]
struct Line<'g> {
    /// keys relative to the section, as (name, id of the node it names)
    rel: Vec<(String, KeyId)>,
    value: &'g GNode,
    leaf_path: Path,
}

#[derive(Clone, Debug)]
struct Sec<'g> {
    /// full header path as (name, KeyId)
    header: Vec<(String, KeyId)>,
    aot: bool,
    table_path: Path,
    table: &'g GTable,
}

fn collect_lines<'g>(
    tbl: &'g GTable,
    base: &Path,
    rel: &mut Vec<(String, KeyId)>,
    out: &mut Vec<Line<'g>>,
) {
    for (k, n) in &tbl.entries {
        let mut p = base.clone();
        p.push(Seg::Key(k.clone()));
        match n {
            GNode::Scalar(_) | GNode::Array(_) => {
                let mut r = rel.clone();
                r.push((k.clone(), p.clone()));
                out.push(Line { rel: r, value: n, leaf_path: p });
            }
            GNode::Table(t) if t.layout == Layout::Inline => {
                let mut r = rel.clone();
                r.push((k.clone(), p.clone()));
                out.push(Line { rel: r, value: n, leaf_path: p });
            }
            GNode::Table(t) if t.layout == Layout::Dotted => {
                rel.push((k.clone(), p.clone()));
                collect_lines(t, &p, rel, out);
                rel.pop();
            }
            _ => {}
        }
    }
}

struct Planner<'a, 't> {
    t: &'a mut Tape<'t>,
    reorder: bool,
    sub_before_super: bool,
}

impl<'a, 't> Planner<'a, 't> {
    /// random interleaving preserving each list's internal order; choice 0 = plain concatenation
    fn merge<'g>(&mut self, mut lists: Vec<Vec<Sec<'g>>>) -> Vec<Sec<'g>> {
        lists.retain(|l| !l.is_empty());
        if !self.reorder || lists.len() <= 1 || !self.t.chance(1, 3) {
            return lists.into_iter().flatten().collect();
        }
        let mut its: Vec<std::collections::VecDeque<Sec<'g>>> = lists.into_iter().map(|l| l.into()).collect();
        let mut out = vec![];
        while !its.is_empty() {
            let i = self.t.below(its.len());
            out.push(its[i].pop_front().unwrap());
            if its[i].is_empty() {
                its.remove(i);
            }
        }
        out
    }

    /// sections contributed by the header-ish children of `tbl` (a body table or a dotted table
    /// inside one); `hdr` is the full header path of `tbl`.
    /// Returns (free lists, bound lists): bound = hanging under dotted tables, must follow the
    /// section that defines the dotted table.
    fn child_lists<'g>(
        &mut self,
        tbl: &'g GTable,
        path: &Path,
        hdr: &Vec<(String, KeyId)>,
        under_dotted: bool,
        free: &mut Vec<Vec<Sec<'g>>>,
        bound: &mut Vec<Vec<Sec<'g>>>,
    ) {
        for (k, n) in &tbl.entries {
            let mut p = path.clone();
            p.push(Seg::Key(k.clone()));
            let mut h = hdr.clone();
            h.push((k.clone(), p.clone()));
            match n {
                GNode::Table(t) if t.layout == Layout::Dotted => {
                    self.child_lists(t, &p, &h, true, free, bound);
                }
                GNode::Table(t) if t.layout == Layout::Header => {
                    let l = self.header_list(t, &p, &h);
                    if under_dotted {
                        bound.push(l)
                    } else {
                        free.push(l)
                    }
                }
                GNode::Table(t) if t.layout == Layout::Implicit => {
                    let mut f = vec![];
                    let mut b = vec![];
                    self.child_lists(t, &p, &h, false, &mut f, &mut b);
                    f.extend(b);
                    let l = self.merge(f);
                    if under_dotted {
                        bound.push(l)
                    } else {
                        free.push(l)
                    }
                }
                GNode::Aot(elems) => {
                    let mut l = vec![];
                    for (i, e) in elems.iter().enumerate() {
                        let mut ep = p.clone();
                        ep.push(Seg::Idx(i));
                        l.push(Sec { header: h.clone(), aot: true, table_path: ep.clone(), table: e });
                        let mut f = vec![];
                        let mut b = vec![];
                        self.child_lists(e, &ep, &h, false, &mut f, &mut b);
                        f.extend(b);
                        l.extend(self.merge(f));
                    }
                    if under_dotted {
                        bound.push(l)
                    } else {
                        free.push(l)
                    }
                }
                _ => {}
            }
        }
    }

    fn header_list<'g>(&mut self, t: &'g GTable, p: &Path, h: &Vec<(String, KeyId)>) -> Vec<Sec<'g>> {
        let own = Sec { header: h.clone(), aot: false, table_path: p.clone(), table: t };
        let mut free = vec![];
        let mut bound = vec![];
        self.child_lists(t, p, h, false, &mut free, &mut bound);
        let mut chain = vec![own];
        chain.extend(self.merge(bound));
        if self.reorder && self.sub_before_super && !free.is_empty() && self.t.chance(1, 4) {
            // sub-tables may come before their super-table
            let mut lists = vec![chain];
            lists.extend(free);
            // force a real interleave
            let mut its: Vec<std::collections::VecDeque<Sec<'g>>> =
                lists.into_iter().filter(|l| !l.is_empty()).map(|l| l.into()).collect();
            let mut out = vec![];
            while !its.is_empty() {
                let i = self.t.below(its.len());
                out.push(its[i].pop_front().unwrap());
                if its[i].is_empty() {
                    its.remove(i);
                }
            }
            out
        } else {
            let mut lists = vec![chain];
            lists.extend(free);
            // own first, then children (possibly interleaved among themselves)
            let first = lists.remove(0);
            let mut out = first;
            out.extend(self.merge(lists));
            out
        }
    }
}

// ------------------------------------------------------------------------------------------------
// emission
// ------------------------------------------------------------------------------------------------

struct Em<'a, 't> {
    t: &'a mut Tape<'t>,
    cfg: &'a GenCfg,
    text: String,
    norm: String,
    map: SourceMap,
    marker: usize,
    classes: Vec<&'static str>,
    noncanonical: bool,
    /// table keys that occur more than once as a path component: fixed spelling
    multi: std::collections::HashMap<KeyId, usize>,
    spelled: std::collections::HashMap<KeyId, String>,
    f11_excluded: usize,
    crlf_doc: u8, // 0 never, 1 sometimes, 2 always
}

impl Em<'_, '_> {
    fn class(&mut self, c: &'static str) {
        if !self.classes.contains(&c) {
            self.classes.push(c);
        }
    }
    fn put(&mut self, s: &str) {
        self.text.push_str(s);
        self.norm.push_str(s);
    }
    fn newline(&mut self) {
        let crlf = match self.crlf_doc {
            0 => false,
            2 => true,
            _ => self.t.chance(1, 3),
        };
        if crlf {
            self.text.push_str("\r\n");
            self.class("crlf");
        } else {
            self.text.push('\n');
        }
        self.norm.push('\n');
    }
    fn ws(&mut self) -> String {
        if self.cfg.decor == 0 {
            return String::new();
        }
        let heavy = self.cfg.decor >= 2;
        match self.t.weighted(&[if heavy { 3 } else { 8 }, 3, 1, 1]) {
            0 => String::new(),
            1 => " ".into(),
            2 => "\t".into(),
            _ => "  \t ".into(),
        }
    }
    /// whitespace in a slot whose canonical content is one space
    fn ws1(&mut self) -> String {
        if self.cfg.decor == 0 {
            return " ".into();
        }
        match self.t.weighted(&[8, 2, 1, 1]) {
            0 => " ".into(),
            1 => String::new(),
            2 => "\t".into(),
            _ => "   ".into(),
        }
    }
    fn comment_text(&mut self) -> String {
        self.marker += 1;
        let m = format!("#m{}", self.marker);
        let extra = match self.t.weighted(&[4, 2, 2, 1]) {
            0 => "",
            1 => " plain comment",
            2 => " é😀 \" ' [x] = {y} \\n",
            _ => "\t# nested # marks",
        };
        let c = format!("{m}{extra}");
        self.map.comments.push(m);
        c
    }
    /// `[ws] [comment]` at the end of a line (before the newline)
    fn eol_decor(&mut self, force_comment: bool) {
        let w = self.ws();
        if !w.is_empty() {
            self.noncanonical = true;
        }
        self.put(&w);
        if force_comment || (self.cfg.decor > 0 && self.t.chance(1, 6)) {
            let c = self.comment_text();
            self.put(&c);
            self.class("eol-comment");
        }
    }
    /// blank lines / comment lines before a statement
    fn leading_lines(&mut self) {
        if self.cfg.decor == 0 {
            return;
        }
        let n = if self.cfg.decor >= 2 { self.t.small(3) } else if self.t.chance(1, 5) { 1 + self.t.small(2) } else { 0 };
        for _ in 0..n {
            let w = self.ws();
            self.put(&w);
            if self.t.chance(1, 2) {
                let c = self.comment_text();
                self.put(&c);
                self.class("comment-line");
            } else {
                self.class("blank-line");
            }
            self.newline();
        }
    }

    /// spelling of one key segment; table-naming keys that occur several times get one fixed
    /// spelling (F11 exclusion)
    fn key_spelling(&mut self, name: &str, id: Option<&KeyId>) -> String {
        if self.cfg.rust_tokens {
            return spell_rust_key(name);
        }
        if let Some(id) = id {
            if self.cfg.f11_safe && self.multi.get(id).copied().unwrap_or(0) > 1 {
                if let Some(s) = self.spelled.get(id) {
                    return s.clone();
                }
                let s = spell_key(name, self.t);
                self.spelled.insert(id.clone(), s.clone());
                return s;
            }
        }
        spell_key(name, self.t)
    }

    /// emit a (dotted) key path; returns nothing, records key ranges
    fn key_path(&mut self, segs: &[(String, KeyId)], leaf_is_table_key: bool) {
        let n = segs.len();
        for (i, (name, id)) in segs.iter().enumerate() {
            let names_table = i + 1 < n || leaf_is_table_key;
            let fixed = names_table && self.cfg.f11_safe && self.multi.get(id).copied().unwrap_or(0) > 1;
            if i > 0 {
                // whitespace after the dot (dotted-decor prefix of this key)
                if fixed {
                    self.f11_excluded += 1;
                } else {
                    let w = self.ws();
                    if !w.is_empty() {
                        self.class("ws-after-dot");
                        self.noncanonical = true;
                    }
                    self.put(&w);
                }
            }
            let sp = self.key_spelling(name, if names_table { Some(id) } else { None });
            if sp != *name {
                self.noncanonical = true;
                self.class("quoted-key");
            }
            let start = self.text.len();
            self.put(&sp);
            self.map.keys.push((id.clone(), start..self.text.len()));
            if i + 1 < n {
                // whitespace before the dot (dotted-decor suffix of this key)
                if fixed {
                    self.f11_excluded += 1;
                } else {
                    let w = self.ws();
                    if !w.is_empty() {
                        self.class("ws-before-dot");
                        self.noncanonical = true;
                    }
                    self.put(&w);
                }
                self.put(".");
                self.class("dotted-key");
            }
        }
    }

    fn scalar(&mut self, n: &Node) {
        if self.cfg.rust_tokens {
            let tok = spell_rust_scalar(n, self.t);
            self.class(match n {
                Node::Str(_) => "str-basic",
                Node::Int(_) => "int-dec",
                Node::Float(_) => "float-sci",
                Node::Bool(_) => "bool",
                _ => "dt-offset",
            });
            self.put(&tok);
            return;
        }
        match n {
            Node::Str(s) => {
                let (tok, kind) = spell_string(s, self.t, self.cfg.allow_ml);
                match kind {
                    StrKind::Basic => {
                        self.class("str-basic");
                        if tok.contains('\\') {
                            self.noncanonical = true;
                            self.class("str-escape");
                        }
                        self.put(&tok);
                    }
                    StrKind::Literal => {
                        self.class("str-literal");
                        self.noncanonical = true;
                        self.put(&tok);
                    }
                    StrKind::MlBasic | StrKind::MlLiteral => {
                        self.class(if kind == StrKind::MlBasic { "str-ml-basic" } else { "str-ml-literal" });
                        self.noncanonical = true;
                        // bodies are verbatim in both texts (CRLF inside is kept)
                        if tok.contains("\r\n") {
                            self.class("crlf-in-ml-string");
                        }
                        if tok.contains("\\\n") || tok.contains("\\\r\n") || tok.contains("\\ ") || tok.contains("\\\t") {
                            self.class("line-continuation");
                        }
                        self.put(&tok);
                    }
                }
            }
            Node::Int(i) => {
                let (tok, c) = spell_int(*i, self.t);
                if tok != i.to_string() {
                    self.noncanonical = true;
                }
                self.class(match c {
                    "hex" => "int-hex",
                    "oct" => "int-oct",
                    "bin" => "int-bin",
                    _ => "int-dec",
                });
                if tok.contains('_') {
                    self.class("underscore");
                }
                self.put(&tok);
            }
            Node::Float(b) => {
                let (tok, c) = spell_float(f64::from_bits(*b), self.t);
                self.noncanonical = true;
                self.class(match c {
                    "nan" => "float-nan",
                    "inf" => "float-inf",
                    "zero" => "float-zero",
                    "sci" => "float-sci",
                    "plain" => "float-plain",
                    _ => "float-zero-int",
                });
                self.put(&tok);
            }
            Node::Bool(b) => {
                self.class("bool");
                self.put(if *b { "true" } else { "false" });
            }
            Node::Dt(d) => {
                let tok = spell_dt(d, self.t);
                self.class(match (d.date.is_some(), d.time.is_some(), d.offset.is_some()) {
                    (true, true, true) => "dt-offset",
                    (true, true, false) => "dt-local",
                    (true, false, _) => "date",
                    _ => "time",
                });
                if tok != d.canonical() {
                    self.noncanonical = true;
                }
                self.put(&tok);
            }
            _ => unreachable!(),
        }
    }

    /// ws / comments / newlines inside an array
    fn array_gap(&mut self) {
        if self.cfg.decor == 0 {
            return;
        }
        let w = self.ws();
        self.put(&w);
        if self.t.chance(1, 8) {
            if self.t.chance(1, 2) {
                let c = self.comment_text();
                self.put(&c);
                self.class("comment-in-array");
            }
            self.newline();
            self.class("multiline-array");
            self.noncanonical = true;
            let w = self.ws();
            self.put(&w);
        }
    }

    fn value(&mut self, n: &GNode, path: &Path) {
        let start = self.text.len();
        match n {
            GNode::Scalar(s) => self.scalar(s),
            GNode::Array(a) => {
                self.class("array");
                self.put("[");
                if a.is_empty() {
                    self.array_gap();
                    if self.text.len() > start + 1 {
                        self.class("decor-in-empty-array");
                    }
                }
                for (i, e) in a.iter().enumerate() {
                    if i == 0 {
                        self.array_gap();
                    } else if self.cfg.decor == 0 {
                        self.put(" ");
                    } else {
                        let w = self.ws1();
                        self.put(&w);
                        self.array_gap();
                    }
                    let mut p = path.clone();
                    p.push(Seg::Idx(i));
                    self.value(e, &p);
                    self.array_gap();
                    if i + 1 < a.len() {
                        self.put(",");
                    } else if self.cfg.decor > 0 && self.t.chance(1, 5) {
                        self.put(",");
                        self.class("trailing-comma");
                        self.noncanonical = true;
                        self.array_gap();
                    }
                }
                self.put("]");
            }
            GNode::Table(t) => {
                self.class("inline-table");
                self.noncanonical = true;
                self.put("{");
                let mut lines = vec![];
                let mut rel = vec![];
                collect_lines(t, path, &mut rel, &mut lines);
                if lines.is_empty() {
                    let w = self.ws();
                    if !w.is_empty() {
                        self.class("decor-in-empty-inline");
                    }
                    self.put(&w);
                }
                let n = lines.len();
                for (i, l) in lines.iter().enumerate() {
                    let w = if self.cfg.decor == 0 { " ".to_string() } else { self.ws1() };
                    self.put(&w);
                    let kv_start = self.text.len();
                    self.key_path(&l.rel, false);
                    let w = if self.cfg.decor == 0 { " ".to_string() } else { self.ws1() };
                    self.put(&w);
                    self.put("=");
                    let w = if self.cfg.decor == 0 { " ".to_string() } else { self.ws1() };
                    self.put(&w);
                    self.value(l.value, &l.leaf_path);
                    let kv_end = self.text.len();
                    self.map.entries.push(EntryFrag { path: l.leaf_path.clone(), kv: kv_start..kv_end, line: kv_start..kv_end, in_inline: true });
                    let w = if i + 1 == n { if self.cfg.decor == 0 { " ".to_string() } else { self.ws1() } } else { self.ws() };
                    self.put(&w);
                    if i + 1 < n {
                        self.put(",");
                    }
                }
                self.put("}");
            }
            GNode::Aot(_) => unreachable!("aot in value context"),
        }
        self.map.values.push((path.clone(), start..self.text.len()));
    }
}

fn shuffle<T>(v: &mut Vec<T>, t: &mut Tape) {
    for i in (1..v.len()).rev() {
        let j = t.below(i + 1);
        v.swap(i, j);
    }
}

fn sem_val(n: &GNode, lines_of_inline: &dyn Fn(&GTable) -> Vec<(Vec<String>, SemVal)>) -> SemVal {
    match n {
        GNode::Scalar(s) => SemVal::Scalar(s.clone()),
        GNode::Array(a) => SemVal::Array(a.iter().map(|e| sem_val(e, lines_of_inline)).collect()),
        GNode::Table(t) => SemVal::Inline(lines_of_inline(t)),
        GNode::Aot(_) => unreachable!(),
    }
}

/// inline-table pairs in generation order (used for the statement list; the emitter may shuffle
/// inline entries in interleaved mode, in which case order inside is compared as emitted — we
/// therefore derive the pairs from the emitted order instead, see `Rendered::statements`)
fn inline_pairs(t: &GTable) -> Vec<(Vec<String>, SemVal)> {
    let mut lines = vec![];
    let mut rel = vec![];
    collect_lines(t, &vec![], &mut rel, &mut lines);
    lines
        .iter()
        .map(|l| (l.rel.iter().map(|(n, _)| n.clone()).collect(), sem_val(l.value, &inline_pairs)))
        .collect()
}

fn count_in_value(n: &GNode, path: &Path, multi: &mut std::collections::HashMap<KeyId, usize>) {
    match n {
        GNode::Array(a) => {
            for (i, e) in a.iter().enumerate() {
                let mut p = path.clone();
                p.push(Seg::Idx(i));
                count_in_value(e, &p, multi);
            }
        }
        GNode::Table(t) => {
            let mut lines = vec![];
            collect_lines(t, path, &mut vec![], &mut lines);
            for l in &lines {
                for (_, id) in &l.rel[..l.rel.len() - 1] {
                    *multi.entry(id.clone()).or_insert(0) += 1;
                }
                count_in_value(l.value, &l.leaf_path, multi);
            }
        }
        _ => {}
    }
}

fn count_multi(plan_root: &[Line], secs: &[(Sec, Vec<Line>)], multi: &mut std::collections::HashMap<KeyId, usize>) {
    for l in plan_root {
        for (_, id) in &l.rel[..l.rel.len() - 1] {
            *multi.entry(id.clone()).or_insert(0) += 1;
        }
        count_in_value(l.value, &l.leaf_path, multi);
    }
    for (s, lines) in secs {
        for (_, id) in &s.header {
            *multi.entry(id.clone()).or_insert(0) += 1;
        }
        for l in lines {
            for (_, id) in &l.rel[..l.rel.len() - 1] {
                *multi.entry(id.clone()).or_insert(0) += 1;
            }
            count_in_value(l.value, &l.leaf_path, multi);
        }
    }
}

/// Render a generated tree.
pub fn render(tree: &GTable, t: &mut Tape, cfg: &GenCfg) -> Rendered {
    // ---- plan
    let root_path: Path = vec![];
    let mut root_lines = vec![];
    collect_lines(tree, &root_path, &mut vec![], &mut root_lines);
    let sec_list = {
        let mut pl = Planner { t, reorder: cfg.reorder, sub_before_super: cfg.sub_before_super };
        let mut free = vec![];
        let mut bound = vec![];
        pl.child_lists(tree, &root_path, &vec![], false, &mut free, &mut bound);
        free.extend(bound);
        pl.merge(free)
    };
    let mut secs: Vec<(Sec, Vec<Line>)> = vec![];
    for s in sec_list {
        let mut lines = vec![];
        collect_lines(s.table, &s.table_path, &mut vec![], &mut lines);
        secs.push((s, lines));
    }
    if !cfg.adjacent {
        if t.chance(1, 2) {
            shuffle(&mut root_lines, t);
        }
        for (_, l) in secs.iter_mut() {
            if l.len() > 1 && t.chance(1, 2) {
                shuffle(l, t);
            }
        }
    }
    let mut multi = std::collections::HashMap::new();
    count_multi(&root_lines, &secs, &mut multi);

    // ---- emit
    let crlf_doc = if cfg.allow_crlf { t.weighted(&[6, 2, 1]) as u8 } else { 0 };
    let mut em = Em {
        t,
        cfg,
        text: String::new(),
        norm: String::new(),
        map: SourceMap::default(),
        marker: 0,
        classes: vec![],
        noncanonical: false,
        multi,
        spelled: Default::default(),
        f11_excluded: 0,
        crlf_doc,
    };
    if cfg.allow_bom && em.t.chance(1, 12) {
        em.text.push('\u{feff}');
        em.class("bom");
    }
    let mut statements: Vec<SemStmt> = vec![];
    let mut last_stmt_end_has_newline = true;
    let total_stmts = root_lines.len() + secs.iter().map(|(_, l)| 1 + l.len()).sum::<usize>();
    let mut stmt_no = 0usize;
    // whether the final statement line gets a newline
    let final_newline = !(cfg.decor > 0 && em.t.chance(1, 6));

    let emit_line = |em: &mut Em, l: &Line, is_last: bool, statements: &mut Vec<SemStmt>| -> bool {
        let line_start = em.text.len();
        em.leading_lines();
        let ind = em.ws();
        if !ind.is_empty() {
            em.class("indent");
            em.noncanonical = true;
        }
        em.put(&ind);
        let kv_start = em.text.len();
        em.key_path(&l.rel, false);
        let w = if em.cfg.decor == 0 { " ".to_string() } else { em.ws1() };
        if w != " " {
            em.noncanonical = true;
        }
        em.put(&w);
        em.put("=");
        let w = if em.cfg.decor == 0 { " ".to_string() } else { em.ws1() };
        if w != " " {
            em.noncanonical = true;
        }
        em.put(&w);
        em.value(l.value, &l.leaf_path);
        let kv_end = em.text.len();
        em.eol_decor(em.cfg.mark_every_line);
        let line_end = em.text.len();
        em.map.entries.push(EntryFrag { path: l.leaf_path.clone(), kv: kv_start..kv_end, line: line_start..line_end, in_inline: false });
        statements.push(SemStmt::KeyVal {
            path: l.rel.iter().map(|(n, _)| n.clone()).collect(),
            val: sem_val(l.value, &inline_pairs),
        });
        if is_last && !final_newline {
            em.norm.push('\n');
            em.class("no-final-newline");
            false
        } else {
            em.newline();
            true
        }
    };

    for l in &root_lines {
        stmt_no += 1;
        last_stmt_end_has_newline = emit_line(&mut em, l, stmt_no == total_stmts, &mut statements);
        // root span end = end of last root value
        em.map.root_end = em.map.entries.last().map(|e| e.kv.end).unwrap_or(0);
    }
    let mut seen_headers: Vec<Vec<String>> = vec![];
    for (s, lines) in &secs {
        stmt_no += 1;
        em.leading_lines();
        let ind = em.ws();
        if !ind.is_empty() {
            em.noncanonical = true;
        }
        em.put(&ind);
        let h_start = em.text.len();
        em.put(if s.aot { "[[" } else { "[" });
        // whitespace inside the brackets = leaf decor of the last key; for an array of tables with
        // several elements it is shared by all headers (stored once) -> fixed
        let last_id = &s.header.last().unwrap().1;
        let aot_multi = s.aot && em.cfg.f11_safe && em.multi.get(last_id).copied().unwrap_or(0) > 1;
        if !aot_multi {
            let w = em.ws();
            if !w.is_empty() {
                em.class("ws-in-header");
                em.noncanonical = true;
            }
            em.put(&w);
        } else {
            em.f11_excluded += 1;
        }
        em.key_path(&s.header, true);
        if !aot_multi {
            let w = em.ws();
            em.put(&w);
        }
        em.put(if s.aot { "]]" } else { "]" });
        let h_end = em.text.len();
        em.eol_decor(false);
        em.class(if s.aot { "aot-header" } else { "std-header" });
        let names: Vec<String> = s.header.iter().map(|(n, _)| n.clone()).collect();
        // sub-table before super-table?
        if !s.aot && seen_headers.iter().any(|h| h.len() > names.len() && h[..names.len()] == names[..]) {
            em.class("sub-before-super");
        }
        if s.aot && seen_headers.last().map(|h| *h != names && !h.starts_with(&names)).unwrap_or(false)
            && seen_headers.iter().any(|h| *h == names)
        {
            em.class("interleaved-aot");
        }
        seen_headers.push(names.clone());
        statements.push(SemStmt::Header { path: names, aot: s.aot });
        let is_last = stmt_no == total_stmts;
        if is_last && !final_newline {
            em.norm.push('\n');
            em.class("no-final-newline");
            last_stmt_end_has_newline = false;
        } else {
            em.newline();
            last_stmt_end_has_newline = true;
        }
        let sec_idx = em.map.sections.len();
        em.map.sections.push((s.table_path.clone(), h_start..h_end, h_start..h_end));
        for l in lines {
            stmt_no += 1;
            last_stmt_end_has_newline = emit_line(&mut em, l, stmt_no == total_stmts, &mut statements);
            let end = em.map.entries.last().unwrap().kv.end;
            em.map.sections[sec_idx].2 = h_start..end;
        }
    }
    // trailing decor (only if the last statement line was terminated)
    if last_stmt_end_has_newline && cfg.decor > 0 {
        let n = em.t.small(2);
        for i in 0..n {
            let w = em.ws();
            em.put(&w);
            if em.t.chance(1, 2) {
                let c = em.comment_text();
                em.put(&c);
                em.class("trailing-comment");
            }
            if i + 1 < n || em.t.chance(2, 3) {
                em.newline();
            }
        }
    }

    // ---- expected tree from the statement sequence (order of first appearance); content must
    // equal the generated tree (self-check of the harness)
    let expected = match tomlref::apply_statements(&statements) {
        Ok(t) => t,
        Err(tomlref::SemErr::Invalid(e)) => panic!("HARNESS: generated statements invalid: {e}\n{}", em.text),
        Err(tomlref::SemErr::U1(c)) => panic!("HARNESS: generated statements in class {c}\n{}", em.text),
    };
    let gen_model = tree_model(tree);
    if let Err(e) = crate::model::diff_tbl(&expected, &gen_model, crate::model::Cmp::UNORDERED) {
        panic!("HARNESS: statement semantics differ from generated tree: {e}\n{}", em.text);
    }
    if secs.len() > 20 {
        em.classes.push("sections>20");
    }
    Rendered {
        text: em.text,
        normalised: em.norm,
        expected,
        statements,
        map: em.map,
        classes: em.classes,
        noncanonical: em.noncanonical,
        f11_excluded: em.f11_excluded,
        n_sections: secs.len(),
    }
}

pub fn gen_doc(t: &mut Tape, cfg: &GenCfg) -> Rendered {
    let tree = gen_tree(t, cfg);
    render(&tree, t, cfg)
}


// ------------------------------------------------------------------------------------------------
// re-spelling: give an existing plain tree a random legal layout
// ------------------------------------------------------------------------------------------------

fn relayout_value(n: &Node, t: &mut Tape) -> GNode {
    match n {
        Node::Array(a) => GNode::Array(a.iter().map(|e| relayout_value(e, t)).collect()),
        Node::Aot(a) => GNode::Array(a.iter().map(|e| GNode::Table(relayout_inline(e, t))).collect()),
        Node::Table(tb) => GNode::Table(relayout_inline(tb, t)),
        s => GNode::Scalar(s.clone()),
    }
}

fn relayout_inline(tb: &Tbl, t: &mut Tape) -> GTable {
    let mut entries = vec![];
    for (k, n) in &tb.entries {
        let g = match n {
            Node::Table(x) if !x.entries.is_empty() && t.chance(1, 4) => GNode::Table(relayout_dotted(x, t, false)),
            other => relayout_value(other, t),
        };
        entries.push((k.clone(), g));
    }
    GTable { layout: Layout::Inline, entries }
}

/// dotted layout: needs at least one entry; children are values or dotted tables (plus, in a body,
/// header children)
fn relayout_dotted(tb: &Tbl, t: &mut Tape, body: bool) -> GTable {
    let mut entries = vec![];
    for (i, (k, n)) in tb.entries.iter().enumerate() {
        let g = match n {
            Node::Table(x) if !x.entries.is_empty() && t.chance(1, 3) => GNode::Table(relayout_dotted(x, t, body)),
            Node::Table(x) if body && i > 0 && t.chance(1, 4) => GNode::Table(relayout_body(x, t, Layout::Header)),
            other => relayout_value(other, t),
        };
        entries.push((k.clone(), g));
    }
    // the first entry must give the table a body line
    if let Some((_, GNode::Table(first))) = entries.first() {
        if first.layout == Layout::Header {
            unreachable!()
        }
    }
    GTable { layout: Layout::Dotted, entries }
}

fn all_tables(a: &[Node]) -> bool {
    !a.is_empty() && a.iter().all(|e| matches!(e, Node::Table(_)))
}

fn relayout_body(tb: &Tbl, t: &mut Tape, layout: Layout) -> GTable {
    let mut entries = vec![];
    for (k, n) in &tb.entries {
        let g = match n {
            Node::Table(x) => match t.weighted(&[4, 3, if x.entries.is_empty() { 0 } else { 3 }, if !x.entries.is_empty() && x.entries.iter().all(|(_, c)| matches!(c, Node::Table(_))) { 2 } else { 0 }]) {
                0 => GNode::Table(relayout_body(x, t, Layout::Header)),
                1 => GNode::Table(relayout_inline(x, t)),
                2 => GNode::Table(relayout_dotted(x, t, true)),
                _ => {
                    // implicit: only header-table children
                    let entries = x.entries.iter().map(|(kk, c)| match c {
                        Node::Table(y) => (kk.clone(), GNode::Table(relayout_body(y, t, Layout::Header))),
                        _ => unreachable!(),
                    }).collect();
                    GNode::Table(GTable { layout: Layout::Implicit, entries })
                }
            },
            Node::Aot(a) if !a.is_empty() => GNode::Aot(a.iter().map(|e| relayout_body(e, t, Layout::AotElem)).collect()),
            Node::Array(a) if all_tables(a) && t.chance(1, 2) => GNode::Aot(
                a.iter()
                    .map(|e| match e {
                        Node::Table(x) => relayout_body(x, t, Layout::AotElem),
                        _ => unreachable!(),
                    })
                    .collect(),
            ),
            other => relayout_value(other, t),
        };
        entries.push((k.clone(), g));
    }
    GTable { layout, entries }
}

/// A random legal layout for a plain tree (same data, different document shape).
pub fn relayout(root: &Tbl, t: &mut Tape) -> GTable {
    relayout_body(root, t, Layout::Root)
}
