//! Mutators (byte level and token-ish level) and labelled faults.

use crate::tape::Tape;

pub const INTERESTING: [&[u8]; 64] = [
    b"\x00", b"\x01", b"\x08", b"\x0b", b"\x0c", b"\x1f", b"\x7f", b"\r", b"\n", b"\r\n", b"\"", b"'", b"\"\"\"", b"'''",
    b"\\", b"#", b"[", b"]", b"[[", b"]]", b"{", b"}", b",", b".", b"=", b" ", b"\t", b"_", b"+", b"-", b"0", b"9", b"e",
    b"E", b"x", b"o", b"b", b":", b"T", b"Z", b"inf", b"nan", b"true", b"false", b"\xc3\xa9", b"\xef\xbb\xbf", b"\\u", b"\\U",
    b"\x80", b"\xc3", b"\xff", b"\xed\xa0\x80", b"\\\n", b"\\ ", b"0x", b"1", b"a", b"\"\"", b"''", b"__", b"..", b"-0", b"+0", b"1979-05-27",
];

fn char_start(b: &[u8], mut i: usize) -> usize {
    while i > 0 && i < b.len() && (b[i] & 0xC0) == 0x80 {
        i -= 1;
    }
    i
}

/// apply 1..=3 random mutations; the result may be invalid UTF-8
pub fn mutate(text: &[u8], other: &[u8], t: &mut Tape) -> (Vec<u8>, Vec<&'static str>) {
    let mut b = text.to_vec();
    let mut kinds = vec![];
    let n = 1 + t.weighted(&[6, 3, 1]);
    for _ in 0..n {
        let len = b.len();
        let pos = if len == 0 { 0 } else { char_start(&b, t.below(len + 1)) };
        match t.weighted(&[6, 5, 4, 2, 2, 2, 2, 3, 2]) {
            0 => {
                // insert an interesting token
                let tok = *t.pick(&INTERESTING);
                b.splice(pos..pos, tok.iter().copied());
                kinds.push("insert");
            }
            1 => {
                // replace one character by an interesting token
                if pos < len {
                    let mut end = pos + 1;
                    while end < len && (b[end] & 0xC0) == 0x80 {
                        end += 1;
                    }
                    let tok = *t.pick(&INTERESTING);
                    b.splice(pos..end, tok.iter().copied());
                }
                kinds.push("replace");
            }
            2 => {
                // delete a short range
                if pos < len {
                    let end = char_start(&b, (pos + 1 + t.small(6)).min(len));
                    let end = end.max(pos + 1).min(len);
                    b.drain(pos..end);
                }
                kinds.push("delete");
            }
            3 => {
                b.truncate(pos);
                kinds.push("truncate");
            }
            4 => {
                // duplicate a line
                let ls = b[..pos].iter().rposition(|c| *c == b'\n').map(|i| i + 1).unwrap_or(0);
                let le = b[pos..].iter().position(|c| *c == b'\n').map(|i| pos + i + 1).unwrap_or(len);
                let line = b[ls..le].to_vec();
                let mut line2 = line.clone();
                if !line2.ends_with(b"\n") {
                    line2.insert(0, b'\n');
                }
                b.splice(le..le, line2);
                kinds.push("dup-line");
            }
            5 => {
                // move a line to the end
                let ls = b[..pos].iter().rposition(|c| *c == b'\n').map(|i| i + 1).unwrap_or(0);
                let le = b[pos..].iter().position(|c| *c == b'\n').map(|i| pos + i + 1).unwrap_or(len);
                let line: Vec<u8> = b.drain(ls..le).collect();
                if !b.is_empty() && !b.ends_with(b"\n") {
                    b.push(b'\n');
                }
                b.extend(line);
                kinds.push("move-line");
            }
            6 => {
                // splice a fragment of another document
                if !other.is_empty() {
                    let a = char_start(other, t.below(other.len()));
                    let e = char_start(other, (a + 1 + t.small(40)).min(other.len())).max(a);
                    b.splice(pos..pos, other[a..e].iter().copied());
                }
                kinds.push("splice");
            }
            7 => {
                // digit-aware edit near a digit
                if let Some(off) = b[pos.min(len)..].iter().position(|c| c.is_ascii_digit()) {
                    let p = pos + off;
                    match t.below(6) {
                        0 => b[p] = b'0' + t.below(10) as u8,
                        1 => {
                            b.insert(p, b'_');
                        }
                        2 => {
                            b.insert(p + 1, b'_');
                        }
                        3 => {
                            b.insert(p, b'0');
                        }
                        4 => {
                            b.remove(p);
                        }
                        _ => {
                            let c = *t.pick(&[b'.', b'e', b':', b'-', b'+', b'T', b' ', b'Z']);
                            b.insert(p + 1, c);
                        }
                    }
                }
                kinds.push("digit");
            }
            _ => {
                // swap two adjacent characters
                if pos + 1 < len && b[pos] < 0x80 && b[pos + 1] < 0x80 {
                    b.swap(pos, pos + 1);
                }
                kinds.push("swap");
            }
        }
    }
    (b, kinds)
}

/// Lines that make any document invalid when appended as a new last line (each uses a key that the
/// generators never produce, so the only reason for rejection is the labelled one).
pub const INVALID_LINES: [(&str, &str); 60] = [
    ("leading-zero", "zz9 = 01"),
    ("leading-zero-neg", "zz9 = -012"),
    ("double-underscore", "zz9 = 1__0"),
    ("trailing-underscore", "zz9 = 1_"),
    ("leading-underscore", "zz9 = _1"),
    ("underscore-after-prefix", "zz9 = 0x_1"),
    ("empty-hex", "zz9 = 0x"),
    ("signed-hex", "zz9 = +0x1"),
    ("neg-oct", "zz9 = -0o7"),
    ("upper-prefix", "zz9 = 0X1F"),
    ("upper-bin-prefix", "zz9 = 0B1"),
    ("bad-oct-digit", "zz9 = 0o8"),
    ("bad-bin-digit", "zz9 = 0b2"),
    ("float-no-frac", "zz9 = 1."),
    ("float-no-int", "zz9 = .5"),
    ("float-no-exp", "zz9 = 1e"),
    ("float-dot-e", "zz9 = 1.e5"),
    ("float-underscore-dot", "zz9 = 1_.5"),
    ("float-dot-underscore", "zz9 = 1._5"),
    ("float-leading-zero", "zz9 = 00.5"),
    ("float-exp-underscore", "zz9 = 1e_5"),
    ("inf-upper", "zz9 = Inf"),
    ("nan-upper", "zz9 = NaN"),
    ("bool-upper", "zz9 = True"),
    ("bool-partial", "zz9 = tru"),
    ("bad-escape", "zz9 = \"\\q\""),
    ("bad-escape-x", "zz9 = \"\\x41\""),
    ("short-u-escape", "zz9 = \"\\u12\""),
    ("surrogate-escape", "zz9 = \"\\ud800\""),
    ("beyond-unicode", "zz9 = \"\\U00110000\""),
    ("unterminated-basic", "zz9 = \"a"),
    ("unterminated-literal", "zz9 = 'a"),
    ("unterminated-ml", "zz9 = \"\"\"a\"\""),
    ("six-quotes-inside", "zz9 = \"\"\"a\"\"\"\"\"\""),
    ("three-apostrophes-inside", "zz9 = '''a''''''"),
    ("unterminated-array", "zz9 = [1, 2"),
    ("array-double-comma", "zz9 = [1,, 2]"),
    ("array-leading-comma", "zz9 = [, 1]"),
    ("inline-trailing-comma", "zz9 = {a = 1,}"),
    ("inline-dup-key", "zz9 = {a = 1, a = 2}"),
    ("inline-extend-value", "zz9 = {a = 1, a.b = 2}"),
    ("inline-newline", "zz9 = {a = 1\n}"),
    ("inline-unterminated", "zz9 = {a = 1"),
    ("feb-30", "zz9 = 2021-02-30"),
    ("feb-29-nonleap", "zz9 = 2100-02-29"),
    ("month-13", "zz9 = 2021-13-01"),
    ("day-00", "zz9 = 2021-01-00"),
    ("hour-24", "zz9 = 24:00:00"),
    ("minute-60", "zz9 = 12:60:00"),
    ("second-61", "zz9 = 12:00:61"),
    ("offset-hour-24", "zz9 = 2021-01-01T00:00:00+24:00"),
    ("offset-minute-60", "zz9 = 2021-01-01T00:00:00+00:60"),
    ("time-no-seconds", "zz9 = 12:00"),
    ("date-short-year", "zz9 = 987-07-05"),
    ("empty-fraction", "zz9 = 12:00:00."),
    ("missing-value", "zz9 ="),
    ("missing-eq", "zz9"),
    ("two-values", "zz9 = 1 2"),
    ("empty-key", " = 1"),
    ("dup-on-line", "zz9 = 1 zz8 = 2"),
];

pub const INVALID_HEADERS: [(&str, &str); 10] = [
    ("empty-header", "[]"),
    ("empty-aot-header", "[[]]"),
    ("header-trailing-dot", "[zz9.]"),
    ("header-leading-dot", "[.zz9]"),
    ("header-unclosed", "[zz9"),
    ("aot-unclosed", "[[zz9]"),
    ("aot-spaced", "[ [zz9] ]"),
    ("header-junk-after", "[zz9] x"),
    ("header-newline-inside", "[zz9\n]"),
    ("header-ml-key", "[\"\"\"zz9\"\"\"]"),
];
