pub mod c01;
pub mod c02;
pub mod c03;
pub mod c04;
pub mod c05;
pub mod c06;
pub mod c07;
pub mod c08;
pub mod c09;
pub mod c10;
pub mod c11;
pub mod c12;
pub mod c13;
pub mod c14;
pub mod c15;
pub mod c16;
pub mod c17;
pub mod c18;
pub mod c19;
pub mod c20;

use crate::engine::Tier;

pub struct Args {
    pub tier: Tier,
    pub seed: u64,
    pub replay: Option<String>,
}

pub fn dispatch(id: &str, args: Args) -> ! {
    match id {
        "C01" => c01::run(args),
        "C02" => c02::run(args),
        "C03" => c03::run(args),
        "C04" => c04::run(args),
        "C05" => c05::run(args),
        "C06" => c06::run(args),
        "C07" => c07::run(args),
        "C08" => c08::run(args),
        "C09" => c09::run(args),
        "C10" => c10::run(args),
        "C11" => c11::run(args),
        "C12" => c12::run(args),
        "C13" => c13::run(args),
        "C14" => c14::run(args),
        "C15" => c15::run(args),
        "C16" => c16::run(args),
        "C17" => c17::run(args),
        "C18" => c18::run(args),
        "C19" => c19::run(args),
        "C20" => c20::run(args),
        _ => crate::engine::fault(&format!("unknown property {id}")),
    }
}

/// read a replay file
pub fn load_replay(path: &str) -> serde_json::Value {
    let s = std::fs::read_to_string(path)
        .unwrap_or_else(|e| crate::engine::fault(&format!("replay file {path}: {e}")));
    serde_json::from_str(&s).unwrap_or_else(|e| crate::engine::fault(&format!("replay file {path}: {e}")))
}

/// a replay file is either one of our JSON files or a raw input saved by libFuzzer (crash-*)
pub fn load_replay_any(path: &str) -> serde_json::Value {
    let b = std::fs::read(path).unwrap_or_else(|e| crate::engine::fault(&format!("replay file {path}: {e}")));
    if let Ok(s) = std::str::from_utf8(&b) {
        if let Ok(j) = serde_json::from_str::<serde_json::Value>(s) {
            if j.get("case").is_some() || j.get("tape").is_some() {
                return j;
            }
        }
    }
    serde_json::json!({"raw": true, "case": {"bytes": b, "text": std::str::from_utf8(&b).ok(), "string": std::str::from_utf8(&b).ok()}})
}

pub fn case_bytes(j: &serde_json::Value) -> Option<Vec<u8>> {
    j["case"]["bytes"].as_array().map(|a| a.iter().map(|v| v.as_u64().unwrap_or(0) as u8).collect())
}

pub fn replay_tape(j: &serde_json::Value) -> Vec<u32> {
    j["tape"].as_array().map(|a| a.iter().map(|v| v.as_u64().unwrap_or(0) as u32).collect()).unwrap_or_default()
}

/// committed regression replays for a property: /verif/replay/<id>/*.json
pub fn regression_files(id: &str) -> Vec<String> {
    let dir = format!("{}/replay/{id}", crate::engine::VERIF_DIR);
    let mut v: Vec<String> = std::fs::read_dir(&dir)
        .map(|rd| {
            rd.filter_map(|e| e.ok())
                .map(|e| e.path().to_string_lossy().to_string())
                .filter(|p| p.ends_with(".json"))
                .collect()
        })
        .unwrap_or_default();
    v.sort();
    v
}
