//! C09 — no key or table definition is ever silently overwritten or merged.

use super::c02::finish_run;
use super::Args;
use crate::engine::*;
use crate::model::{self, Cmp, Node};
use crate::tape::{fnv64, Tape};
use crate::tomlref::{apply_statements, SemErr, SemStmt, SemVal};
use serde_json::json;

/// all key paths of length 1..=maxlen over the alphabet
fn paths(alpha: &[&str], maxlen: usize) -> Vec<Vec<String>> {
    let mut out: Vec<Vec<String>> = vec![];
    let mut cur: Vec<Vec<String>> = vec![vec![]];
    for _ in 0..maxlen {
        let mut next = vec![];
        for p in &cur {
            for a in alpha {
                let mut q = p.clone();
                q.push(a.to_string());
                next.push(q);
            }
        }
        out.extend(next.iter().cloned());
        cur = next;
    }
    out
}

#[derive(Clone, Debug)]
pub struct StmtT {
    pub sem: SemStmt,
    /// text with `{}` placeholders replaced per key by a spelling
    pub kind: u8,
    pub path: Vec<String>,
}

fn one() -> SemVal {
    SemVal::Scalar(Node::Int(1))
}

/// the 7 statement kinds over a path
fn stmts_for(path: &[String]) -> Vec<StmtT> {
    let p = path.to_vec();
    let mk = |kind: u8, sem: SemStmt| StmtT { sem, kind, path: p.clone() };
    vec![
        mk(0, SemStmt::Header { path: p.clone(), aot: false }),
        mk(1, SemStmt::Header { path: p.clone(), aot: true }),
        mk(2, SemStmt::KeyVal { path: p.clone(), val: one() }),
        mk(3, SemStmt::KeyVal { path: p.clone(), val: SemVal::Array(vec![one()]) }),
        mk(4, SemStmt::KeyVal { path: p.clone(), val: SemVal::Inline(vec![]) }),
        mk(5, SemStmt::KeyVal { path: p.clone(), val: SemVal::Inline(vec![(vec!["a".into()], one())]) }),
        mk(6, SemStmt::KeyVal { path: p.clone(), val: SemVal::Inline(vec![(vec!["a".into(), "b".into()], one())]) }),
    ]
}

fn spell(k: &str, style: u64) -> String {
    let bare = !k.is_empty() && k.chars().all(|c| c.is_ascii_alphanumeric() || c == '_' || c == '-');
    match if bare { style % 3 } else { 1 + style % 2 } {
        0 => k.to_string(),
        1 => format!("\"{k}\""),
        _ => format!("'{k}'"),
    }
}

fn render_path(p: &[String], style: &mut u64) -> String {
    let mut s = String::new();
    for (i, k) in p.iter().enumerate() {
        if i > 0 {
            s.push('.');
        }
        s.push_str(&spell(k, *style));
        *style /= 3;
    }
    s
}

fn render_val(v: &SemVal, style: &mut u64) -> String {
    match v {
        SemVal::Scalar(Node::Int(i)) => i.to_string(),
        SemVal::Scalar(_) => "0".into(),
        SemVal::Array(a) => format!("[{}]", a.iter().map(|e| render_val(e, style)).collect::<Vec<_>>().join(", ")),
        SemVal::Inline(p) => {
            if p.is_empty() {
                "{}".into()
            } else {
                format!(
                    "{{ {} }}",
                    p.iter().map(|(k, v)| format!("{} = {}", render_path(k, style), render_val(v, style))).collect::<Vec<_>>().join(", ")
                )
            }
        }
    }
}

pub fn render(seq: &[&SemStmt], mut style: u64) -> String {
    let mut s = String::new();
    for st in seq {
        match st {
            SemStmt::Header { path, aot } => {
                let p = render_path(path, &mut style);
                s.push_str(&if *aot { format!("[[{p}]]\n") } else { format!("[{p}]\n") });
            }
            SemStmt::KeyVal { path, val } => {
                let p = render_path(path, &mut style);
                let v = render_val(val, &mut style);
                s.push_str(&format!("{p} = {v}\n"));
            }
        }
    }
    s
}

fn stmt_paths(st: &SemStmt) -> &Vec<String> {
    match st {
        SemStmt::Header { path, .. } => path,
        SemStmt::KeyVal { path, .. } => path,
    }
}

/// some path prefix is mentioned at least twice — among the statements, or among the pairs of one
/// inline table at any depth
fn nontrivial(seq: &[&SemStmt]) -> bool {
    fn repeated<'a>(paths: impl Iterator<Item = &'a Vec<String>>) -> bool {
        let mut seen: std::collections::HashSet<&[String]> = Default::default();
        for p in paths {
            for n in 1..=p.len() {
                if seen.contains(&p[..n]) {
                    return true;
                }
            }
            for n in 1..=p.len() {
                seen.insert(&p[..n]);
            }
        }
        false
    }
    fn in_val(v: &SemVal) -> bool {
        match v {
            SemVal::Inline(ps) => repeated(ps.iter().map(|(p, _)| p)) || ps.iter().any(|(_, v)| in_val(v)),
            SemVal::Array(vs) => vs.iter().any(in_val),
            _ => false,
        }
    }
    repeated(seq.iter().map(|s| stmt_paths(s)))
        || seq.iter().any(|s| matches!(s, SemStmt::KeyVal { val, .. } if in_val(val)))
}

pub const F12_WHAT: &str = "a dotted key that passes through an array of tables and creates a new sub-table in its last element is accepted (`[[a.b]]` / `[a]` / `b.x.y = 1`)";

/// does the statement sequence contain F12's shape: a key/value statement whose dotted path passes
/// through an existing array of tables
fn f12_shape(seq: &[&SemStmt]) -> bool {
    // replay on the reference: find the statement at which it fails and look at the reason
    let owned: Vec<SemStmt> = seq.iter().map(|s| (*s).clone()).collect();
    matches!(apply_statements(&owned), Err(SemErr::Invalid(r)) if r.starts_with("dotted key through array of tables"))
}

/// key names that can only be written quoted (a blank, a dot, the empty name): the same statements
/// under a renaming of {a, b, c}; the definition rules see the renamed names too
const NAMESETS: [[&str; 3]; 4] = [["a", "b", "c"], ["a b", "", "a.b"], ["a", "b", "c"], ["a.b", "b c", ""]];

fn rename_path(p: &[String], ns: &[&str; 3]) -> Vec<String> {
    p.iter().map(|k| match k.as_str() { "a" => ns[0], "b" => ns[1], "c" => ns[2], o => o }.to_string()).collect()
}

fn rename_val(v: &SemVal, ns: &[&str; 3]) -> SemVal {
    match v {
        SemVal::Scalar(n) => SemVal::Scalar(n.clone()),
        SemVal::Array(a) => SemVal::Array(a.iter().map(|e| rename_val(e, ns)).collect()),
        SemVal::Inline(p) => SemVal::Inline(p.iter().map(|(k, v)| (rename_path(k, ns), rename_val(v, ns))).collect()),
    }
}

pub fn check_seq(seq: &[&SemStmt], style: u64, st: &mut Stats, known_f12: bool) -> Result<(), Failure> {
    st.eval();
    let ns = &NAMESETS[(style % 4) as usize];
    let owned: Vec<SemStmt> = seq
        .iter()
        .map(|s| match s {
            SemStmt::Header { path, aot } => SemStmt::Header { path: rename_path(path, ns), aot: *aot },
            SemStmt::KeyVal { path, val } => SemStmt::KeyVal { path: rename_path(path, ns), val: rename_val(val, ns) },
        })
        .collect();
    if ns[0] != "a" {
        st.class("names-need-quotes");
    }
    let text = render(&owned.iter().collect::<Vec<_>>(), style);
    let verdict = apply_statements(&owned);
    let nt = nontrivial(seq);
    if nt {
        st.nontrivial(fnv64(text.as_bytes()));
    }
    let lib = text.parse::<toml_edit::DocumentMut>();
    let case = || json!({"text": text});
    match verdict {
        Err(SemErr::U1(_)) => {
            st.class("skipped-U1.b");
            Ok(())
        }
        Err(SemErr::Invalid(reason)) => {
            st.class("invalid");
            if let Ok(d) = lib {
                if known_f12 && f12_shape(seq) {
                    st.known("F12", F12_WHAT);
                    return Ok(());
                }
                return Err(Failure::new(
                    "false-accept",
                    format!("forbidden definition accepted ({reason}); decoded as {}\n---\n{text}---", model::tbl_to_json(&model::from_doc(&d))),
                    case(),
                ));
            }
            Ok(())
        }
        Ok(tree) => {
            st.class("valid");
            if nt {
                st.class("valid-with-shared-prefix");
            }
            let d = lib.map_err(|e| Failure::new("false-reject", format!("permitted combination rejected: {e}\n---\n{text}---"), case()))?;
            model::diff_tbl(&model::from_doc(&d), &tree, Cmp::EXACT)
                .map_err(|e| Failure::new("merged-tree", format!("merged tree differs: {e}\n---\n{text}---"), case()))?;
            st.sample(|| json!({"text": text, "verdict": "valid"}));
            Ok(())
        }
    }
}

fn enumerate(rep: &mut Report, name: &str, stmts: &[StmtT], n: usize, known_f12: bool) {
    let k = stmts.len() as u64;
    for len in 1..=n {
        let total = k.pow(len as u32);
        let (st, fail) = par_enumerate(total, workers(), |i, st| {
            let mut idx = i;
            let mut seq: Vec<&SemStmt> = Vec::with_capacity(len);
            for _ in 0..len {
                seq.push(&stmts[(idx % k) as usize].sem);
                idx /= k;
            }
            st.class(&format!("{name}.len{len}"));
            // spelling chosen by a counter derived from the index
            check_seq(&seq, i.wrapping_mul(0x9E3779B97F4A7C15) >> 40, st, known_f12)
        });
        rep.stats.merge(st);
        if let Some((_, f)) = fail {
            rep.violation(name, None, &f);
            return;
        }
    }
}

fn inline_scope(rep: &mut Report, name: &str, maxlen: usize, wide: bool, maxpairs: usize) {
    let ps = paths(&["a", "b"], maxlen);
    let mut vals = vec![one(), SemVal::Inline(vec![(vec!["a".into()], one())])];
    if wide {
        vals.push(SemVal::Inline(vec![]));
        vals.push(SemVal::Inline(vec![(vec!["a".into(), "b".into()], one())]));
    }
    let mut pairs: Vec<(Vec<String>, SemVal)> = vec![];
    for p in &ps {
        for v in &vals {
            pairs.push((p.clone(), v.clone()));
        }
    }
    let k = pairs.len() as u64;
    for len in 0..=maxpairs {
        let total = k.pow(len as u32);
        let (st, fail) = par_enumerate(total, workers(), |i, st| {
            let mut idx = i;
            let mut inl = vec![];
            for _ in 0..len {
                inl.push(pairs[(idx % k) as usize].clone());
                idx /= k;
            }
            let stmt = SemStmt::KeyVal { path: vec!["t".into()], val: SemVal::Inline(inl) };
            st.class(&format!("{name}.pairs{len}"));
            check_seq(&[&stmt], i.wrapping_mul(0x9E3779B97F4A7C15) >> 40, st, false)
        });
        rep.stats.merge(st);
        if let Some((_, f)) = fail {
            rep.violation(name, None, &f);
            return;
        }
    }
}

static STMTS: std::sync::OnceLock<Vec<StmtT>> = std::sync::OnceLock::new();
static KNOWN_F12: std::sync::atomic::AtomicBool = std::sync::atomic::AtomicBool::new(false);

fn prop_random(t: &mut Tape, st: &mut Stats) -> Result<(), Failure> {
    let stmts = STMTS.get().unwrap();
    let n = 5 + t.below(8);
    // bias towards a few paths so that collisions are frequent
    let mut seq: Vec<&SemStmt> = vec![];
    for _ in 0..n {
        seq.push(&stmts[t.below(stmts.len())].sem);
    }
    st.class("random");
    check_seq(&seq, t.u64(), st, KNOWN_F12.load(std::sync::atomic::Ordering::Relaxed))
}

fn gen_path(t: &mut Tape, maxlen: usize) -> Vec<String> {
    let n = 1 + t.below(maxlen);
    (0..n).map(|_| ["a", "b", "c"][t.weighted(&[5, 4, 1])].to_string()).collect()
}

fn gen_val(t: &mut Tape, depth: usize) -> SemVal {
    match if depth == 0 { t.below(2) } else { t.weighted(&[3, 1, 6, 1]) } {
        0 => one(),
        1 => SemVal::Array(vec![one()]),
        2 => {
            let n = t.below(4);
            SemVal::Inline((0..n).map(|_| (gen_path(t, 4), gen_val(t, depth - 1))).collect())
        }
        _ => {
            let n = 1 + t.below(2);
            SemVal::Array((0..n).map(|_| gen_val(t, depth - 1)).collect())
        }
    }
}

/// few statements, long paths, recursively generated inline tables with dotted keys inside
fn prop_deep(t: &mut Tape, st: &mut Stats) -> Result<(), Failure> {
    let n = 1 + t.below(5);
    let mut owned: Vec<SemStmt> = vec![];
    for _ in 0..n {
        owned.push(match t.weighted(&[6, 2, 1]) {
            0 => SemStmt::KeyVal { path: gen_path(t, 5), val: gen_val(t, 3) },
            1 => SemStmt::Header { path: gen_path(t, 4), aot: false },
            _ => SemStmt::Header { path: gen_path(t, 4), aot: true },
        });
    }
    let seq: Vec<&SemStmt> = owned.iter().collect();
    st.class("deep");
    let maxp = owned.iter().map(|s| stmt_paths(s).len()).max().unwrap_or(0);
    if maxp >= 4 {
        st.class("deep.path>=4");
    }
    check_seq(&seq, t.u64(), st, KNOWN_F12.load(std::sync::atomic::Ordering::Relaxed))
}

pub fn run(args: Args) -> ! {
    let mut rep = Report::new("C09", args.tier, args.seed);
    let n = args.tier.pick(3usize, 4usize);
    rep.rule = format!("exhaustive: every sequence of <= {n} statements from {{[p], [[p]], p = 1, p = [1], p = {{}}, p = {{a = 1}}, p = {{a.b = 1}}}} over the 14 key paths of length <= 3 on {{a, b}} (98 statements), and over the 12 paths of length <= 2 on {{a, b, c}} (84 statements, <= 3); every inline table with <= {} pairs over 14 paths x 2 value kinds, and with <= 3 pairs over the 30 paths of length <= 4 x 4 value kinds (1, {{}}, {{a = 1}}, {{a.b = 1}}); plus proptest-driven random sequences of 5..12 statements, and of 1..5 statements with paths of length <= 5 on {{a, b, c}} and recursively generated inline tables / arrays (depth <= 3, dotted keys of length <= 4 inside); quoted/unquoted key spellings by counter. Oracle: the definition rules of DESIGN.md Appendix A (verdict and merged tree, order included). non-trivial = some path prefix is mentioned at least twice; distinct by text", args.tier.pick(3, 4));
    rep.assumptions = vec!["the transition table of DESIGN.md Appendix A (tomlref semantic layer), calibrated on the toml-test fixtures".into()];
    let known_f12 = rep.is_known("F12");
    KNOWN_F12.store(known_f12, std::sync::atomic::Ordering::Relaxed);
    let ps = paths(&["a", "b"], 3);
    let stmts: Vec<StmtT> = ps.iter().flat_map(|p| stmts_for(p)).collect();
    let _ = STMTS.set(stmts.clone());
    if let Some(p) = &args.replay {
        let j = super::load_replay(p);
        let text = j["case"]["text"].as_str().unwrap_or_else(|| fault("replay: no case.text"));
        // re-derive the statements with the reference's syntax layer
        let stx = crate::tomlref::parse_syntax(text).0.unwrap_or_else(|e| fault(&format!("replay text: {e}")));
        let sem = crate::tomlref::to_sem(&stx);
        let seq: Vec<&SemStmt> = sem.iter().collect();
        let mut st = Stats::new();
        if let Err(f) = guard(|| check_seq(&seq, 0, &mut st, known_f12)) {
            rep.violation("replay", None, &f);
        }
        rep.stats.merge(st);
        rep.stats.nontrivial.insert(1);
        rep.stats.nontrivial.insert(2);
        rep.finish();
    }
    for p in super::regression_files("C09") {
        let j = super::load_replay(&p);
        if let Some(text) = j["case"]["text"].as_str() {
            if let Ok(stx) = crate::tomlref::parse_syntax(text).0 {
                let sem = crate::tomlref::to_sem(&stx);
                let seq: Vec<&SemStmt> = sem.iter().collect();
                let mut st = Stats::new();
                if let Err(f) = guard(|| check_seq(&seq, 0, &mut st, known_f12)) {
                    rep.violation("regression", None, &f);
                }
                rep.stats.merge(st);
            }
        }
    }
    enumerate(&mut rep, "ab3", &stmts, n, known_f12);
    if rep.violations.is_empty() {
        let ps2 = paths(&["a", "b", "c"], 2);
        let stmts2: Vec<StmtT> = ps2.iter().flat_map(|p| stmts_for(p)).collect();
        enumerate(&mut rep, "abc2", &stmts2, 3, known_f12);
    }
    if rep.violations.is_empty() {
        inline_scope(&mut rep, "inline", 3, false, args.tier.pick(3, 4));
    }
    if rep.violations.is_empty() {
        if std::env::var("C09_SKIP4").is_err() { inline_scope(&mut rep, "inline4", 4, true, 3); }
    }
    rep.exhaustive = Some(true);
    rep.extra.insert("exhaustive_scope".into(), json!(format!("all sequences of <= {n} of 98 statements ({{a,b}}, paths <= 3), all sequences of <= 3 of 84 statements ({{a,b,c}}, paths <= 2), all inline tables in the stated scope; random sequences are sampled")));
    if rep.violations.is_empty() {
        let run = run_tape("C09.random", &prop_random, 64, args.tier.pick(1_500_000, 10_000_000), args.seed, workers());
        finish_run(&mut rep, "random", run);
    }
    if rep.violations.is_empty() {
        let run = run_tape("C09.deep", &prop_deep, 96, args.tier.pick(1_000_000, 8_000_000), args.seed, workers());
        finish_run(&mut rep, "deep", run);
    }
    for c in ["valid", "invalid", "skipped-U1.b", "valid-with-shared-prefix"] {
        rep.require_class(c);
    }
    rep.finish()
}
