//! C15 — every rejection is a well-formed, correctly located error.

use super::c02::{finish_run, harness_fault};
use super::Args;
use crate::engine::*;
use crate::gen::{gen_doc, path_str, GenCfg, Path, Seg};
use crate::model::{Node, Tbl, TblKind};
use crate::mutate::{mutate, INVALID_LINES};
use crate::tape::{fnv64, Tape};
use serde::de::{self, DeserializeSeed, Deserializer, IgnoredAny, MapAccess, SeqAccess, Visitor};
use serde_json::json;
use std::ops::Range;

/// Independent computation of the rendered position: line = 1 + LFs before the position; column =
/// 1 + characters between the line start and the position; at end of input one past the end of
/// the last line (a final LF counts as part of that line).
pub fn expected_pos(text: &str, p: usize) -> (usize, usize) {
    if text.is_empty() {
        return (1, 1 + p);
    }
    let len = text.len();
    if p >= len {
        // the last line is the one containing the last byte
        let ls = text.as_bytes()[..len - 1].iter().rposition(|b| *b == b'\n').map(|i| i + 1).unwrap_or(0);
        let line = 1 + text.as_bytes()[..ls].iter().filter(|b| **b == b'\n').count();
        let col = 1 + text[ls..].chars().count() + (p - len);
        (line, col)
    } else {
        let ls = text.as_bytes()[..p].iter().rposition(|b| *b == b'\n').map(|i| i + 1).unwrap_or(0);
        let line = 1 + text.as_bytes()[..ls].iter().filter(|b| **b == b'\n').count();
        let col = 1 + text[ls..p].chars().count();
        (line, col)
    }
}

pub const F3_WHAT: &str = "error column counted in bytes instead of characters when the error position is at a multi-byte character (or at end of input after one) preceded by multi-byte characters on the same line";

/// F3's signature: the reported column equals the byte-based column and the position is at (or,
/// at end of input, right after) a multi-byte character
fn f3_signature(text: &str, p: usize, got_line: usize, got_col: usize) -> bool {
    let (el, _) = expected_pos(text, p);
    if got_line != el || text.is_empty() {
        return false;
    }
    let len = text.len();
    let q = p.min(len - 1);
    let ls = text.as_bytes()[..q].iter().rposition(|b| *b == b'\n').map(|i| i + 1).unwrap_or(0);
    let byte_col = 1 + (q - ls) + (p - q);
    let at_multibyte = if p < len { text[p..].chars().next().map(|c| c.len_utf8() > 1).unwrap_or(false) } else { text.chars().last().map(|c| c.len_utf8() > 1).unwrap_or(false) };
    got_col == byte_col && at_multibyte
}

static KNOWN_F3: std::sync::atomic::AtomicBool = std::sync::atomic::AtomicBool::new(false);
static KNOWN_F14: std::sync::atomic::AtomicBool = std::sync::atomic::AtomicBool::new(false);
pub const F14_WHAT: &str = "empty error message for a carriage return that is not followed by a line feed, at line level or between array elements (pinned by the repository's own tests: testsuite/parse.rs stray_cr, invalid/control/bare-cr.stderr)";

pub struct ErrView {
    pub message: String,
    pub span: Option<Range<usize>>,
    pub rendered: String,
    pub debug: String,
}

/// all the well-formedness oracles on one rejected text
pub fn check_error(text: &str, e: &ErrView, who: &str, st: &mut Stats) -> Result<(), Failure> {
    let case = || json!({"text": text, "rendered": e.rendered, "span": e.span.as_ref().map(|s| [s.start, s.end])});
    // the property quantifies over rejected *documents*; the single-value and key parsers are held to
    // everything else (span, position, rendering) but a leftover-input error of theirs carries no text
    let document_parser = !matches!(who, "Value::from_str" | "Key::from_str" | "Key::parse");
    if e.message.trim().is_empty() && !document_parser {
        st.class("value-or-key-error.empty-message");
    } else if e.message.trim().is_empty() {
        // known finding F14: a line-level carriage return that is not followed by a line feed
        // (outside strings), reported either at the CR or right after it
        let f14 = e
            .span
            .as_ref()
            .map(|s| {
                let st = s.start.min(text.len());
                let at = text[st..].starts_with('\r') && !text[st..].starts_with("\r\n");
                let after = text[..st].ends_with('\r');
                at || after
            })
            .unwrap_or(false);
        if f14 && KNOWN_F14.load(std::sync::atomic::Ordering::Relaxed) {
            st.known("F14", F14_WHAT);
        } else {
            return Err(Failure::new("message", format!("{who}: empty error message for {text:?}"), case()));
        }
    }
    if e.rendered.is_empty() || e.debug.is_empty() {
        return Err(Failure::new("message", format!("{who}: empty rendering for {text:?}"), case()));
    }
    let Some(span) = &e.span else {
        return Err(Failure::new("span", format!("{who}: parse error without a span for {text:?}"), case()));
    };
    if !(span.start <= span.end && span.end <= text.len()) {
        return Err(Failure::new("span", format!("{who}: span {span:?} outside the document (len {}) for {text:?}", text.len()), case()));
    }
    if !text.is_char_boundary(span.start) || !text.is_char_boundary(span.end) {
        return Err(Failure::new("span", format!("{who}: span {span:?} not on character boundaries for {text:?}"), case()));
    }
    let (l, c) = expected_pos(text, span.start);
    let header = format!("TOML parse error at line {l}, column {c}");
    let first = e.rendered.lines().next().unwrap_or("");
    if first != header {
        // parse the reported numbers
        let nums: Vec<usize> = first.split(|ch: char| !ch.is_ascii_digit()).filter(|s| !s.is_empty()).filter_map(|s| s.parse().ok()).collect();
        if nums.len() == 2 && KNOWN_F3.load(std::sync::atomic::Ordering::Relaxed) && f3_signature(text, span.start, nums[0], nums[1]) {
            st.known("F3", F3_WHAT);
        } else {
            return Err(Failure::new(
                "position",
                format!("{who}: rendered {first:?}, but span.start={} is line {l}, column {c} (characters)\n---\n{text}\n---", span.start),
                case(),
            ));
        }
    }
    // echoed source line
    let line_text = text.split('\n').nth(l - 1).unwrap_or("");
    let echoed = e.rendered.lines().nth(2).unwrap_or("");
    let want = format!("{l} | {line_text}");
    // `lines()` strips a trailing CR; compare modulo that
    if echoed.trim_end_matches('\r') != want.trim_end_matches('\r') {
        return Err(Failure::new("echo", format!("{who}: echoed line {echoed:?}, expected {want:?}\n---\n{text}\n---"), case()));
    }
    if !e.message.is_empty() && !e.rendered.contains(e.message.as_str()) {
        return Err(Failure::new("message", format!("{who}: rendered error does not contain its message"), case()));
    }
    Ok(())
}

pub fn views(text: &str) -> Vec<(&'static str, ErrView)> {
    let mut out = vec![];
    if let Err(e) = text.parse::<toml_edit::DocumentMut>() {
        out.push(("DocumentMut", ErrView { message: e.message().to_string(), span: e.span(), rendered: e.to_string(), debug: format!("{e:?}") }));
    }
    if let Err(e) = toml_edit::ImDocument::parse(text) {
        out.push(("ImDocument", ErrView { message: e.message().to_string(), span: e.span(), rendered: e.to_string(), debug: format!("{e:?}") }));
    }
    if let Err(e) = toml::from_str::<toml::Table>(text) {
        out.push(("toml::from_str", ErrView { message: e.message().to_string(), span: e.span(), rendered: e.to_string(), debug: format!("{e:?}") }));
    }
    if let Err(e) = toml_edit::de::from_str::<toml::Value>(text) {
        out.push(("toml_edit::de::from_str", ErrView { message: e.message().to_string(), span: e.span(), rendered: e.to_string(), debug: format!("{e:?}") }));
    }
    out
}

/// the single-value and key parsers report errors through the same type
pub fn value_views(text: &str) -> Vec<(&'static str, ErrView)> {
    let mut out = vec![];
    if let Err(e) = text.parse::<toml_edit::Value>() {
        out.push(("Value::from_str", ErrView { message: e.message().to_string(), span: e.span(), rendered: e.to_string(), debug: format!("{e:?}") }));
    }
    if let Err(e) = text.parse::<toml_edit::Key>() {
        out.push(("Key::from_str", ErrView { message: e.message().to_string(), span: e.span(), rendered: e.to_string(), debug: format!("{e:?}") }));
    }
    if let Err(e) = toml_edit::Key::parse(text) {
        out.push(("Key::parse", ErrView { message: e.message().to_string(), span: e.span(), rendered: e.to_string(), debug: format!("{e:?}") }));
    }
    out
}

fn nontrivial(text: &str, p: usize) -> bool {
    if p == 0 {
        return false;
    }
    if p >= text.len() {
        return true;
    }
    let ls = text.as_bytes()[..p].iter().rposition(|b| *b == b'\n').map(|i| i + 1).unwrap_or(0);
    text[ls..p].chars().any(|c| c.len_utf8() > 1)
}

pub fn check_text(text: &str, st: &mut Stats) -> Result<bool, Failure> {
    let vs = views(text);
    if vs.is_empty() {
        return Ok(false);
    }
    st.eval();
    if let Some(sp) = &vs[0].1.span {
        if nontrivial(text, sp.start) {
            st.nontrivial(fnv64(text.as_bytes()));
        }
        if sp.start >= text.len() {
            st.class(if text.ends_with('\n') { "eof-with-newline" } else { "eof-without-newline" });
        } else if text[sp.start..].chars().next().map(|c| c.len_utf8() > 1).unwrap_or(false) {
            st.class("at-multibyte");
        }
    }
    for (who, v) in &vs {
        check_error(text, v, who, st)?;
    }
    Ok(true)
}

/// a text as a single value / key (errors of Value::from_str, Key::from_str, Key::parse)
pub fn check_value_text(text: &str, st: &mut Stats) -> Result<(), Failure> {
    for (who, v) in &value_views(text) {
        st.eval();
        st.class("value-or-key-error");
        check_error(text, v, who, st)?;
    }
    Ok(())
}

/// for the fuzz target: known findings listed in known_findings.json are tolerated (loaded once)
pub fn check_text_tolerant(text: &str, st: &mut Stats) -> Result<bool, Failure> {
    static INIT: std::sync::Once = std::sync::Once::new();
    INIT.call_once(|| {
        let f = crate::engine::load_findings();
        KNOWN_F3.store(crate::engine::is_known(&f, "C15", "F3"), std::sync::atomic::Ordering::Relaxed);
        KNOWN_F14.store(crate::engine::is_known(&f, "C15", "F14"), std::sync::atomic::Ordering::Relaxed);
    });
    check_text(text, st)
}

fn multibyte_cfg(t: &mut Tape) -> GenCfg {
    let mut cfg = GenCfg::default();
    cfg.f11_safe = false;
    cfg.decor = t.weighted(&[2, 5, 3]) as u8;
    cfg.budget = 4 + t.below(20);
    cfg.allow_bom = t.chance(1, 4);
    cfg
}

static CORPUS: std::sync::OnceLock<Vec<Vec<u8>>> = std::sync::OnceLock::new();

fn prop_invalid(t: &mut Tape, st: &mut Stats) -> Result<(), Failure> {
    let cfg = multibyte_cfg(t);
    let r = gen_doc(t, &cfg);
    let mut text = r.text.clone();
    let kind = t.weighted(&[4, 3, 3, 2, 1]);
    match kind {
        4 => {
            // refused for nesting beyond the limit (arrays, inline tables, dotted keys, header
            // paths and their combinations), after the generated document
            if !text.is_empty() && !text.ends_with('\n') {
                text.push('\n');
            }
            let mut sp = super::c05::gen_spec(t);
            sp.header = sp.header.min(150);
            sp.key = sp.key.min(150);
            sp.levels.truncate(200);
            text.push_str(&sp.text().replace("k.", "zz9.").replacen("k =", "zz9 =", 1));
            st.class("over-limit-nesting");
        }
        0 => {
            // labelled fault, optionally with multi-byte characters before it on the same line
            if !text.is_empty() && !text.ends_with('\n') {
                text.push('\n');
            }
            let (_, line) = *t.pick(&INVALID_LINES);
            let line = if t.chance(1, 2) { line.replacen("zz9", "\"é😀zz9\"", 1) } else { line.to_string() };
            text.push_str(&line);
            if t.chance(1, 2) {
                text.push('\n');
            }
            st.class("fault-line");
        }
        1 => {
            // a stray multi-byte character somewhere (error AT a multi-byte character)
            let pos = {
                let mut p = t.below(text.len() + 1);
                while !text.is_char_boundary(p) {
                    p -= 1;
                }
                p
            };
            text.insert_str(pos, *t.pick(&["é", "😀", "é é", "\u{feff}", "ü=", "=é"]));
            st.class("stray-multibyte");
        }
        2 => {
            // truncation
            let mut p = t.below(text.len() + 1);
            while !text.is_char_boundary(p) {
                p -= 1;
            }
            text.truncate(p);
            st.class("truncation");
        }
        _ => {
            let other = t.pick(CORPUS.get().unwrap()).clone();
            let (m, _) = mutate(text.as_bytes(), &other, t);
            match String::from_utf8(m) {
                Ok(s) => text = s,
                Err(_) => {
                    st.skip("non-utf8");
                    return Ok(());
                }
            }
            st.class("mutant");
        }
    }
    // the last line's right-hand side as a stand-alone value, and its left-hand side as a key
    if let Some(line) = text.lines().last() {
        if let Some((k, v)) = line.split_once('=') {
            check_value_text(v.trim(), st)?;
            check_value_text(k.trim(), st)?;
        }
    }
    let rejected = check_text(&text, st)?;
    if !rejected {
        st.skip("accepted");
    } else {
        st.sample(|| json!({"text": text, "rendered": views(&text)[0].1.rendered}));
    }
    Ok(())
}

// ------------------------------------------------------------------------------------------------
// typed-decode errors at a known path
// ------------------------------------------------------------------------------------------------

struct Walker<'a> {
    rest: &'a [Seg],
    actual: &'a str,
    /// how the next nodes are asked for: 0 = deserialize_any, 1 = through deserialize_option,
    /// 2 = through deserialize_newtype_struct, 3 = deserialize_struct (tables); one entry is
    /// consumed per wrapper and per level, an empty list means 0
    modes: &'a [u8],
}

impl<'a> Walker<'a> {
    fn next_mode(&self) -> (u8, &'a [u8]) {
        match self.modes.split_first() {
            Some((m, rest)) => (*m, rest),
            None => (0, &[]),
        }
    }
}

/// visitor of the wrappers: hands the inner deserializer back to the walker
struct Wrap<'a>(Walker<'a>);
impl<'de> Visitor<'de> for Wrap<'_> {
    type Value = ();
    fn expecting(&self, f: &mut std::fmt::Formatter<'_>) -> std::fmt::Result {
        f.write_str("a present value")
    }
    fn visit_some<D: Deserializer<'de>>(self, d: D) -> Result<(), D::Error> {
        self.0.deserialize(d)
    }
    fn visit_newtype_struct<D: Deserializer<'de>>(self, d: D) -> Result<(), D::Error> {
        self.0.deserialize(d)
    }
    fn visit_none<E: de::Error>(self) -> Result<(), E> {
        Err(E::custom("HARNESS: present value decoded as None"))
    }
}

struct Wrong<'a>(&'a str);
impl<'de> DeserializeSeed<'de> for Wrong<'_> {
    type Value = ();
    fn deserialize<D: Deserializer<'de>>(self, d: D) -> Result<(), D::Error> {
        use serde::Deserialize;
        match self.0 {
            "string" => i64::deserialize(d).map(|_| ()),
            _ => String::deserialize(d).map(|_| ()),
        }
    }
}

impl<'de> DeserializeSeed<'de> for Walker<'_> {
    type Value = ();
    fn deserialize<D: Deserializer<'de>>(self, d: D) -> Result<(), D::Error> {
        let (mode, modes) = self.next_mode();
        let me = Walker { rest: self.rest, actual: self.actual, modes };
        match mode {
            1 => return d.deserialize_option(Wrap(me)),
            2 => return d.deserialize_newtype_struct("Wrapper", Wrap(me)),
            _ => {}
        }
        if me.rest.is_empty() {
            return Wrong(me.actual).deserialize(d);
        }
        if mode == 3 && matches!(me.rest[0], Seg::Key(_)) {
            return d.deserialize_struct("Record", &[], me);
        }
        d.deserialize_any(me)
    }
}
impl<'de> Visitor<'de> for Walker<'_> {
    type Value = ();
    fn expecting(&self, f: &mut std::fmt::Formatter<'_>) -> std::fmt::Result {
        f.write_str("a container on the path")
    }
    fn visit_map<A: MapAccess<'de>>(self, mut m: A) -> Result<(), A::Error> {
        let Seg::Key(want) = &self.rest[0] else { return Err(de::Error::custom("HARNESS: path/shape mismatch (map)")) };
        let mut found = false;
        while let Some(k) = m.next_key::<String>()? {
            if &k == want && !found {
                found = true;
                m.next_value_seed(Walker { rest: &self.rest[1..], actual: self.actual, modes: self.modes })?;
            } else {
                m.next_value::<IgnoredAny>()?;
            }
        }
        if !found {
            return Err(de::Error::custom("HARNESS: key on path not found"));
        }
        Ok(())
    }
    fn visit_seq<A: SeqAccess<'de>>(self, mut s: A) -> Result<(), A::Error> {
        let Seg::Idx(want) = &self.rest[0] else { return Err(de::Error::custom("HARNESS: path/shape mismatch (seq)")) };
        let mut i = 0;
        loop {
            if i == *want {
                if s.next_element_seed(Walker { rest: &self.rest[1..], actual: self.actual, modes: self.modes })?.is_none() {
                    return Err(de::Error::custom("HARNESS: index on path not found"));
                }
            } else if s.next_element::<IgnoredAny>()?.is_none() {
                break;
            }
            i += 1;
        }
        Ok(())
    }
}

/// collect every node path of the expected tree with its type and whether it has its own span
fn all_paths(t: &Tbl, base: &Path, out: &mut Vec<(Path, &'static str, Option<TblKind>)>) {
    for (k, n) in &t.entries {
        let mut p = base.clone();
        p.push(Seg::Key(k.clone()));
        node_paths(n, &p, out);
    }
}
fn node_paths(n: &Node, p: &Path, out: &mut Vec<(Path, &'static str, Option<TblKind>)>) {
    match n {
        Node::Table(t) => {
            out.push((p.clone(), "table", Some(t.kind)));
            all_paths(t, p, out);
        }
        Node::Aot(a) => {
            out.push((p.clone(), "array-of-tables", None));
            for (i, t) in a.iter().enumerate() {
                let mut q = p.clone();
                q.push(Seg::Idx(i));
                out.push((q.clone(), "table", Some(TblKind::AotElem)));
                all_paths(t, &q, out);
            }
        }
        Node::Array(a) => {
            out.push((p.clone(), "array", None));
            for (i, e) in a.iter().enumerate() {
                let mut q = p.clone();
                q.push(Seg::Idx(i));
                node_paths(e, &q, out);
            }
        }
        other => out.push((p.clone(), other.type_name(), None)),
    }
}

fn prop_typed(t: &mut Tape, st: &mut Stats) -> Result<(), Failure> {
    let mut cfg = multibyte_cfg(t);
    cfg.allow_bom = false;
    let r = gen_doc(t, &cfg);
    typed_probe(&r, t, st)
}

/// ask for the wrong type at a chosen path of a generated document (no BOM): the error is located
/// at the offending item (also used by C14: error locations delivered through serde)
pub fn typed_probe(r: &crate::gen::Rendered, t: &mut Tape, st: &mut Stats) -> Result<(), Failure> {
    let mut paths = vec![];
    all_paths(&r.expected, &vec![], &mut paths);
    if paths.is_empty() {
        st.skip("empty-document");
        return Ok(());
    }
    let (path, actual, kind) = t.pick(&paths).clone();
    // how each node on the way is asked for (plain, Option<_>, newtype struct, struct)
    let plain = t.chance(1, 3);
    let modes: Vec<u8> = (0..path.len() + 3).map(|_| if plain { 0 } else { t.weighted(&[4, 2, 3, 2]) as u8 }).collect();
    let modes = &modes[..];
    st.eval();
    st.class(&format!("typed.{actual}"));
    for (m, name) in [(1u8, "typed.via-option"), (2, "typed.via-newtype"), (3, "typed.via-struct")] {
        if modes.contains(&m) {
            st.class(name);
        }
    }
    let text = &r.text;
    let case = || json!({"text": text, "path": path_str(&path), "actual": actual, "modes": modes});
    // expected location of the offending item
    let expected_span: Option<Range<usize>> = if let Some((_, rg)) = r.map.values.iter().find(|(p, _)| *p == path) {
        Some(rg.clone())
    } else if let Some((_, _, full)) = r.map.sections.iter().find(|(p, _, _)| *p == path) {
        Some(full.clone())
    } else if actual == "array-of-tables" {
        // first element start .. last element end
        let els: Vec<&Range<usize>> = r.map.sections.iter().filter(|(p, _, _)| p.len() == path.len() + 1 && p[..path.len()] == path[..]).map(|(_, _, f)| f).collect();
        if els.is_empty() {
            None
        } else {
            Some(els.iter().map(|r| r.start).min().unwrap()..els.iter().map(|r| r.end).max().unwrap())
        }
    } else {
        None // table without a span of its own: the span of its key
    };
    let key_spans: Vec<&Range<usize>> = r.map.keys.iter().filter(|(id, _)| *id == path).map(|(_, r)| r).collect();

    // with source text
    for (who, res) in [
        ("toml::from_str", Walker { rest: &path, actual, modes }.deserialize(toml::de::Deserializer::new(text)).map_err(|e| (e.message().to_string(), e.span(), e.to_string()))),
        (
            "toml_edit::de::from_str",
            text.parse::<toml_edit::de::Deserializer>()
                .map_err(|e| (e.message().to_string(), e.span(), e.to_string()))
                .and_then(|d| Walker { rest: &path, actual, modes }.deserialize(d).map_err(|e| (e.message().to_string(), e.span(), e.to_string()))),
        ),
    ] {
        let (msg, span, rendered) = match res {
            Ok(()) => return Err(Failure::new("typed", format!("{who}: decoding a {actual} at {} as the wrong type succeeded\n{text}", path_str(&path)), case())),
            Err(x) => x,
        };
        if msg.contains("HARNESS") {
            return Err(harness_fault(format!("{msg} at {}\n{text}", path_str(&path))));
        }
        if msg.trim().is_empty() {
            return Err(Failure::new("typed-message", format!("{who}: empty message"), case()));
        }
        let ok = match (&span, &expected_span) {
            (Some(s), Some(e)) => s == e,
            (Some(s), None) => {
                // a table written only through dotted keys / implied by headers: its key's span
                matches!(kind, Some(TblKind::Dotted) | Some(TblKind::Implicit)) && key_spans.iter().any(|k| *k == s)
            }
            (None, _) => false,
        };
        if !ok {
            return Err(Failure::new(
                "typed-span",
                format!("{who}: type mismatch at {} ({actual}): error span {:?}, the offending item is at {:?} (key occurrences {:?}); message {msg:?}\n---\n{text}\n---", path_str(&path), span, expected_span, key_spans),
                case(),
            ));
        }
        // the rendering is located like any parse error
        let s = span.unwrap();
        let (l, c) = expected_pos(text, s.start);
        let first = rendered.lines().next().unwrap_or("");
        if first != format!("TOML parse error at line {l}, column {c}") {
            let nums: Vec<usize> = first.split(|ch: char| !ch.is_ascii_digit()).filter(|s| !s.is_empty()).filter_map(|s| s.parse().ok()).collect();
            if nums.len() == 2 && KNOWN_F3.load(std::sync::atomic::Ordering::Relaxed) && f3_signature(text, s.start, nums[0], nums[1]) {
                st.known("F3", F3_WHAT);
            } else {
                return Err(Failure::new("typed-position", format!("{who}: rendered {first:?} for span start {} = line {l}, column {c}\n{text}", s.start), case()));
            }
        }
    }
    // without source text: key path instead of a span
    let dm: toml_edit::DocumentMut = text.parse().map_err(|e| Failure::new("parse", format!("{e}"), case()))?;
    match (Walker { rest: &path, actual, modes }).deserialize(toml_edit::de::Deserializer::from(dm)) {
        Ok(()) => return Err(Failure::new("typed", "from DocumentMut: wrong type accepted".to_string(), case())),
        Err(e) => {
            if e.span().is_some() {
                return Err(Failure::new("typed-nosource", format!("error from a DocumentMut (no source text) carries span {:?}", e.span()), case()));
            }
            let keys: Vec<&str> = path.iter().filter_map(|s| if let Seg::Key(k) = s { Some(k.as_str()) } else { None }).collect();
            let want = format!("in `{}`\n", keys.join("."));
            let rendered = e.to_string();
            if !rendered.ends_with(&want) {
                return Err(Failure::new("typed-keypath", format!("error from a DocumentMut renders {rendered:?}; expected it to end with {want:?}\n---\n{text}\n---"), case()));
            }
        }
    }
    // the root itself asked for as the wrong type (plainly, as Option<_>, through a newtype struct):
    // the error is born at the root, where no enclosing layer could add a location later
    for root_modes in [&[0u8][..], &[1], &[2], &[2, 1], &[3]] {
        for (who, res) in [
            ("toml::from_str", Walker { rest: &[], actual: "table", modes: root_modes }.deserialize(toml::de::Deserializer::new(text)).map_err(|e| (e.message().to_string(), e.span(), e.to_string()))),
            (
                "toml_edit::de::from_str",
                text.parse::<toml_edit::de::Deserializer>()
                    .map_err(|e| (e.message().to_string(), e.span(), e.to_string()))
                    .and_then(|d| Walker { rest: &[], actual: "table", modes: root_modes }.deserialize(d).map_err(|e| (e.message().to_string(), e.span(), e.to_string()))),
            ),
        ] {
            st.class("typed.root");
            match res {
                Ok(()) => return Err(Failure::new("typed", format!("{who}: decoding the root table as a string succeeded"), case())),
                Err((msg, span, rendered)) => {
                    if msg.trim().is_empty() {
                        return Err(Failure::new("typed-message", format!("{who}: empty message for a mismatch at the root"), case()));
                    }
                    if span.is_none() || !rendered.starts_with("TOML parse error at line ") {
                        return Err(Failure::new("typed-span", format!("{who}: a type mismatch at the document root (asked for through modes {root_modes:?}) is not located although the source text is available: span {span:?}, rendered {rendered:?}"), case()));
                    }
                }
            }
        }
    }
    // a value cloned out of a parsed document keeps its spans but no source text travels with it:
    // the error is located by key path, as for any input without text
    if let (Some(Seg::Key(k0)), Ok(im)) = (path.first(), toml_edit::ImDocument::parse(text.as_str())) {
        if let Some(toml_edit::Item::Value(v)) = im.as_table().get(k0) {
            use serde::de::IntoDeserializer;
            let rest = &path[1..];
            st.class("typed.detached-value");
            match (Walker { rest, actual, modes }).deserialize(v.clone().into_deserializer()) {
                Ok(()) => return Err(Failure::new("typed", "from a detached Value: wrong type accepted".to_string(), case())),
                Err(e) => {
                    let rendered = e.to_string();
                    if rendered.trim().is_empty() || e.message().trim().is_empty() {
                        return Err(Failure::new("typed-message", "from a detached Value: empty message".to_string(), case()));
                    }
                    let keys: Vec<&str> = rest.iter().filter_map(|s| if let Seg::Key(k) = s { Some(k.as_str()) } else { None }).collect();
                    if !keys.is_empty() {
                        let want = format!("in `{}`\n", keys.join("."));
                        if !rendered.ends_with(&want) {
                            return Err(Failure::new("typed-keypath", format!("error from a Value cloned out of a document (spans, but no source text) renders {rendered:?}; expected it to end with {want:?}\n---\n{text}\n---"), case()));
                        }
                    }
                }
            }
        }
    }
    if r.text.chars().any(|c| c.len_utf8() > 1) {
        st.nontrivial(fnv64(format!("{text}{}", path_str(&path)).as_bytes()));
    }
    st.sample(|| json!({"text": text, "path": path_str(&path), "actual": actual}));
    Ok(())
}

/// enums with tuple variants written as a table with numeric keys (`{ 0 = .., 1 = .. }`): an entry whose
/// key is not the expected index is the offending item, and the error has to point into that entry
fn enum_tuple_probe(rep: &mut Report) {
    #[derive(serde::Deserialize, Debug)]
    #[allow(dead_code)]
    enum Shape {
        Point(i64, i64),
        Tri(i64, i64, i64),
        Quad(i64, i64, i64, i64),
    }
    #[derive(serde::Deserialize, Debug)]
    #[allow(dead_code)]
    struct Doc {
        shape: Shape,
    }
    let variants = [("Point", 2usize), ("Tri", 3), ("Quad", 4)];
    let bad_keys = ["x", "7", "\"é\"", "\"0 \"", "-1"];
    let pre = ["", "# é comment\n", "\n\n", "other = \"日本\"\n"];
    for (vi, (vname, n)) in variants.iter().enumerate() {
        for bad_at in 0..*n {
            for (bi, bad) in bad_keys.iter().enumerate() {
                for form in 0..3 {
                    let lead = pre[(vi + bad_at + bi + form) % pre.len()];
                    let mut text = String::from(lead);
                    // (start of the offending key, end of its value)
                    let mut entry = 0..0;
                    match form {
                        0 => {
                            text.push_str(&format!("[shape.{vname}]\n"));
                            for i in 0..*n {
                                let k = if i == bad_at { bad.to_string() } else { i.to_string() };
                                let st = text.len();
                                text.push_str(&format!("{k} = {i}"));
                                if i == bad_at {
                                    entry = st..text.len();
                                }
                                text.push('\n');
                            }
                        }
                        _ => {
                            text.push_str(if form == 1 { "shape = { " } else { "[shape]\n" });
                            text.push_str(&format!("{vname} = {{ "));
                            for i in 0..*n {
                                let k = if i == bad_at { bad.to_string() } else { i.to_string() };
                                if i > 0 {
                                    text.push_str(",  ");
                                }
                                let st = text.len();
                                text.push_str(&format!("{k} = {i}"));
                                if i == bad_at {
                                    entry = st..text.len();
                                }
                            }
                            text.push_str(if form == 1 { " } }\n" } else { " }\n" });
                        }
                    }
                    rep.stats.eval();
                    rep.stats.class("typed.enum-tuple-variant-key");
                    rep.stats.nontrivial(fnv64(text.as_bytes()));
                    let case = json!({"text": text});
                    for (who, res) in [
                        ("toml::from_str", toml::from_str::<Doc>(&text).map(|_| ()).map_err(|e| (e.message().to_string(), e.span(), e.to_string()))),
                        ("toml_edit::de::from_str", toml_edit::de::from_str::<Doc>(&text).map(|_| ()).map_err(|e| (e.message().to_string(), e.span(), e.to_string()))),
                    ] {
                        let f = match res {
                            Ok(()) => Some(format!("{who}: a tuple variant written with the key {bad} at index {bad_at} was accepted")),
                            Err((msg, span, rendered)) => {
                                if msg.trim().is_empty() {
                                    Some(format!("{who}: empty message"))
                                } else {
                                    match span {
                                        None => Some(format!("{who}: no span; message {msg:?}")),
                                        Some(sp) if !(entry.start <= sp.start && sp.end <= entry.end) => Some(format!("{who}: error span {sp:?} is not inside the offending entry {entry:?} ({:?}); message {msg:?}", &text[entry.clone()])),
                                        Some(sp) => {
                                            let (l, c) = expected_pos(&text, sp.start);
                                            let first = rendered.lines().next().unwrap_or("").to_string();
                                            if first != format!("TOML parse error at line {l}, column {c}") {
                                                Some(format!("{who}: rendered {first:?} for span start {} = line {l}, column {c}", sp.start))
                                            } else {
                                                None
                                            }
                                        }
                                    }
                                }
                            }
                        };
                        if let Some(m) = f {
                            let fl = Failure::new("typed-span", format!("{m}\n---\n{text}---"), case.clone());
                            rep.violation("enum-tuple", None, &fl);
                            return;
                        }
                    }
                }
            }
        }
    }
}

pub fn run(args: Args) -> ! {
    let mut rep = Report::new("C15", args.tier, args.seed);
    rep.rule = "rejected inputs: labelled faults (optionally behind multi-byte characters), nesting beyond the recursion limit in every combination, stray multi-byte characters, truncations, byte/line mutants of generated documents; exhaustive truncation of every fixture at every byte; for each error of DocumentMut, ImDocument, toml::from_str and toml_edit::de::from_str: non-empty message, span inside the document on char boundaries, rendering does not panic, `line L, column C` equals an independent character-based computation from span.start, echoed line is that line. Typed errors: a seed type walks to a chosen path of a valid document and asks for the wrong type there, each node on the way asked for plainly or through deserialize_option / deserialize_newtype_struct / deserialize_struct as chosen by the tape; with text the span must equal the offending item's source range (by construction), without text (a DocumentMut, or a Value cloned out of a parsed document) the rendering ends with the key path. non-trivial = error position not 0 and (multi-byte character before it on the line or at end of input); distinct by text".into();
    rep.assumptions = vec!["the expected line/column follows the wording of the property (characters, LF-separated lines, final LF part of the last line)".into()];
    KNOWN_F3.store(rep.is_known("F3"), std::sync::atomic::Ordering::Relaxed);
    KNOWN_F14.store(rep.is_known("F14"), std::sync::atomic::Ordering::Relaxed);
    let fx = crate::corpus::load();
    let _ = CORPUS.set(fx.iter().map(|f| f.bytes.clone()).collect());
    let replay_one = |rep: &mut Report, p: &str, sub: &str| {
        let j = super::load_replay(p);
        let mut st = Stats::new();
        let r = if j["tape"].is_array() && j["sub"].as_str() == Some("typed") {
            guarded(&prop_typed, &super::replay_tape(&j), &mut st)
        } else if let Some(text) = j["case"]["text"].as_str() {
            check_text(text, &mut st).map(|_| ())
        } else {
            guarded(&prop_invalid, &super::replay_tape(&j), &mut st)
        };
        if let Err(f) = r {
            rep.violation(sub, None, &f);
        }
        rep.stats.merge(st);
    };
    if let Some(p) = &args.replay {
        replay_one(&mut rep, p, "replay");
        rep.stats.evaluations += 1;
        rep.stats.nontrivial.insert(1);
        rep.stats.nontrivial.insert(2);
        rep.finish();
    }
    for p in super::regression_files("C15") {
        replay_one(&mut rep, &p, "regression");
    }
    // fixtures: every invalid fixture, and every truncation of every small fixture
    let texts: Vec<&str> = fx.iter().filter_map(|f| std::str::from_utf8(&f.bytes).ok()).collect();
    let (stt, fail) = par_enumerate(texts.len() as u64, workers(), |i, st| {
        let text = texts[i as usize];
        check_text(text, st)?;
        if text.len() <= 600 {
            for cut in 0..text.len() {
                if text.is_char_boundary(cut) {
                    st.class("fixture-truncation");
                    check_text(&text[..cut], st)?;
                }
            }
        }
        Ok(())
    });
    rep.stats.merge(stt);
    if let Some((_, f)) = fail {
        rep.violation("fixtures", None, &f);
    }
    enum_tuple_probe(&mut rep);
    let w = workers();
    let run = run_tape("C15.invalid", &prop_invalid, 2000, args.tier.pick(400_000, 6_000_000), args.seed, w);
    finish_run(&mut rep, "invalid", run);
    let run = run_tape("C15.typed", &prop_typed, 2000, args.tier.pick(200_000, 3_000_000), args.seed, w);
    finish_run(&mut rep, "typed", run);
    for c in ["eof-with-newline", "eof-without-newline", "at-multibyte", "fault-line", "stray-multibyte", "truncation", "mutant", "value-or-key-error", "over-limit-nesting", "typed.string", "typed.integer", "typed.array", "typed.table", "typed.array-of-tables", "typed.datetime", "typed.via-option", "typed.via-newtype", "typed.via-struct"] {
        rep.require_class(c);
    }
    rep.finish()
}
