//! C17 — serialization is deterministic, canonical and insensitive to map order.

use super::c02::finish_run;
use super::c07::text_model;
use super::Args;
use crate::engine::*;
use crate::model::{self, Cmp, Node, Tbl, TblKind};
use crate::scalars::*;
use crate::serdefam::*;
use crate::tape::{fnv64, Tape};
use serde::de::DeserializeOwned;
use serde::Serialize;
use serde_json::json;

fn gen_scalar(t: &mut Tape) -> Node {
    match t.weighted(&[4, 4, 2, 3, 2]) {
        0 => Node::Int(gen_int(t)),
        1 => Node::Str(gen_string(t)),
        2 => Node::Bool(t.chance(1, 2)),
        3 => Node::float(gen_float(t)),
        _ => Node::Dt(gen_dt(t)),
    }
}

/// toml::Value-shaped tree: tables, arrays (possibly of tables, possibly mixed), scalars, with keys
/// from a pool chosen so that sorted order and insertion order interleave the kinds
fn gen_value(t: &mut Tape, depth: usize, budget: &mut isize) -> Node {
    *budget -= 1;
    if depth >= 5 || *budget <= 0 {
        return gen_scalar(t);
    }
    match t.weighted(&[6, 2, 2, 3]) {
        0 => gen_scalar(t),
        1 => Node::Array((0..t.small(4)).map(|_| gen_value(t, depth + 1, budget)).collect()),
        2 => Node::Array((0..t.small(3)).map(|_| Node::Table(gen_tbl(t, depth + 1, budget))).collect()),
        _ => Node::Table(gen_tbl(t, depth + 1, budget)),
    }
}
fn gen_tbl(t: &mut Tape, depth: usize, budget: &mut isize) -> Tbl {
    let mut tb = Tbl::new(TblKind::Any);
    let n = t.small(6);
    for _ in 0..n {
        let k = if t.chance(3, 4) { t.pick(&["a", "b", "c", "d", "m", "z", "A", "0"]).to_string() } else { gen_key(t) };
        if tb.get(&k).is_some() || k.starts_with("$__") {
            continue;
        }
        let v = gen_value(t, depth, budget);
        tb.entries.push((k, v));
    }
    tb
}

fn interleaved(tb: &Tbl) -> bool {
    // some scalar comes after a sub-table in the map's own order (sorted or insertion)
    let mut keys: Vec<(&String, &Node)> = tb.entries.iter().map(|(k, v)| (k, v)).collect();
    if !cfg!(feature = "preserve_order") {
        keys.sort_by(|a, b| a.0.cmp(b.0));
    }
    let mut seen_table = false;
    for (_, n) in keys {
        let is_tbl = matches!(n, Node::Table(_)) || matches!(n, Node::Array(a) if !a.is_empty() && a.iter().all(|e| matches!(e, Node::Table(_))));
        if is_tbl {
            seen_table = true;
        } else if seen_table {
            return true;
        }
    }
    tb.entries.iter().any(|(_, n)| matches!(n, Node::Table(x) if interleaved(x)))
}

fn prop_value(t: &mut Tape, st: &mut Stats) -> Result<(), Failure> {
    let mut budget = 6 + t.below(40) as isize;
    let mut tree = gen_tbl(t, 0, &mut budget);
    if t.chance(1, 12) {
        // wide: dozens of tables and arrays of tables
        st.class("wide-value");
        let n = 22 + t.small(30);
        for i in 0..n {
            let mut b = 4isize;
            let sub = gen_tbl(t, 3, &mut b);
            let k = format!("w{:02}", (i * 7) % n);
            if tree.get(&k).is_some() {
                continue;
            }
            let v = if t.chance(1, 3) { Node::Array((0..1 + t.small(3)).map(|_| Node::Table(sub.clone())).collect()) } else { Node::Table(sub) };
            tree.entries.push((k, v));
        }
    }
    st.eval();
    if interleaved(&tree) {
        st.nontrivial(model::digest(&Node::Table(tree.clone())));
        st.class("interleaved");
    }
    if tree.entries.iter().any(|(_, n)| matches!(n, Node::Table(x) if x.entries.is_empty())) {
        st.class("empty-table");
    }
    if tree.entries.iter().any(|(_, n)| matches!(n, Node::Table(x) if !x.entries.is_empty() && x.entries.iter().all(|(_, c)| matches!(c, Node::Table(_))))) {
        st.class("only-subtables");
    }
    if tree.entries.iter().any(|(_, n)| matches!(n, Node::Array(a) if a.iter().any(|e| matches!(e, Node::Table(_))) && a.iter().any(|e| !matches!(e, Node::Table(_))))) {
        st.class("mixed-array");
    }
    let v = toml::Value::Table(model::to_toml_table(&tree));
    let case = || json!({"tree": model::tbl_to_json(&tree)});
    let s1 = toml::to_string(&v).map_err(|e| Failure::new("ser", format!("to_string fails for a toml::Value: {e}\n{v:?}"), case()))?;
    let s1b = toml::to_string(&v).unwrap();
    if s1 != s1b {
        return Err(Failure::new("deterministic", format!("to_string twice gives different text\n--- first\n{s1}\n--- second\n{s1b}"), case()));
    }
    st.sample(|| json!({"text": s1}));
    // valid and decodes to v
    let m = text_model(&s1).map_err(|e| Failure::new("valid", format!("to_string output is {e}\n---\n{s1}\n---"), case()))?;
    model::diff_tbl(&m, &tree, Cmp::SERDE).map_err(|e| Failure::new("decode", format!("to_string output does not decode to the value (a value line after a sub-table header?): {e}\n---\n{s1}\n---"), case()))?;
    // fixed point in one step
    let v2: toml::Value = toml::from_str(&s1).map_err(|e| Failure::new("valid", format!("{e}\n{s1}"), case()))?;
    // "decodes to v" in the value type's own terms: `==` (a table is its entries, whatever order the
    // map keeps them in; NaN never equals itself and is left to the model comparison above)
    fn has_nan(v: &toml::Value) -> bool {
        match v {
            toml::Value::Float(f) => f.is_nan(),
            toml::Value::Array(a) => a.iter().any(has_nan),
            toml::Value::Table(t) => t.values().any(has_nan),
            _ => false,
        }
    }
    // (integral floats are written with `.0` and negative zero keeps its sign: both compare equal)
    if !has_nan(&v) && (v2 != v || v != v2) {
        return Err(Failure::new("decode", format!("from_str(to_string(v)) != v under `==` although the text carries the same data\n---\n{s1}\n---"), case()));
    }
    let s2 = toml::to_string(&v2).map_err(|e| Failure::new("ser", format!("{e}"), case()))?;
    if s2 != s1 {
        return Err(Failure::new("fixed-point", format!("to_string(from_str(to_string(v))) differs from to_string(v)\n--- first\n{s1}\n--- second\n{s2}"), case()));
    }
    // plain vs pretty
    let sp = toml::to_string_pretty(&v).map_err(|e| Failure::new("ser", format!("to_string_pretty fails: {e}"), case()))?;
    let mp = text_model(&sp).map_err(|e| Failure::new("valid", format!("to_string_pretty output is {e}\n---\n{sp}\n---"), case()))?;
    model::diff_tbl(&mp, &m, Cmp::SERDE).map_err(|e| Failure::new("plain-vs-pretty", format!("plain and pretty outputs decode differently: {e}\n--- plain\n{s1}\n--- pretty\n{sp}"), case()))?;
    let vp: toml::Value = toml::from_str(&sp).map_err(|e| Failure::new("valid", format!("{e}"), case()))?;
    if toml::to_string_pretty(&vp).ok().as_ref() != Some(&sp) {
        return Err(Failure::new("fixed-point", format!("pretty output is not a fixed point\n{sp}"), case()));
    }
    // toml::Table Display
    let tb: toml::Table = s1.parse().map_err(|e| Failure::new("valid", format!("{e}"), case()))?;
    let d1 = tb.to_string();
    if tb.to_string() != d1 {
        return Err(Failure::new("deterministic", "toml::Table prints differently the second time".to_string(), case()));
    }
    let tb2: toml::Table = d1.parse().map_err(|e| Failure::new("valid", format!("Table Display does not parse: {e}\n{d1}"), case()))?;
    if tb2.to_string() != d1 {
        return Err(Failure::new("fixed-point", format!("toml::Table Display is not a fixed point\n--- first\n{d1}\n--- second\n{}", tb2.to_string()), case()));
    }
    // toml_edit's serializer agrees on the data
    let e1 = toml_edit::ser::to_string(&v).map_err(|e| Failure::new("ser", format!("toml_edit::ser::to_string fails: {e}"), case()))?;
    let me = text_model(&e1).map_err(|e| Failure::new("valid", format!("toml_edit::ser::to_string output is {e}\n{e1}"), case()))?;
    model::diff_tbl(&me, &tree, Cmp::SERDE).map_err(|e| Failure::new("decode", format!("toml_edit::ser::to_string output decodes differently: {e}\n{e1}"), case()))?;
    Ok(())
}

fn check_typed<T: Serialize + DeserializeOwned + std::fmt::Debug>(ty: &str, v: &T, st: &mut Stats) -> Result<(), Failure> {
    st.eval();
    st.class(&format!("type.{ty}"));
    st.nontrivial(fnv64(format!("{ty}{:?}", record(v)).as_bytes()));
    let case = || json!({"type": ty, "value": format!("{v:?}")});
    for (who, f) in [("toml::to_string", toml::to_string::<T> as fn(&T) -> Result<String, toml::ser::Error>), ("toml::to_string_pretty", toml::to_string_pretty::<T>)] {
        let s1 = f(v).map_err(|e| Failure::new("ser", format!("{who} fails for {ty}: {e}"), case()))?;
        if f(v).ok().as_ref() != Some(&s1) {
            return Err(Failure::new("deterministic", format!("{who} twice gives different text for {ty}"), case()));
        }
        let back: T = toml::from_str(&s1).map_err(|e| Failure::new("valid", format!("{who}: {e}\n{s1}"), case()))?;
        let s2 = f(&back).map_err(|e| Failure::new("ser", format!("{e}"), case()))?;
        if s2 != s1 {
            return Err(Failure::new("fixed-point", format!("{who} of {ty}: to_string(from_str(to_string(v))) differs\n--- first\n{s1}\n--- second\n{s2}"), case()));
        }
    }
    let p = text_model(&toml::to_string(v).unwrap()).map_err(|e| Failure::new("valid", e, case()))?;
    let q = text_model(&toml::to_string_pretty(v).unwrap()).map_err(|e| Failure::new("valid", e, case()))?;
    model::diff_tbl(&p, &q, Cmp::SERDE).map_err(|e| Failure::new("plain-vs-pretty", format!("{ty}: plain and pretty decode differently: {e}"), case()))?;
    // toml_edit's own serializers: same data, plain and pretty, deterministic, fixed point
    for (who, f) in [("toml_edit::ser::to_string", toml_edit::ser::to_string::<T> as fn(&T) -> Result<String, toml_edit::ser::Error>), ("toml_edit::ser::to_string_pretty", toml_edit::ser::to_string_pretty::<T>)] {
        let s1 = match f(v) {
            Ok(s) => s,
            // (roots the document serializers refuse - documented - are refused by all of them)
            Err(e) => return Err(Failure::new("ser", format!("{who} fails for {ty} although toml::to_string succeeds: {e}"), case())),
        };
        if f(v).ok().as_ref() != Some(&s1) {
            return Err(Failure::new("deterministic", format!("{who} twice gives different text for {ty}"), case()));
        }
        let m = text_model(&s1).map_err(|e| Failure::new("valid", format!("{who}: {e}"), case()))?;
        model::diff_tbl(&m, &p, Cmp::SERDE).map_err(|e| Failure::new("plain-vs-pretty", format!("{ty}: {who} and toml::to_string decode differently: {e}\n--- {who}\n{s1}\n---"), case()))?;
        let back: T = toml_edit::de::from_str(&s1).map_err(|e| Failure::new("valid", format!("{who}: output does not read back: {e}\n{s1}"), case()))?;
        let s2 = f(&back).map_err(|e| Failure::new("ser", format!("{e}"), case()))?;
        if s2 != s1 {
            return Err(Failure::new("fixed-point", format!("{who} of {ty}: not a fixed point in one step\n--- first\n{s1}\n--- second\n{s2}"), case()));
        }
    }
    Ok(())
}

fn prop_typed(t: &mut Tape, st: &mut Stats) -> Result<(), Failure> {
    let r = match t.below(9) {
        6 => check_typed("Attrs", &g_attrs(t), st),
        // an enum at the document root: unit variants are not documents, tuple / struct variants may
        // be refused (documented); what is written must read back
        7 | 8 => {
            let v = g_e(t);
            if toml::to_string(&v).is_err() {
                st.class("root-enum-refused");
                Ok(())
            } else {
                check_typed("root E", &v, st)
            }
        }
        0 => check_typed("Scalars", &g_scalars(t), st),
        1 => check_typed("Opts", &g_opts(t), st),
        2 => check_typed("Seqs", &g_seqs(t), st),
        3 => check_typed("Maps", &g_maps(t), st),
        4 => check_typed("Dates", &g_dates(t), st),
        _ => check_typed("Nested", &g_nested(t), st),
    };
    r
}

pub fn run(args: Args) -> ! {
    let po = cfg!(feature = "preserve_order");
    let mut rep = Report::new("C17", args.tier, args.seed);
    rep.rule = "toml::Value trees whose keys make sorted order and insertion order interleave scalars, arrays, arrays of tables, mixed arrays and tables (empty tables, tables with only sub-tables), in the sorted and the preserve_order build of the harness, plus values of the derived-type family: to_string twice identical; to_string(from_str(to_string(v))) == to_string(v) for plain and pretty; plain and pretty decode to equal trees; the output is valid per the reference and decodes to v (so every table's values precede its sub-table headers); a parsed toml::Table prints identically twice and is a fixed point; toml_edit::ser::to_string carries the same data. non-trivial = some table holds a scalar after a sub-table in the map's own order; distinct by tree".into();
    rep.assumptions = vec!["NaN sign is discarded by the serde serializers by documented design".into()];
    if let Some(p) = &args.replay {
        let j = super::load_replay(p);
        let tape = super::replay_tape(&j);
        let mut st = Stats::new();
        let pr: &TapeProp = if j["sub"].as_str().map(|s| s.starts_with("typed")).unwrap_or(false) { &prop_typed } else { &prop_value };
        if let Err(f) = guarded(pr, &tape, &mut st) {
            rep.violation("replay", Some(&tape), &f);
        }
        rep.stats.merge(st);
        rep.stats.nontrivial.insert(1);
        rep.stats.nontrivial.insert(2);
        rep.finish();
    }
    let tag = if po { "preserve_order" } else { "sorted" };
    let run = run_tape(&format!("C17.values.{tag}"), &prop_value, 2500, args.tier.pick(200_000, 3_000_000), args.seed, workers());
    finish_run(&mut rep, &format!("values.{tag}"), run);
    let run = run_tape(&format!("C17.typed.{tag}"), &prop_typed, 1500, args.tier.pick(80_000, 1_000_000), args.seed, workers());
    finish_run(&mut rep, &format!("typed.{tag}"), run);
    if std::env::var("VCHECK_PO_CHILD").is_ok() {
        println!("PO-RESULT evaluations={} nontrivial={} violations={}", rep.stats.evaluations, rep.stats.nontrivial.len(), rep.violations.len());
        std::process::exit(if rep.violations.is_empty() { 0 } else { 1 });
    }
    if !po {
        let po_bin = format!("{}/harness/target-po/chk/vcheck", VERIF_DIR);
        if !std::path::Path::new(&po_bin).exists() {
            fault(&format!("{po_bin} not built (the check script builds it)"));
        }
        let o = std::process::Command::new(&po_bin)
            .args(["C17", "--tier", args.tier.name()])
            .env("VCHECK_PO_CHILD", "1")
            .env("VERIF_SEED", args.seed.to_string())
            .output()
            .unwrap_or_else(|e| fault(&format!("spawn {po_bin}: {e}")));
        let so = String::from_utf8_lossy(&o.stdout);
        for l in so.lines() {
            if l.starts_with("VIOLATION") || l.starts_with("  ") {
                println!("{l}");
            }
            if let Some(rest) = l.strip_prefix("PO-RESULT ") {
                let get = |k: &str| rest.split(' ').find_map(|kv| kv.strip_prefix(&format!("{k}="))).and_then(|v| v.parse::<u64>().ok()).unwrap_or(0);
                rep.stats.evaluations += get("evaluations");
                rep.stats.class_n("preserve_order.cases", get("evaluations"));
                rep.extra.insert("preserve_order_build".into(), json!({"evaluations": get("evaluations"), "distinct_nontrivial": get("nontrivial"), "violations": get("violations")}));
                for i in 0..get("violations") {
                    rep.violations.push(format!("(preserve_order child #{i}, see VIOLATION lines above)"));
                }
            }
        }
        if !so.contains("PO-RESULT") {
            fault(&format!("preserve_order child gave no result: {}", String::from_utf8_lossy(&o.stderr)));
        }
    }
    for c in ["interleaved", "empty-table", "only-subtables", "mixed-array", "preserve_order.cases", "type.Nested"] {
        rep.require_class(c);
    }
    rep.finish()
}
