//! C03 — unedited documents print back byte-for-byte.

use super::c02::{finish_run, harness_fault};
use super::Args;
use crate::engine::*;
use crate::gen::{gen_doc, GenCfg};
use crate::model::{self, Cmp, Tbl};
use crate::tape::{fnv64, Tape};
use crate::tomlref::{self, Verdict};
use serde_json::json;

/// The normalisation C03 allows, computed on arbitrary valid text with the reference's knowledge
/// of where multi-line string bodies are: BOM dropped, CR LF -> LF outside multi-line string
/// bodies, newline appended if the final statement line has none.
pub fn normalise(text: &str, info: &tomlref::Info) -> String {
    let start = if info.bom { 3 } else { 0 };
    let b = text.as_bytes();
    let mut out: Vec<u8> = Vec::with_capacity(b.len() + 1);
    let mut i = start;
    let in_body = |p: usize| info.ml_bodies.iter().any(|r| r.start <= p && p < r.end);
    while i < b.len() {
        if b[i] == b'\r' && b.get(i + 1) == Some(&b'\n') && !in_body(i) {
            i += 1;
            continue;
        }
        out.push(b[i]);
        i += 1;
    }
    if info.last_stmt_unterminated && info.statements > 0 {
        out.push(b'\n');
    }
    String::from_utf8(out).unwrap()
}

/// The whole of C03 on one text that was not built from a tree (fixture, fuzz input): if the
/// reference says it is valid (and outside U1 / limits), the weak oracles must hold, and when the
/// keys sharing a dotted prefix are adjacent the print-back must equal the reference-based
/// normalisation - `tolerate_f11` accepts differences matching known finding F11's signature.
pub fn check_text(text: &str, tolerate_f11: bool) -> Result<(), Failure> {
    if text.contains("$__") {
        return Ok(());
    }
    let (v, info) = tomlref::decode(text);
    let Verdict::Valid(tree) = v else { return Ok(()) };
    let Ok(doc) = text.parse::<toml_edit::DocumentMut>() else { return Ok(()) };
    let out = doc.to_string();
    let comments: Vec<String> = vec![];
    weak_oracles(&Weak { text, expected: &tree, comments: &comments }, &out, "weak")?;
    let norm = normalise(text, &info);
    let adjacent = tomlref::parse_syntax(text).0.map(|s| is_adjacent(&s)).unwrap_or(false);
    if adjacent && out != norm && !(tolerate_f11 && f11_signature(text, &norm, &out)) {
        return Err(Failure::new("exact", format!("print-back differs from the input (after the three allowed normalisations)\n--- input\n{text:?}\n--- expected\n{norm:?}\n--- printed\n{out:?}\n"), json!({"text": text, "printed": out})));
    }
    Ok(())
}

pub struct Weak<'a> {
    pub text: &'a str,
    pub expected: &'a Tbl,
    pub comments: &'a [String],
}

/// the part of C03 that holds in every mode: valid, same data, comments kept, fixed point
pub fn weak_oracles(w: &Weak, out: &str, sub: &str) -> Result<(), Failure> {
    let case = || json!({"text": w.text, "printed": out});
    let doc2 = out.parse::<toml_edit::DocumentMut>().map_err(|e| {
        Failure::new(sub, format!("printed text does not parse: {e}\n--- input\n{}\n--- printed\n{out}\n---", w.text), case())
    })?;
    if !tomlref::decode(out).0.is_valid() {
        // U1 / limit classes cannot appear in print-outs of generated documents
        return Err(Failure::new(sub, format!("printed text is not valid TOML per the reference: {}\n--- input\n{}\n--- printed\n{out}\n---", tomlref::decode(out).0.short(), w.text), case()));
    }
    model::diff_tbl(&model::from_doc(&doc2), w.expected, Cmp::EXACT).map_err(|e| {
        Failure::new(sub, format!("printed text decodes to different data: {e}\n--- input\n{}\n--- printed\n{out}\n---", w.text), case())
    })?;
    for c in w.comments {
        // marker followed by a non-digit
        let found = out.match_indices(c.as_str()).any(|(i, _)| {
            !out[i + c.len()..].chars().next().map(|ch| ch.is_ascii_digit()).unwrap_or(false)
        });
        if !found {
            return Err(Failure::new(sub, format!("comment {c} lost\n--- input\n{}\n--- printed\n{out}\n---", w.text), case()));
        }
    }
    let out2 = doc2.to_string();
    if out2 != out {
        return Err(Failure::new(sub, format!("printed text is not a fixed point of parse-then-print\n--- first\n{out}\n--- second\n{out2}\n---"), case()));
    }
    Ok(())
}

fn prop(t: &mut Tape, st: &mut Stats, adjacent: bool, f11_probe: bool) -> Result<(), Failure> {
    let mut cfg = GenCfg::default();
    cfg.adjacent = adjacent;
    cfg.f11_safe = adjacent && !f11_probe;
    cfg.decor = t.weighted(&[1, 4, 5]) as u8;
    cfg.budget = 10 + t.below(50);
    if t.chance(1, 12) {
        // wide documents (dozens of tables)
        cfg.many_sections = true;
        cfg.budget = 250 + t.below(250);
    }
    let r = gen_doc(t, &cfg);
    st.eval();
    for c in &r.classes {
        st.class(c);
    }
    st.class_n("f11-excluded-slots", r.f11_excluded as u64);
    let nontrivial = (!r.map.comments.is_empty() || r.classes.iter().any(|c| matches!(*c, "indent" | "ws-in-header" | "ws-after-dot" | "ws-before-dot")))
        && (r.n_sections >= 2 || r.classes.contains(&"multiline-array"));
    if nontrivial {
        st.nontrivial(fnv64(r.text.as_bytes()));
    }
    st.sample(|| json!({"mode": if adjacent {"adjacent"} else {"interleaved"}, "text": r.text}));
    // harness self-check: the reference-based normaliser agrees with the renderer's
    let (v, info) = tomlref::decode(&r.text);
    match v {
        Verdict::Valid(_) => {}
        Verdict::Limit(_) => {
            st.skip("limit");
            return Ok(());
        }
        v => return Err(harness_fault(format!("reference rejects generated document: {}\n{}", v.short(), r.text))),
    }
    let n2 = normalise(&r.text, &info);
    if n2 != r.normalised {
        return Err(harness_fault(format!("normaliser disagreement\n--- text\n{:?}\n--- renderer\n{:?}\n--- reference\n{:?}", r.text, r.normalised, n2)));
    }
    let doc = r.text.parse::<toml_edit::DocumentMut>().map_err(|e| {
        Failure::new("parse", format!("valid document rejected: {e}\n---\n{}\n---", r.text), json!({"text": r.text}))
    })?;
    let out = doc.to_string();
    if adjacent && f11_probe && out != r.normalised {
        if f11_signature(&r.text, &r.normalised, &out) && KNOWN_F11.load(std::sync::atomic::Ordering::Relaxed) {
            st.known("F11", F11_WHAT);
        } else {
            return Err(Failure::new(
                "exact-f11probe",
                format!("print-back differs from the input beyond the signature of known finding F11\n--- input\n{:?}\n--- expected\n{:?}\n--- printed\n{:?}\n", r.text, r.normalised, out),
                json!({"text": r.text, "expected": r.normalised, "printed": out}),
            ));
        }
    } else if adjacent && out != r.normalised {
        return Err(Failure::new(
            "exact",
            format!("print-back differs from the input (after the three allowed normalisations)\n--- input\n{:?}\n--- expected\n{:?}\n--- printed\n{:?}\n", r.text, r.normalised, out),
            json!({"text": r.text, "expected": r.normalised, "printed": out}),
        ));
    }
    weak_oracles(&Weak { text: &r.text, expected: &r.expected, comments: &r.map.comments }, &out, "weak")
}

static KNOWN_F11: std::sync::atomic::AtomicBool = std::sync::atomic::AtomicBool::new(false);
const F11_WHAT: &str = "a key-path component named by several key paths is printed with one stored spelling / dot whitespace for all of them";

fn prop_adjacent(t: &mut Tape, st: &mut Stats) -> Result<(), Failure> {
    prop(t, st, true, false)
}
fn prop_interleaved(t: &mut Tape, st: &mut Stats) -> Result<(), Failure> {
    prop(t, st, false, false)
}
fn prop_f11probe(t: &mut Tape, st: &mut Stats) -> Result<(), Failure> {
    prop(t, st, true, true)
}

/// keys sharing a dotted prefix are adjacent: in every section body (and inline table) the lines
/// passing through the same dotted table are contiguous
pub fn is_adjacent(stmts: &[tomlref::Stmt]) -> bool {
    fn pairs_adjacent(paths: &[Vec<String>]) -> bool {
        let mut prefixes: std::collections::HashSet<Vec<String>> = Default::default();
        for p in paths {
            for n in 1..p.len() {
                prefixes.insert(p[..n].to_vec());
            }
        }
        for pre in prefixes {
            let idx: Vec<usize> = paths.iter().enumerate().filter(|(_, p)| p.len() > pre.len() && p[..pre.len()] == pre[..]).map(|(i, _)| i).collect();
            if idx.last().unwrap() - idx[0] + 1 != idx.len() {
                return false;
            }
        }
        true
    }
    fn val_ok(v: &tomlref::Val) -> bool {
        match &v.kind {
            tomlref::ValKind::Scalar(_) => true,
            tomlref::ValKind::Array(a) => a.iter().all(val_ok),
            tomlref::ValKind::Inline(p) => {
                let paths: Vec<Vec<String>> = p.iter().map(|(k, _)| k.iter().map(|k| k.name.clone()).collect()).collect();
                pairs_adjacent(&paths) && p.iter().all(|(_, v)| val_ok(v))
            }
        }
    }
    let mut cur: Vec<Vec<String>> = vec![];
    for s in stmts {
        match s {
            tomlref::Stmt::Header { .. } => {
                if !pairs_adjacent(&cur) {
                    return false;
                }
                cur.clear();
            }
            tomlref::Stmt::KeyVal { path, val, .. } => {
                if !val_ok(val) {
                    return false;
                }
                cur.push(path.iter().map(|k| k.name.clone()).collect());
            }
        }
    }
    pairs_adjacent(&cur)
}

pub fn run(args: Args) -> ! {
    let mut rep = Report::new("C03", args.tier, args.seed);
    rep.rule = "tree-first documents with decoration in every slot, BOM, CRLF/LF mixes (also inside multi-line strings), missing final newline, all legal section orders; adjacent mode: DocumentMut::to_string() must equal the renderer's normalised text exactly; every mode: output parses, decodes to the same tree, keeps every (uniquely marked) comment, is a fixed point; plus the 191 valid fixtures with the reference-based normaliser. non-trivial = has a comment or irregular whitespace AND (>= 2 sections or a multi-line array); distinct by text".into();
    rep.assumptions = vec![
        "repeated key-path prefix components are spelled consistently in adjacent mode (known finding F11 excluded by construction, counted as f11-excluded-slots; probed separately)".into(),
    ];
    KNOWN_F11.store(rep.is_known("F11"), std::sync::atomic::Ordering::Relaxed);
    let replay_one = |rep: &mut Report, p: &str, sub: &str| {
        let j = super::load_replay_any(p);
        if j["raw"] == true {
            if let Some(t) = j["case"]["text"].as_str() {
                rep.stats.eval();
                if let Err(f) = check_text(t, rep.is_known("F11")) {
                    rep.violation(sub, None, &f);
                }
            }
            return;
        }
        let tape = super::replay_tape(&j);
        let which = j["sub"].as_str().unwrap_or("adjacent").to_string();
        let mut st = Stats::new();
        let r = if which.contains("interleaved") {
            guarded(&prop_interleaved, &tape, &mut st)
        } else if which.contains("f11probe") {
            guarded(&prop_f11probe, &tape, &mut st)
        } else {
            guarded(&prop_adjacent, &tape, &mut st)
        };
        if let Err(f) = r {
            rep.violation(sub, Some(&tape), &f);
        }
        rep.stats.merge(st);
    };
    if let Some(p) = &args.replay {
        replay_one(&mut rep, p, "replay");
        rep.stats.nontrivial.insert(1);
        rep.stats.nontrivial.insert(2);
        rep.finish();
    }
    for p in super::regression_files("C03") {
        replay_one(&mut rep, &p, "regression");
    }
    // fixtures
    let fx = crate::corpus::load();
    for f in fx.iter().filter(|f| f.valid) {
        let text = std::str::from_utf8(&f.bytes).unwrap();
        let (v, info) = tomlref::decode(text);
        let Verdict::Valid(tree) = v else { continue };
        rep.stats.eval();
        rep.stats.class("fixture");
        let Ok(doc) = text.parse::<toml_edit::DocumentMut>() else { continue };
        let out = doc.to_string();
        let comments: Vec<String> = vec![];
        if let Err(fl) = weak_oracles(&Weak { text, expected: &tree, comments: &comments }, &out, "fixture-weak") {
            rep.violation("fixture", None, &fl);
            continue;
        }
        let norm = normalise(text, &info);
        let adjacent = tomlref::parse_syntax(text).0.map(|s| is_adjacent(&s)).unwrap_or(false);
        if !adjacent {
            rep.stats.class("fixture-not-adjacent");
        }
        if adjacent && out != norm {
            // the only tolerated difference: known finding F11
            if f11_signature(text, &norm, &out) && rep.is_known("F11") {
                rep.stats.known("F11", F11_WHAT);
            } else {
                let fl = Failure::new("fixture-exact", format!("{}: print-back differs\n--- expected\n{norm:?}\n--- printed\n{out:?}", f.name), json!({"text": text, "printed": out}));
                rep.violation("fixture", None, &fl);
            }
        }
    }
    let cases = args.tier.pick(240_000, 3_000_000);
    let run = run_tape("C03.adjacent", &prop_adjacent, 3000, cases, args.seed, workers());
    finish_run(&mut rep, "adjacent", run);
    let run = run_tape("C03.interleaved", &prop_interleaved, 3000, cases / 2, args.seed, workers());
    finish_run(&mut rep, "interleaved", run);
    let run = run_tape("C03.f11probe", &prop_f11probe, 3000, cases / 4, args.seed, workers());
    finish_run(&mut rep, "f11probe", run);
    if args.tier == Tier::Thorough && rep.violations.is_empty() {
        let seeds: Vec<Vec<u8>> = fx.iter().filter(|f| f.valid && f.bytes.len() <= 4096).map(|f| f.bytes.clone()).collect();
        fuzz_campaign(&mut rep, "fuzz_c03", &seeds, 4_000_000, 4096, workers());
    }
    for c in ["comment-line", "eol-comment", "comment-in-array", "trailing-comment", "ws-in-header", "ws-after-dot", "ws-before-dot", "indent", "trailing-comma", "decor-in-empty-array", "decor-in-empty-inline", "sub-before-super", "interleaved-aot", "crlf", "crlf-in-ml-string", "bom", "no-final-newline", "multiline-array"] {
        rep.require_class(c);
    }
    rep.finish()
}

/// One occurrence of a key path in a document: the byte region it occupies and its components.
struct PathOcc {
    region: std::ops::Range<usize>,
    /// (identity of the table entry this component names, raw text of the component incl. the
    /// whitespace between it and the neighbouring dots / brackets)
    comps: Vec<(String, String)>,
}

fn path_occurrences(text: &str) -> Option<Vec<PathOcc>> {
    use tomlref::{Stmt, Val, ValKind};
    let stmts = tomlref::parse_syntax(text).0.ok()?;
    let mut aot_counts: std::collections::HashMap<String, usize> = Default::default();
    let mut out = vec![];
    fn ident(base: &str, name: &str) -> String {
        format!("{base}/{name:?}")
    }
    // identity of a header path: append the element index after every array-of-tables component
    fn comps_for(
        text: &str,
        base: &str,
        keys: &[tomlref::KeyTok],
        region: &std::ops::Range<usize>,
        aot_counts: &std::collections::HashMap<String, usize>,
    ) -> (Vec<(String, String)>, String) {
        let mut comps = vec![];
        let mut id = base.to_string();
        for (i, k) in keys.iter().enumerate() {
            // raw = from the dot before this component (or the region start) to the dot after it
            // (or the region end): the key token plus the whitespace that belongs to it
            let dot_between = |a: usize, b: usize| a + text[a..b].find('.').expect("dot between keys");
            let lo = if i == 0 { region.start } else { dot_between(keys[i - 1].span.end, k.span.start) + 1 };
            let hi = if i + 1 == keys.len() { region.end } else { dot_between(k.span.end, keys[i + 1].span.start) };
            let raw = text[lo..hi].to_string();
            id = ident(&id, &k.name);
            comps.push((id.clone(), raw));
            if let Some(n) = aot_counts.get(&id) {
                id = format!("{id}[{}]", n - 1);
            }
        }
        (comps, id)
    }
    fn walk_val(
        text: &str,
        v: &Val,
        base: &str,
        aot_counts: &std::collections::HashMap<String, usize>,
        out: &mut Vec<PathOcc>,
    ) {
        match &v.kind {
            ValKind::Scalar(_) => {}
            ValKind::Array(a) => {
                for (i, e) in a.iter().enumerate() {
                    walk_val(text, e, &format!("{base}[{i}]"), aot_counts, out);
                }
            }
            ValKind::Inline(pairs) => {
                for (keys, v) in pairs {
                    let region = keys[0].span.start..keys.last().unwrap().span.end;
                    let (comps, id) = comps_for(text, base, keys, &region, aot_counts);
                    out.push(PathOcc { region, comps });
                    walk_val(text, v, &id, aot_counts, out);
                }
            }
        }
    }
    let mut section = String::new();
    for st in &stmts {
        match st {
            Stmt::Header { path, aot, span } => {
                let w = if *aot { 2 } else { 1 };
                let region = span.start + w..span.end - w;
                // count first so that the last component resolves to the new element afterwards
                let (comps, _) = comps_for(text, "", path, &region, &aot_counts);
                let last_id = comps.last().unwrap().0.clone();
                if *aot {
                    *aot_counts.entry(last_id.clone()).or_insert(0) += 1;
                }
                let (_, id) = comps_for(text, "", path, &region, &aot_counts);
                out.push(PathOcc { region, comps });
                section = id;
            }
            Stmt::KeyVal { path, val, .. } => {
                let region = path[0].span.start..path.last().unwrap().span.end;
                let (comps, id) = comps_for(text, &section, path, &region, &aot_counts);
                out.push(PathOcc { region, comps });
                walk_val(text, val, &id, &aot_counts, &mut out);
            }
        }
    }
    Some(out)
}

/// Signature of known finding F11. `expected` and `printed` are both valid documents; they must
/// be identical outside key-path regions (dotted keys of key/value pairs, the inside of header
/// brackets), contain the same decoded key paths in the same order, and every component whose
/// raw spelling / surrounding whitespace differs must name a table entry that is named by at least
/// two key paths of the document (one key is stored per table entry, so the occurrences share it;
/// a key path component occurring once is still required to be verbatim).
pub fn f11_signature(_input: &str, expected: &str, printed: &str) -> bool {
    let (Some(eo), Some(po)) = (path_occurrences(expected), path_occurrences(printed)) else { return false };
    if eo.len() != po.len() {
        return false;
    }
    // skeleton outside the regions
    let skeleton = |text: &str, occ: &[PathOcc]| {
        let mut s = String::new();
        let mut pos = 0;
        for o in occ {
            s.push_str(&text[pos..o.region.start]);
            s.push('\u{0}');
            pos = o.region.end;
        }
        s.push_str(&text[pos..]);
        s
    };
    if skeleton(expected, &eo) != skeleton(printed, &po) {
        return false;
    }
    // how often each table entry is named by a key path anywhere in the document
    let mut count: std::collections::HashMap<&str, usize> = Default::default();
    for e in &eo {
        for (id, _) in &e.comps {
            *count.entry(id.as_str()).or_insert(0) += 1;
        }
    }
    let mut any = false;
    for (e, p) in eo.iter().zip(po.iter()) {
        if e.comps.len() != p.comps.len() {
            return false;
        }
        for ((eid, eraw), (pid, praw)) in e.comps.iter().zip(p.comps.iter()) {
            if eid != pid {
                return false;
            }
            if eraw != praw {
                // only a component shared with another key path may differ
                if count.get(eid.as_str()).copied().unwrap_or(0) < 2 {
                    return false;
                }
                any = true;
            }
        }
    }
    any
}
