//! C07 — serde serialization never loses data: it round-trips or returns an error.

use super::c02::finish_run;
use super::Args;
use crate::engine::*;
use crate::model::{self, Cmp, Node, Tbl};
use crate::serdefam::*;
use crate::tape::{fnv64, Tape};
use crate::tomlref::{self, Verdict};
use serde::de::DeserializeOwned;
use serde::Serialize;
use serde_json::json;
use std::collections::BTreeMap;

pub const F4_WHAT: &str = "toml_edit::ser::to_string_pretty turns a table nested inside an inline table of an array element into a standard table, which the inline printer then skips: `a = [\"s\", { x = { y = 1 } }]` is written as `a = [\"s\", { x = {} }]`-like text with the inner content lost";
static KNOWN_F4: std::sync::atomic::AtomicBool = std::sync::atomic::AtomicBool::new(false);

pub fn text_model(text: &str) -> Result<Tbl, String> {
    match tomlref::decode(text).0 {
        Verdict::Valid(t) => Ok(t),
        Verdict::Limit(_) => text.parse::<toml_edit::DocumentMut>().map(|d| model::from_doc(&d)).map_err(|e| e.to_string()),
        v => Err(format!("not valid TOML per the reference: {}", v.short())),
    }
}

/// all text serializers; (name, result)
pub fn serializers<T: Serialize>(v: &T) -> Vec<(&'static str, Result<String, String>)> {
    vec![
        ("toml::to_string", toml::to_string(v).map_err(|e| e.to_string())),
        ("toml::to_string_pretty", toml::to_string_pretty(v).map_err(|e| e.to_string())),
        ("toml_edit::ser::to_string", toml_edit::ser::to_string(v).map_err(|e| e.to_string())),
        ("toml_edit::ser::to_string_pretty", toml_edit::ser::to_string_pretty(v).map_err(|e| e.to_string())),
        ("toml_edit::ser::to_document", toml_edit::ser::to_document(v).map(|d| d.to_string()).map_err(|e| e.to_string())),
    ]
}

pub fn check_value<T: Serialize + DeserializeOwned + std::fmt::Debug>(ty: &str, v: &T, st: &mut Stats) -> Result<(), Failure> {
    st.eval();
    let sd = record(v);
    if sd_nontrivial(&sd, 0) {
        st.nontrivial(fnv64(format!("{ty}{sd:?}").as_bytes()));
    }
    let expected = expected_doc(&sd);
    let case = || json!({"type": ty, "value": format!("{v:?}")});
    st.class(&format!("type.{ty}"));
    for (who, res) in serializers(v) {
        match (&res, &expected) {
            (Err(_), Err(_)) => {
                st.class("unsupported-rejected");
            }
            (Err(_), Ok(_)) if root_variant_may_fail(&sd) => {
                st.class("root-variant-rejected");
            }
            (Err(e), Ok(_)) => {
                return Err(Failure::new("spurious-error", format!("{who} fails for a supported value of {ty}: {e}\nvalue: {v:?}"), case()));
            }
            (Ok(text), Err(why)) => {
                return Err(Failure::new("unsupported-accepted", format!("{who} serializes an unsupported shape ({why:?}) of {ty} instead of returning an error:\n{text}\nvalue: {v:?}"), case()));
            }
            (Ok(text), Ok(want)) => {
                let m = text_model(text).map_err(|e| Failure::new("invalid-output", format!("{who} for {ty} produced text that is {e}\n---\n{text}\n---\nvalue: {v:?}"), case()))?;
                if let Err(e) = model::diff_tbl(&m, want, Cmp::SERDE) {
                    if who == "toml_edit::ser::to_string_pretty" && KNOWN_F4.load(std::sync::atomic::Ordering::Relaxed) && f4_signature(want, &m) {
                        st.known("F4", F4_WHAT);
                        continue;
                    }
                    return Err(Failure::new("wrong-tree", format!("{who} for {ty}: the text does not carry the value's data: {e}\n---\n{text}\n---\nvalue: {v:?}"), case()));
                }
                for (route, back) in [("toml::from_str", toml::from_str::<T>(text).map_err(|e| e.to_string())), ("toml_edit::de::from_str", toml_edit::de::from_str::<T>(text).map_err(|e| e.to_string()))] {
                    match back {
                        Ok(b) => {
                            if !sd_eq(&record(&b), &sd) {
                                return Err(Failure::new("roundtrip", format!("{who} then {route} for {ty}: value changed\n---\n{text}\n---\nbefore: {v:?}\nafter:  {b:?}"), case()));
                            }
                        }
                        Err(e) => return Err(Failure::new("roundtrip", format!("{who} for {ty}: output does not deserialize back with {route}: {e}\n---\n{text}\n---\nvalue: {v:?}"), case())),
                    }
                }
            }
        }
    }
    // the value serializers: any value, written as a single TOML value
    {
        let want_node = expected_node(&sd);
        let mut out = String::new();
        let r1 = v.serialize(toml::ser::ValueSerializer::new(&mut out)).map(|()| out).map_err(|e| e.to_string());
        let r2 = v.serialize(toml_edit::ser::ValueSerializer::new()).map(|val| val.to_string()).map_err(|e| e.to_string());
        for (who, res) in [("toml::ser::ValueSerializer", r1), ("toml_edit::ser::ValueSerializer", r2)] {
            match (&res, &want_node) {
                (Err(_), Err(_)) => st.class("value.unsupported-rejected"),
                (Err(_), Ok(_)) if root_variant_may_fail(&sd) => st.class("value.root-variant-rejected"),
                (Err(e), Ok(_)) => return Err(Failure::new("spurious-error", format!("{who} fails for a supported value of {ty}: {e}\nvalue: {v:?}"), case())),
                (Ok(text), Err(why)) => {
                    return Err(Failure::new("unsupported-accepted", format!("{who} writes an unsupported shape ({why:?}) of {ty} instead of returning an error: {text}\nvalue: {v:?}"), case()));
                }
                (Ok(text), Ok(want)) => {
                    st.class("value.written");
                    let doc = format!("k = {text}\n");
                    let m = text_model(&doc).map_err(|e| Failure::new("invalid-output", format!("{who} for {ty} produced a value that is {e}: {text:?}\nvalue: {v:?}"), case()))?;
                    let got = m.get("k").cloned().ok_or_else(|| Failure::new("invalid-output", format!("{who} for {ty}: {text:?} is not one value"), case()))?;
                    model::diff(&got, want, Cmp::SERDE).map_err(|e| Failure::new("wrong-tree", format!("{who} for {ty}: the value text does not carry the data: {e}\ntext: {text}\nvalue: {v:?}"), case()))?;
                    match T::deserialize(toml::de::ValueDeserializer::new(text)) {
                        Ok(b) if sd_eq(&record(&b), &sd) => {}
                        Ok(b) => return Err(Failure::new("roundtrip", format!("{who} then toml::de::ValueDeserializer for {ty}: value changed\ntext: {text}\nbefore: {v:?}\nafter:  {b:?}"), case())),
                        Err(e) => return Err(Failure::new("roundtrip", format!("{who} for {ty}: the value text does not deserialize back: {e}\ntext: {text}\nvalue: {v:?}"), case())),
                    }
                }
            }
        }
    }
    // Value::try_from / Table::try_from
    for (who, res) in [
        ("toml::Value::try_from", toml::Value::try_from(v).map_err(|e| e.to_string())),
        ("toml::Table::try_from", toml::Table::try_from(v).map(toml::Value::Table).map_err(|e| e.to_string())),
    ] {
        match (&res, &expected) {
            (Err(_), Err(_)) => {}
            (Err(_), Ok(_)) if root_variant_may_fail(&sd) => {}
            (Err(e), Ok(_)) => return Err(Failure::new("spurious-error", format!("{who} fails for a supported value of {ty}: {e}\nvalue: {v:?}"), case())),
            (Ok(val), Err(why)) => {
                // a non-table root is fine for Value::try_from (it is a value, not a document)
                if *why == Unsupported::RootNotTable && who == "toml::Value::try_from" {
                    continue;
                }
                if *why == Unsupported::NoneInSeq && KNOWN_F19.load(std::sync::atomic::Ordering::Relaxed) {
                    st.known("F19", F19_WHAT);
                    continue;
                }
                return Err(Failure::new("unsupported-accepted", format!("{who} converts an unsupported shape ({why:?}) of {ty}: {val:?}"), case()));
            }
            (Ok(val), Ok(want)) => {
                if DATES_IN_VALUE_KNOWN.load(std::sync::atomic::Ordering::Relaxed) && sd_has_datetime(&sd) {
                    st.known("F5", F5_WHAT);
                    continue;
                }
                model::diff(&model::from_toml_value(val), &Node::Table(want.clone()), Cmp::SERDE)
                    .map_err(|e| Failure::new("wrong-tree", format!("{who} for {ty}: tree differs from the value's data: {e}\nvalue: {v:?}\ngot: {val:?}"), case()))?;
                match val.clone().try_into::<T>() {
                    Ok(b) => {
                        if !sd_eq(&record(&b), &sd) {
                            return Err(Failure::new("roundtrip", format!("{who} then try_into for {ty}: value changed\nbefore: {v:?}\nafter:  {b:?}"), case()));
                        }
                    }
                    Err(e) => return Err(Failure::new("roundtrip", format!("{who} for {ty}: try_into fails: {e}\nvalue: {v:?}"), case())),
                }
            }
        }
    }
    Ok(())
}

pub const F19_WHAT: &str = "toml::Value::try_from / Table::try_from silently drop a struct field or map entry whose value contains a None or unit nested inside a sequence (or is a None map value): the UnsupportedNone error of the nested element is swallowed as if the field itself were None (`struct {a: Vec<Option<i32>>}` with a = [None] converts to `{}`)";
static KNOWN_F19: std::sync::atomic::AtomicBool = std::sync::atomic::AtomicBool::new(false);
pub const F5_WHAT: &str = "the stand-alone toml::Value serializer/deserializer does not know date-times: Value::try_from(struct with a Datetime) yields a table {\"$__toml_private_datetime\" = \"...\"} and Value::try_into::<struct with a Datetime> fails";
pub static DATES_IN_VALUE_KNOWN: std::sync::atomic::AtomicBool = std::sync::atomic::AtomicBool::new(false);

pub fn sd_has_datetime(sd: &SD) -> bool {
    match sd {
        SD::Datetime(_) => true,
        SD::Some(x) | SD::Newtype(x) | SD::NewtypeVariant(_, x) => sd_has_datetime(x),
        SD::Seq(v) | SD::TupleVariant(_, v) => v.iter().any(sd_has_datetime),
        SD::Map(m) => m.iter().any(|(_, v)| sd_has_datetime(v)),
        SD::Struct(_, f) | SD::StructVariant(_, f) => f.iter().any(|(_, v)| sd_has_datetime(v)),
        _ => false,
    }
}

/// F4: the only difference is that some table nested inside an inline table that sits in an array
/// came out empty / missing
fn f4_signature(want: &Tbl, got: &Tbl) -> bool {
    fn strip(n: &Node, in_array: bool, depth_in_inline: usize) -> Node {
        match n {
            Node::Array(a) => Node::Array(a.iter().map(|e| strip(e, true, 0)).collect()),
            Node::Aot(a) => Node::Array(a.iter().map(|t| strip(&Node::Table(t.clone()), true, 0)).collect()),
            Node::Table(t) => {
                let mut out = Tbl::new(t.kind);
                for (k, v) in &t.entries {
                    if in_array && depth_in_inline >= 1 && matches!(v, Node::Table(_)) {
                        // tables at depth >= 2 inside an array element are what F4 loses
                        out.entries.push((k.clone(), Node::Table(Tbl::new(t.kind))));
                        continue;
                    }
                    out.entries.push((k.clone(), strip(v, in_array, if in_array { depth_in_inline + 1 } else { 0 })));
                }
                Node::Table(out)
            }
            o => o.clone(),
        }
    }
    let (a, b) = (strip(&Node::Table(want.clone()), false, 0), strip(&Node::Table(got.clone()), false, 0));
    model::diff(&a, &b, Cmp::SERDE).is_ok()
}

fn prop(t: &mut Tape, st: &mut Stats) -> Result<(), Failure> {
    match t.below(19) {
        17 | 18 => check_value("Attrs", &g_attrs(t), st),
        0 => check_value("Scalars", &g_scalars(t), st),
        1 => check_value("Opts", &g_opts(t), st),
        2 | 3 => check_value("Seqs", &g_seqs(t), st),
        4 | 5 => check_value("Maps", &g_maps(t), st),
        6 => check_value("Dates", &g_dates(t), st),
        7 | 8 => {
            let v = g_nested(t);
            st.sample(|| json!({"type": "Nested", "value": format!("{v:?}"), "toml": toml::to_string(&v).unwrap_or_default()}));
            check_value("Nested", &v, st)
        }
        9 => check_value("BTreeMap<String,E>", &g_map(t, 4, g_e), st),
        10 => check_value("BTreeMap<String,Vec<BTreeMap<String,E>>>", &g_map(t, 3, |t| g_vec(t, 3, |t| g_map(t, 2, g_e))), st),
        11 | 15 => {
            // unsupported: None / unit in a sequence, None as map value
            // (a None *map value* is treated by every serializer like an absent optional field and
            // is not among the documented error shapes; it is outside the generated family)
            match t.below(5) {
                0 => check_value("BadNoneInSeq", &BadNoneInSeq { a: g_vec(t, 4, |t| g_opt(t, g_i32)) }, st),
                1 => check_value("BadUnitInSeq", &BadUnitInSeq { a: vec![(); t.small(3)] }, st),
                2 | 3 => check_value("BadCtx", &g_bad_ctx(t), st),
                _ => check_value("BTreeMap<String,BadCtx>", &g_map(t, 2, g_bad_ctx), st),
            }
        }
        12 => {
            let mut m = BTreeMap::new();
            for _ in 0..t.small(3) {
                m.insert(g_i32(t), g_i32(t));
            }
            check_value("BadIntKey", &BadIntKey { a: m }, st)
        }
        13 => check_value("BadU64", &BadU64 { a: if t.chance(1, 2) { u64::MAX - t.below(5) as u64 } else { t.u64() } }, st),
        14 => {
            // roots that are not tables
            match t.below(6) {
                0 => check_value("root Vec<i32>", &g_vec(t, 3, g_i32), st),
                1 => check_value("root i32", &g_i32(t), st),
                2 => check_value("root String", &g_string(t), st),
                3 => check_value("root E", &g_e(t), st),
                4 => check_value("root TupS", &TupS(g_i32(t), g_string(t), true), st),
                _ => check_value("root NewT", &NewT(gen_int_(t)), st),
            }
        }
        _ => check_value("Inner", &g_inner(t), st),
    }
}

fn gen_int_(t: &mut Tape) -> i64 {
    crate::scalars::gen_int(t)
}

pub fn run(args: Args) -> ! {
    let mut rep = Report::new("C07", args.tier, args.seed);
    rep.rule = "generated values of a family of derive(Serialize, Deserialize) types (all integer widths, f32/f64, bool, char, strings, options of scalars/tables/enums, all four enum variant kinds alone / in Vec / in maps / nested, tuples, tuple structs, newtypes, Vec<Vec<_>>, maps keyed by strings and unit variants, empty containers, date-times in fields, sequences, options and maps) plus unsupported shapes (None / unit in a sequence, None as a map value, integer map keys, u64 beyond i64, non-table roots). For toml::to_string, to_string_pretty, toml_edit::ser::to_string, to_string_pretty, to_document, Value::try_from and Table::try_from, and for the two ValueSerializers (any value written as one TOML value, read back with toml::de::ValueDeserializer): the result is an error exactly for the unsupported shapes; otherwise the text is valid (reference), decodes to the tree computed from an independent model serializer by the documented mapping, and deserializes (toml::from_str and toml_edit::de::from_str / try_into) to a value equal under a NaN-total equality. non-trivial = a variant, table or option at depth >= 2; distinct by (type, value)".into();
    rep.assumptions = vec!["the documented mapping serde data model -> TOML as implemented in serdefam::expected_node".into()];
    KNOWN_F4.store(rep.is_known("F4"), std::sync::atomic::Ordering::Relaxed);
    KNOWN_F19.store(rep.is_known("F19"), std::sync::atomic::Ordering::Relaxed);
    DATES_IN_VALUE_KNOWN.store(rep.is_known("F5"), std::sync::atomic::Ordering::Relaxed);
    if let Some(p) = &args.replay {
        let j = super::load_replay(p);
        let tape = super::replay_tape(&j);
        let mut st = Stats::new();
        if let Err(f) = guarded(&prop, &tape, &mut st) {
            rep.violation("replay", Some(&tape), &f);
        }
        rep.stats.merge(st);
        rep.stats.nontrivial.insert(1);
        rep.stats.nontrivial.insert(2);
        rep.finish();
    }
    for p in super::regression_files("C07") {
        let j = super::load_replay(&p);
        let tape = super::replay_tape(&j);
        let mut st = Stats::new();
        if let Err(f) = guarded(&prop, &tape, &mut st) {
            rep.violation("regression", Some(&tape), &f);
        }
        rep.stats.merge(st);
    }
    let run = run_tape("C07.values", &prop, 1500, args.tier.pick(300_000, 3_000_000), args.seed, workers());
    finish_run(&mut rep, "values", run);
    for c in ["type.Scalars", "type.Opts", "type.Seqs", "type.Maps", "type.Dates", "type.Nested", "type.BadNoneInSeq", "type.BadCtx", "type.BadIntKey", "type.BadU64", "type.root E", "unsupported-rejected"] {
        rep.require_class(c);
    }
    rep.finish()
}
