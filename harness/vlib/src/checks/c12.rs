//! C12 — date-times: the standalone parser, the document parser and the printer agree.

use super::c02::finish_run;
use super::Args;
use crate::engine::*;
use crate::model::Dt;
use crate::scalars::*;
use crate::tape::{fnv64, Tape};
use crate::tomlref;
use serde::{Deserialize, Serialize};
use serde_json::json;

pub const F2_WHAT: &str = "the standalone date-time parser accepts hour 24 and offsets the grammar rejects (`+24:00`, `+00:60`..`+00:99`, `-00:60`), silently normalising e.g. `+00:99` to +01:39";
static KNOWN_F2: std::sync::atomic::AtomicBool = std::sync::atomic::AtomicBool::new(false);

fn lib_standalone(s: &str) -> Option<Dt> {
    s.parse::<toml_datetime::Datetime>().ok().map(|d| Dt::from_lib(&d))
}
/// accepted *as a date-time* by the document grammar's value parser
fn lib_value(s: &str) -> Option<Dt> {
    match s.parse::<toml_edit::Value>() {
        Ok(toml_edit::Value::Datetime(f)) => Some(Dt::from_lib(f.value())),
        _ => None,
    }
}
fn lib_doc(s: &str) -> Option<Dt> {
    let d = format!("k = {s}\n").parse::<toml_edit::DocumentMut>().ok()?;
    d.get("k")?.as_datetime().map(Dt::from_lib)
}

/// F2's signature: only the standalone parser accepts, and the string has hour 24 or an offset
/// hour of 24 or an offset minute >= 60
fn f2_signature(s: &str) -> bool {
    let b = s.as_bytes();
    // time part: after an optional date and delimiter
    let tstart = if b.len() >= 11 && b[4] == b'-' { 11 } else { 0 };
    let hour24 = b.len() >= tstart + 2 && &s[tstart..tstart + 2] == "24";
    // offset: last 6 chars
    let off = if b.len() >= 6 && (b[b.len() - 6] == b'+' || b[b.len() - 6] == b'-') && b[b.len() - 3] == b':' { Some(&s[b.len() - 5..]) } else { None };
    let bad_off = off.map(|o| {
        let h: u32 = o[..2].parse().unwrap_or(0);
        let m: u32 = o[3..].parse().unwrap_or(0);
        h >= 24 || m >= 60
    }).unwrap_or(false);
    hour24 || bad_off
}

#[derive(Serialize, Deserialize, Debug, PartialEq)]
struct Holder {
    d: toml_datetime::Datetime,
}

/// the oracles on one string
pub fn check_string(s: &str, st: &mut Stats) -> Result<(), Failure> {
    st.eval();
    let a = lib_standalone(s);
    let b = lib_value(s);
    let r = tomlref::datetime(s).ok();
    let case = || json!({"string": s, "standalone": a.map(|d| d.canonical()), "document_grammar": b.map(|d| d.canonical()), "reference": r.map(|d| d.canonical())});
    st.class(match (a.is_some(), b.is_some()) {
        (true, true) => "both-accept",
        (false, false) => "both-reject",
        (true, false) => "only-standalone",
        (false, true) => "only-grammar",
    });
    if a.is_some() != b.is_some() {
        if a.is_some() && KNOWN_F2.load(std::sync::atomic::Ordering::Relaxed) && f2_signature(s) {
            st.known("F2", F2_WHAT);
            return Ok(());
        }
        let wrong = if r.is_some() == a.is_some() { "the document grammar" } else { "the standalone parser" };
        return Err(Failure::new(
            "verdict",
            format!("{s:?}: Datetime::from_str {} but Value::from_str {} it as a date-time (per the reference, {wrong} is wrong)", if a.is_some() { "accepts" } else { "rejects" }, if b.is_some() { "accepts" } else { "rejects" }),
            case(),
        ));
    }
    if let (Some(x), Some(y)) = (a, b) {
        if x != y {
            return Err(Failure::new("fields", format!("{s:?}: standalone {x:?} vs document grammar {y:?}"), case()));
        }
        // inside a document too
        if lib_doc(s) != Some(x) {
            return Err(Failure::new("fields", format!("`k = {s}` decodes to {:?}, standalone {x:?}", lib_doc(s)), case()));
        }
        check_value(&x, st)?;
    }
    Ok(())
}

/// printing any date-time value yields text both parsers accept and that parses back identically
pub fn check_value(d: &Dt, _st: &mut Stats) -> Result<(), Failure> {
    let lib = d.to_lib();
    let printed = lib.to_string();
    let case = || json!({"value": d.canonical(), "printed": printed});
    let a = lib_standalone(&printed);
    let b = lib_value(&printed);
    if a != Some(*d) {
        return Err(Failure::new("print", format!("{:?} prints as {printed:?}, which Datetime::from_str reads as {a:?}", d), case()));
    }
    if b != Some(*d) {
        return Err(Failure::new("print", format!("{:?} prints as {printed:?}, which the document grammar reads as {b:?}", d), case()));
    }
    if lib_doc(&printed) != Some(*d) {
        return Err(Failure::new("print", format!("`k = {printed}` is not a readable document for {:?}", d), case()));
    }
    // construction API
    let via_api = toml_edit::Value::from(lib).to_string();
    if lib_value(&via_api) != Some(*d) {
        return Err(Failure::new("print", format!("toml_edit::Value::from(datetime) prints {via_api:?}, not readable back as {:?}", d), case()));
    }
    // serde bridge
    let h = Holder { d: lib };
    for (who, s) in [("toml::to_string", toml::to_string(&h).map_err(|e| e.to_string())), ("toml_edit::ser::to_string", toml_edit::ser::to_string(&h).map_err(|e| e.to_string()))] {
        let s = s.map_err(|e| Failure::new("serde", format!("{who} fails for {printed}: {e}"), case()))?;
        let back: Holder = toml::from_str(&s).map_err(|e| Failure::new("serde", format!("{who}: {s:?} does not read back: {e}"), case()))?;
        if back != h {
            return Err(Failure::new("serde", format!("{who}: {printed} -> {s:?} -> {:?}", back.d), case()));
        }
    }
    Ok(())
}

const YEARS: [&str; 8] = ["0000", "0001", "1900", "1999", "2000", "2024", "2100", "9999"];
const MONTHS: [&str; 7] = ["00", "01", "02", "04", "11", "12", "13"];
const DAYS: [&str; 8] = ["00", "01", "28", "29", "30", "31", "32", "99"];
const HOURS: [&str; 4] = ["00", "12", "23", "24"];
const MINUTES: [&str; 4] = ["00", "30", "59", "60"];
const SECONDS: [&str; 5] = ["00", "30", "59", "60", "61"];
const FRACS: [&str; 15] = ["", ".0", ".5", ".999999999", ".000000001", ".1234567891", ".9999999999", ".", ".12345678901234567890", ".9999999999999999999", ".99999999999999999999", ".18446744073709551616", ".00000000000000000000000000000", ".999999999999999999999999999999", ".1234567890123456789012345678901234567890"];
const OFFSETS: [&str; 16] = ["", "Z", "z", "+00:00", "-00:00", "+23:59", "-23:59", "+24:00", "-24:00", "+00:60", "-00:60", "+00:99", "+12:30", "+1:00", "+0100", "+23:60"];
const DELIMS: [&str; 3] = ["T", "t", " "];

fn prop_product(t: &mut Tape, st: &mut Stats) -> Result<(), Failure> {
    let date = format!("{}-{}-{}", t.pick(&YEARS), t.pick(&MONTHS), t.pick(&DAYS));
    let time = format!("{}:{}:{}{}", t.pick(&HOURS), t.pick(&MINUTES), t.pick(&SECONDS), t.pick(&FRACS));
    let s = match t.below(4) {
        0 => format!("{date}{}{time}{}", t.pick(&DELIMS), t.pick(&OFFSETS)),
        1 => format!("{date}{}{time}", t.pick(&DELIMS)),
        2 => format!("{time}{}", t.pick(&OFFSETS)),
        _ => format!("{date}{}", t.pick(&OFFSETS)),
    };
    st.class("edge-product");
    st.nontrivial(fnv64(s.as_bytes()));
    st.sample(|| json!({"string": s}));
    check_string(&s, st)
}

const ALPHABET: [char; 20] = ['0', '1', '2', '3', '5', '6', '9', '-', ':', '.', '+', 'T', 't', 'Z', 'z', ' ', '4', '7', '8', '_'];

fn prop_mutant(t: &mut Tape, st: &mut Stats) -> Result<(), Failure> {
    let d = gen_dt(t);
    let mut s: Vec<char> = spell_dt(&d, t).chars().collect();
    let n = 1 + t.below(2);
    for _ in 0..n {
        let pos = t.below(s.len() + 1);
        match t.below(5) {
            0 if pos < s.len() => s[pos] = *t.pick(&ALPHABET),
            1 => s.insert(pos, *t.pick(&ALPHABET)),
            2 if pos < s.len() => {
                s.remove(pos);
            }
            3 => s.truncate(pos),
            4 if pos + 1 < s.len() => s.swap(pos, pos + 1),
            _ => {}
        }
    }
    let s: String = s.into_iter().collect();
    st.class("mutant");
    st.nontrivial(fnv64(s.as_bytes()));
    check_string(&s, st)
}

fn prop_value(t: &mut Tape, st: &mut Stats) -> Result<(), Failure> {
    let d = gen_dt(t);
    st.eval();
    st.class("struct-generated");
    st.nontrivial(fnv64(d.canonical().as_bytes()));
    // every spelling of it is read identically by both parsers
    let s = spell_dt(&d, t);
    check_string(&s, st)?;
    if lib_standalone(&s) != Some(d) {
        return Err(Failure::new("spelling", format!("spelling {s:?} of {:?} is read as {:?}", d, lib_standalone(&s)), json!({"string": s})));
    }
    check_value(&d, st)
}

pub fn run(args: Args) -> ! {
    let mut rep = Report::new("C12", args.tier, args.seed);
    rep.rule = "strings: (i) exhaustive product of field edges for dates (8 years x 7 months x 8 days) and times (4 hours x 4 minutes x 5 seconds x 9 fractions) alone, sampled product for the combined kinds with 16 offsets and 3 delimiters; (ii) valid date-times of the four kinds in every spelling, with 1-2 edits (substitute/insert/delete/truncate/transpose) over the date-time alphabet; (iii) struct-generated values with in-range fields. Oracle: Datetime::from_str and the document grammar (Value::from_str as a date-time, and `k = s`) give the same verdict and fields; every accepted or generated value prints to text both accept and that parses back identically, also through toml_edit::Value::from and the serde bridge. The harness' own recogniser is recorded in replay files to say which side is wrong. non-trivial = within two edits of a valid date-time (all generated strings are); distinct by string".into();
    rep.assumptions = vec!["whether both parsers agree with TOML itself is C01's business; C12 compares them with each other".into()];
    KNOWN_F2.store(rep.is_known("F2"), std::sync::atomic::Ordering::Relaxed);
    if let Some(p) = &args.replay {
        let j = super::load_replay_any(p);
        let mut st = Stats::new();
        let r = if let Some(s) = j["case"]["string"].as_str() {
            check_string(s, &mut st)
        } else if let Some(s) = j["case"]["value"].as_str() {
            match tomlref::datetime(s) {
                Ok(d) => check_value(&d, &mut st),
                Err(_) => Ok(()),
            }
        } else {
            Ok(())
        };
        if let Err(f) = r {
            rep.violation("replay", None, &f);
        }
        rep.stats.merge(st);
        rep.stats.evaluations += 1;
        rep.stats.nontrivial.insert(1);
        rep.stats.nontrivial.insert(2);
        rep.finish();
    }
    for p in super::regression_files("C12") {
        let j = super::load_replay(&p);
        if let Some(s) = j["case"]["string"].as_str() {
            if let Err(f) = check_string(s, &mut rep.stats) {
                rep.violation("regression", None, &f);
            }
        }
    }
    // exhaustive: dates and times alone
    'outer: for y in YEARS {
        for m in MONTHS {
            for d in DAYS {
                let s = format!("{y}-{m}-{d}");
                rep.stats.class("date-exhaustive");
                rep.stats.nontrivial(fnv64(s.as_bytes()));
                if let Err(f) = check_string(&s, &mut rep.stats) {
                    rep.violation("dates", None, &f);
                    break 'outer;
                }
            }
        }
    }
    'outer2: for h in HOURS {
        for m in MINUTES {
            for s_ in SECONDS {
                for f in FRACS {
                    let s = format!("{h}:{m}:{s_}{f}");
                    rep.stats.class("time-exhaustive");
                    rep.stats.nontrivial(fnv64(s.as_bytes()));
                    if let Err(fl) = check_string(&s, &mut rep.stats) {
                        rep.violation("times", None, &fl);
                        break 'outer2;
                    }
                }
            }
        }
    }
    // every leap / non-leap February and every month length, all years
    'outer3: for y in 0..10000u32 {
        for (m, d) in [(2u32, 28u32), (2, 29), (2, 30), (4, 30), (4, 31), (12, 31)] {
            let s = format!("{y:04}-{m:02}-{d:02}");
            rep.stats.class("calendar-exhaustive");
            if let Err(f) = check_string(&s, &mut rep.stats) {
                rep.violation("calendar", None, &f);
                break 'outer3;
            }
        }
    }
    let w = workers();
    let run = run_tape("C12.product", &prop_product, 16, args.tier.pick(500_000, 10_000_000), args.seed, w);
    finish_run(&mut rep, "product", run);
    let run = run_tape("C12.mutants", &prop_mutant, 32, args.tier.pick(600_000, 20_000_000), args.seed, w);
    finish_run(&mut rep, "mutants", run);
    let run = run_tape("C12.values", &prop_value, 32, args.tier.pick(300_000, 8_000_000), args.seed, w);
    finish_run(&mut rep, "values", run);
    if args.tier == Tier::Thorough && rep.violations.is_empty() {
        let seeds: Vec<Vec<u8>> = ["1979-05-27T07:32:00Z", "1979-05-27 07:32:00.999999-07:00", "1979-05-27T00:32:00", "1979-05-27", "07:32:00", "00:32:00.5", "2000-02-29t23:59:60.123456789z"].iter().map(|s| s.as_bytes().to_vec()).collect();
        fuzz_campaign(&mut rep, "fuzz_c12", &seeds, 12_000_000, 64, w);
    }
    for c in ["both-accept", "both-reject", "edge-product", "mutant", "struct-generated"] {
        rep.require_class(c);
    }
    rep.finish()
}
