//! C19 — the toml! macro builds the same table as parsing the same text.
//!
//! Generated programs: each embeds N generated documents (restricted to spellings that are both
//! TOML and Rust tokens the macro takes) once inside `toml::toml!{..}` and once as a string
//! literal, compares the two tables inside the generated binary, and prints the mismatches.

use super::Args;
use crate::engine::*;
use crate::gen::{gen_tree, render, GTable, GenCfg, Layout};
use crate::tape::{fnv64, SplitMix, Tape};
use serde_json::json;

pub const F8_WHAT: &str = "toml!: a `[header]` for a table that already exists because a longer header (or an array-of-tables header below it) came first replaces it by an empty table: `[a.b.c]` then `[a.b]` loses `a.b.c`; `[[a.b]]` then `[a]` loses `a.b`";

fn cfg_for(sub_before_super: bool) -> GenCfg {
    let mut cfg = GenCfg::default();
    cfg.rust_tokens = true;
    cfg.decor = 0;
    cfg.allow_bom = false;
    cfg.allow_crlf = false;
    cfg.allow_ml = false;
    cfg.f11_safe = false;
    cfg.adjacent = true;
    cfg.sub_before_super = sub_before_super;
    cfg.budget = 14;
    cfg.max_depth = 4;
    cfg
}

struct Case {
    text: String,
    tree: GTable,
    tape: Vec<u32>,
    nontrivial: bool,
    sub_before_super: bool,
}

fn gen_case(seed: &mut SplitMix, allow_sbs: bool) -> Case {
    let tape: Vec<u32> = (0..600).map(|_| seed.next() as u32).collect();
    let mut t = Tape::new(&tape);
    let cfg = cfg_for(allow_sbs);
    let tree = gen_tree(&mut t, &cfg);
    let r = render(&tree, &mut t, &cfg);
    let nontrivial = (r.n_sections > 0 || r.classes.contains(&"dotted-key")) && (r.text.contains("= -") || r.text.contains("= +") || r.classes.iter().any(|c| c.starts_with("dt-") || *c == "date" || *c == "time"));
    Case { text: r.text, tree, tape, nontrivial, sub_before_super: r.classes.contains(&"sub-before-super") }
}

const PRELUDE: &str = r####"#![recursion_limit = "4096"]
#![allow(clippy::all)]
fn canon(v: &toml::Value, out: &mut String) {
    match v {
        toml::Value::String(s) => out.push_str(&format!("s{s:?}")),
        toml::Value::Integer(i) => out.push_str(&format!("i{i}")),
        toml::Value::Float(f) => {
            if f.is_nan() {
                out.push_str(if f.is_sign_negative() { "f-nan" } else { "fnan" })
            } else {
                out.push_str(&format!("f{:016x}", f.to_bits()))
            }
        }
        toml::Value::Boolean(b) => out.push_str(&format!("b{b}")),
        toml::Value::Datetime(d) => out.push_str(&format!("d{d}")),
        toml::Value::Array(a) => {
            out.push('[');
            for e in a {
                canon(e, out);
                out.push(',');
            }
            out.push(']');
        }
        toml::Value::Table(t) => {
            out.push('{');
            let mut ks: Vec<&String> = t.keys().collect();
            ks.sort();
            for k in ks {
                out.push_str(&format!("{k:?}:"));
                canon(&t[k], out);
                out.push(',');
            }
            out.push('}');
        }
    }
}
fn same(i: usize, m: toml::Table, text: &str) {
    let p: Result<toml::Table, _> = text.parse();
    match p {
        Err(e) => println!("PARSEFAIL {i} {}", e.to_string().replace('\n', " | ")),
        Ok(p) => {
            let (mut a, mut b) = (String::new(), String::new());
            canon(&toml::Value::Table(m), &mut a);
            canon(&toml::Value::Table(p), &mut b);
            if a != b {
                println!("MISMATCH {i} macro={a} parsed={b}");
            }
        }
    }
}
"####;

fn program(cases: &[&Case]) -> (String, Vec<(usize, usize)>) {
    let mut src = String::from(PRELUDE);
    let mut line_ranges = vec![];
    for (i, c) in cases.iter().enumerate() {
        let start = src.lines().count() + 1;
        src.push_str(&format!("fn case_{i}() {{\n    let m = toml::toml! {{\n{}\n    }};\n    same({i}, m, r########\"{}\"########);\n}}\n", c.text, c.text));
        line_ranges.push((start, src.lines().count()));
    }
    src.push_str("fn main() {\n");
    for i in 0..cases.len() {
        // each case in its own thread frame would be overkill; plain calls
        src.push_str(&format!("    case_{i}();\n"));
    }
    src.push_str(&format!("    println!(\"DONE {}\");\n}}\n", cases.len()));
    (src, line_ranges)
}

#[derive(Debug)]
enum Outcome {
    /// (case index, message)
    Mismatch(usize, String),
    CompileError(Option<usize>, String),
    Crash(String),
}

fn build_and_run(name: &str, cases: &[&Case]) -> Result<Vec<Outcome>, String> {
    let dir = format!("{}/harness/target-c19/{name}", VERIF_DIR);
    std::fs::create_dir_all(format!("{dir}/src")).map_err(|e| e.to_string())?;
    std::fs::write(
        format!("{dir}/Cargo.toml"),
        "[package]\nname = \"c19prog\"\nversion = \"0.0.0\"\nedition = \"2021\"\n\n[dependencies]\ntoml = { path = \"/repo/crates/toml\" }\n\n[workspace]\n\n[profile.dev]\ndebug = 0\nopt-level = 0\nincremental = false\n",
    )
    .map_err(|e| e.to_string())?;
    let _ = std::fs::copy(format!("{}/harness/Cargo.lock", VERIF_DIR), format!("{dir}/Cargo.lock"));
    let (src, ranges) = program(cases);
    std::fs::write(format!("{dir}/src/main.rs"), &src).map_err(|e| e.to_string())?;
    let tdir = format!("{}/harness/target-c19/target", VERIF_DIR);
    let b = std::process::Command::new("cargo")
        .args(["build", "--offline", "--target-dir", &format!("{tdir}-{name}"), "-j", "4"])
        .current_dir(&dir)
        .env("CARGO_NET_OFFLINE", "true")
        .env("RUSTFLAGS", "-Awarnings")
        .output()
        .map_err(|e| format!("cargo: {e}"))?;
    let mut out = vec![];
    if !b.status.success() {
        let err = String::from_utf8_lossy(&b.stderr).to_string();
        if !err.contains("src/main.rs") {
            return Err(format!("the generated crate does not build for a reason outside main.rs: {}", err.chars().take(600).collect::<String>()));
        }
        // map the first error location to a case
        let mut case = None;
        for l in err.lines() {
            if let Some(p) = l.find("src/main.rs:") {
                let num: usize = l[p + 12..].split(':').next().and_then(|s| s.parse().ok()).unwrap_or(0);
                case = ranges.iter().position(|(a, b)| *a <= num && num <= *b);
                if case.is_some() {
                    break;
                }
            }
        }
        let first: String = err.lines().filter(|l| l.starts_with("error")).take(2).collect::<Vec<_>>().join(" / ");
        out.push(Outcome::CompileError(case, first));
        return Ok(out);
    }
    let r = std::process::Command::new(format!("{tdir}-{name}/debug/c19prog")).output().map_err(|e| format!("run: {e}"))?;
    let so = String::from_utf8_lossy(&r.stdout);
    for l in so.lines() {
        if let Some(rest) = l.strip_prefix("MISMATCH ").or_else(|| l.strip_prefix("PARSEFAIL ")) {
            let i: usize = rest.split(' ').next().and_then(|s| s.parse().ok()).unwrap_or(usize::MAX);
            out.push(Outcome::Mismatch(i, l.chars().take(600).collect()));
        }
    }
    if !so.contains(&format!("DONE {}", cases.len())) {
        out.push(Outcome::Crash(format!("the generated program did not finish ({}): {}", r.status, String::from_utf8_lossy(&r.stderr).chars().take(400).collect::<String>())));
    }
    Ok(out)
}

/// delta-reduce a failing document: drop top-level entries while it still fails (one compile each)
fn reduce(case: &Case, budget: usize) -> String {
    let cfg = cfg_for(true);
    let mut tree = case.tree.clone();
    let mut best = case.text.clone();
    let mut steps = 0;
    let mut i = 0;
    while i < tree.entries.len() && steps < budget {
        let mut cand = tree.clone();
        cand.entries.remove(i);
        if cand.layout != Layout::Root {
            break;
        }
        let mut t = Tape::new(&[]);
        let r = render(&cand, &mut t, &cfg);
        let c = Case { text: r.text.clone(), tree: cand.clone(), tape: vec![], nontrivial: false, sub_before_super: false };
        steps += 1;
        match build_and_run("reduce", &[&c]) {
            Ok(o) if !o.is_empty() => {
                tree = cand;
                best = r.text;
            }
            _ => i += 1,
        }
    }
    best
}

pub fn run(args: Args) -> ! {
    let mut rep = Report::new("C19", args.tier, args.seed);
    rep.rule = "generated Rust programs, each embedding N generated TOML documents restricted to spellings that are both TOML and Rust tokens the macro takes (identifier / `ident-ident` / quoted keys, basic strings with the escapes \\n \\t \\r \\\\ \\\", integers within i32 in four bases with signs and underscores, Rust-lexable floats, inf/nan with signs, booleans, the four date-time kinds with T or space and Z / z / negative offsets, dotted keys, nested inline tables and arrays, [header] and [[header]] sections in legal orders) once inside toml::toml!{..} and once as a string literal; the binary compares the two tables (float bits, NaN sign). A program that does not compile is a violation. Shapes outside the sub-grammar: positive offsets, integers beyond i32, literal and multi-line strings, comments, numeric-looking or keyword-literal bare keys (true/false). non-trivial = a header or dotted key together with a signed number or a date-time; distinct by document".into();
    rep.assumptions = vec!["rustc's lexer defines what a Rust token is; the comparison code is part of the generated program".into()];
    let known_f8 = rep.is_known("F8");
    let (nprog, ndocs) = args.tier.pick((8usize, 200usize), (32usize, 400usize));
    let mut seed = SplitMix(args.seed ^ 0xC19);
    // F8 excluded by construction in the main programs unless fixed/unknown: sub-table before
    // super-table layouts go to a probe program
    let mut progs: Vec<Vec<Case>> = vec![];
    for _ in 0..nprog {
        progs.push((0..ndocs).map(|_| gen_case(&mut seed, !known_f8)).collect());
    }
    if let Some(p) = &args.replay {
        let j = super::load_replay(p);
        let text = j["case"]["text"].as_str().unwrap_or_else(|| fault("replay: case.text")).to_string();
        let c = Case { text: text.clone(), tree: GTable { layout: Layout::Root, entries: vec![] }, tape: vec![], nontrivial: true, sub_before_super: false };
        match build_and_run("replay", &[&c]) {
            Ok(o) if o.is_empty() => {}
            Ok(o) => rep.violation("replay", None, &Failure::new("macro", format!("{:?}\n{text}", o[0]), json!({"text": text}))),
            Err(e) => fault(&e),
        }
        rep.stats.evaluations = 1;
        rep.stats.nontrivial.insert(1);
        rep.stats.nontrivial.insert(2);
        rep.stats.samples.push(json!({"text": text}));
        rep.finish();
    }
    let results: Vec<Result<Vec<Outcome>, String>> = std::thread::scope(|sc| {
        let hs: Vec<_> = progs
            .iter()
            .enumerate()
            .map(|(k, cases)| {
                sc.spawn(move || {
                    let refs: Vec<&Case> = cases.iter().collect();
                    build_and_run(&format!("prog{k}"), &refs)
                })
            })
            .collect();
        hs.into_iter().map(|h| h.join().unwrap()).collect()
    });
    let mut reported = 0;
    for (k, r) in results.iter().enumerate() {
        let cases = &progs[k];
        for c in cases {
            rep.stats.eval();
            if c.nontrivial {
                rep.stats.nontrivial(fnv64(c.text.as_bytes()));
            }
            if c.sub_before_super {
                rep.stats.class("sub-before-super");
            }
            for cl in ["[[", "{", "= -", "= +", "inf", "nan", "0x", "0o", "0b", "T", "Z", ":"] {
                if c.text.contains(cl) {
                    rep.stats.class(&format!("has `{cl}`"));
                }
            }
        }
        if rep.stats.samples.len() < 4 {
            rep.stats.samples.push(json!({"program": k, "document": cases[0].text}));
            rep.stats.samples.push(json!({"program": k, "document": cases[cases.len() / 2].text}));
        }
        match r {
            Err(e) => fault(&format!("program {k}: {e}")),
            Ok(outs) => {
                for o in outs {
                    if reported >= 4 {
                        rep.violations.push(String::new());
                        continue;
                    }
                    reported += 1;
                    match o {
                        Outcome::Mismatch(i, msg) => {
                            let c = &cases[*i];
                            let small = reduce(c, 12);
                            let f = Failure::new("mismatch", format!("the macro's table differs from parsing the same text: {msg}\n--- document (reduced)\n{small}\n--- document (generated)\n{}", c.text), json!({"text": small, "original": c.text, "tape": c.tape}));
                            rep.violation("macro", None, &f);
                        }
                        Outcome::CompileError(i, msg) => {
                            let text = i.map(|i| cases[i].text.clone()).unwrap_or_default();
                            let f = Failure::new("compile", format!("a document inside the sub-grammar does not compile inside toml!{{}}: {msg}\n--- document\n{text}"), json!({"text": text}));
                            rep.violation("macro", None, &f);
                        }
                        Outcome::Crash(msg) => {
                            let f = Failure::new("crash", msg.clone(), json!({}));
                            rep.violation("macro", None, &f);
                        }
                    }
                }
            }
        }
    }
    // committed regressions (documents) in one extra program
    let regs: Vec<Case> = super::regression_files("C19")
        .iter()
        .filter_map(|p| super::load_replay(p)["case"]["text"].as_str().map(|t| Case { text: t.to_string(), tree: GTable { layout: Layout::Root, entries: vec![] }, tape: vec![], nontrivial: true, sub_before_super: false }))
        .collect();
    if !regs.is_empty() {
        let refs: Vec<&Case> = regs.iter().collect();
        match build_and_run("regressions", &refs) {
            Ok(outs) => {
                rep.stats.evals(regs.len() as u64);
                for o in outs {
                    let f = Failure::new("regression", format!("{o:?}"), json!({"texts": regs.iter().map(|c| c.text.clone()).collect::<Vec<_>>()}));
                    rep.violation("regression", None, &f);
                }
            }
            Err(e) => fault(&e),
        }
    }
    // probe for known finding F8 (only when it is listed as known)
    if known_f8 {
        let text = "[a.b.c]\nx = 1\n[a.b]\ny = 2\n".to_string();
        let c = Case { text: text.clone(), tree: GTable { layout: Layout::Root, entries: vec![] }, tape: vec![], nontrivial: true, sub_before_super: true };
        if let Ok(o) = build_and_run("f8probe", &[&c]) {
            if !o.is_empty() {
                rep.stats.known("F8", F8_WHAT);
            }
        }
    }
    for c in ["has `[[`", "has `{`", "has `= -`", "has `inf`", "has `0x`", "has `T`", "has `:`"] {
        rep.require_class(c);
    }
    rep.finish()
}
