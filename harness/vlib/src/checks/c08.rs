//! C08 — edits change exactly what was asked and keep everything else verbatim.
//!
//! Stateful: a generated start document (every line carries a unique comment marker) and a
//! generated list of structural edits on paths chosen from the current model; after every step the
//! printed text must parse, decode to the edited model, and contain every untouched entry's source
//! line verbatim, in order.

use super::c02::{finish_run, harness_fault};
use super::Args;
use crate::engine::*;
use crate::gen::{gen_doc, path_str, GenCfg, Path, Seg};
use crate::model::{self, Cmp, Node, Tbl, TblKind};
use crate::tape::{fnv64, Tape};
use crate::tomlref::{self, Verdict};
use serde_json::json;
use toml_edit::{Array, ArrayOfTables, DocumentMut, InlineTable, Item, Table, Value};

// ---- navigation in the real document -------------------------------------------------------------

enum Cur<'a> {
    Item(&'a mut Item),
    Value(&'a mut Value),
    Table(&'a mut Table),
}

fn descend<'a>(cur: Cur<'a>, seg: &Seg) -> Option<Cur<'a>> {
    match (cur, seg) {
        (Cur::Item(Item::Table(t)), Seg::Key(k)) | (Cur::Table(t), Seg::Key(k)) => t.get_mut(k).map(Cur::Item),
        (Cur::Item(Item::Value(Value::InlineTable(t))), Seg::Key(k)) | (Cur::Value(Value::InlineTable(t)), Seg::Key(k)) => t.get_mut(k).map(Cur::Value),
        (Cur::Item(Item::Value(Value::Array(a))), Seg::Idx(i)) | (Cur::Value(Value::Array(a)), Seg::Idx(i)) => a.get_mut(*i).map(Cur::Value),
        (Cur::Item(Item::ArrayOfTables(a)), Seg::Idx(i)) => a.get_mut(*i).map(Cur::Table),
        _ => None,
    }
}

fn nav_mut<'a>(doc: &'a mut DocumentMut, path: &Path) -> Option<Cur<'a>> {
    let mut cur = Cur::Item(doc.as_item_mut());
    for s in path {
        cur = descend(cur, s)?;
    }
    Some(cur)
}

/// read-only walk to a table through tables and array-of-tables elements
fn re_nav_table<'a>(doc: &'a DocumentMut, path: &Path) -> Option<&'a Table> {
    let mut cur: &Table = doc.as_table();
    let mut i = 0;
    while i < path.len() {
        let Seg::Key(k) = &path[i] else { return None };
        match cur.get(k)? {
            Item::Table(t) => cur = t,
            Item::ArrayOfTables(a) => {
                i += 1;
                let Some(Seg::Idx(j)) = path.get(i) else { return None };
                cur = a.get(*j)?;
            }
            _ => return None,
        }
        i += 1;
    }
    Some(cur)
}

fn as_table<'a>(c: Cur<'a>) -> Option<&'a mut Table> {
    match c {
        Cur::Item(Item::Table(t)) => Some(t),
        Cur::Table(t) => Some(t),
        _ => None,
    }
}
fn as_inline<'a>(c: Cur<'a>) -> Option<&'a mut InlineTable> {
    match c {
        Cur::Item(Item::Value(Value::InlineTable(t))) => Some(t),
        Cur::Value(Value::InlineTable(t)) => Some(t),
        _ => None,
    }
}
fn as_array<'a>(c: Cur<'a>) -> Option<&'a mut Array> {
    match c {
        Cur::Item(Item::Value(Value::Array(a))) => Some(a),
        Cur::Value(Value::Array(a)) => Some(a),
        _ => None,
    }
}
fn as_aot<'a>(c: Cur<'a>) -> Option<&'a mut ArrayOfTables> {
    match c {
        Cur::Item(Item::ArrayOfTables(a)) => Some(a),
        _ => None,
    }
}

// ---- navigation in the model ---------------------------------------------------------------------

enum MCur<'a> {
    N(&'a mut Node),
    T(&'a mut Tbl),
}
fn mnav<'a>(root: &'a mut Tbl, path: &Path) -> Option<MCur<'a>> {
    let mut cur = MCur::T(root);
    for s in path {
        cur = match (cur, s) {
            (MCur::T(t), Seg::Key(k)) | (MCur::N(Node::Table(t)), Seg::Key(k)) => MCur::N(t.get_mut(k)?),
            (MCur::N(Node::Array(a)), Seg::Idx(i)) => MCur::N(a.get_mut(*i)?),
            (MCur::N(Node::Aot(a)), Seg::Idx(i)) => MCur::T(a.get_mut(*i)?),
            _ => return None,
        };
    }
    Some(cur)
}
fn mtable<'a>(c: MCur<'a>) -> Option<&'a mut Tbl> {
    match c {
        MCur::T(t) => Some(t),
        MCur::N(Node::Table(t)) => Some(t),
        _ => None,
    }
}

#[derive(Clone, Debug, PartialEq)]
enum CKind {
    /// root, `[header]` table, array-of-tables element, dotted or implicit table
    Table,
    Inline,
    Array,
    Aot,
}

fn containers(t: &Tbl, base: &Path, out: &mut Vec<(Path, CKind)>) {
    out.push((base.clone(), if t.kind == TblKind::Inline { CKind::Inline } else { CKind::Table }));
    for (k, n) in &t.entries {
        let mut p = base.clone();
        p.push(Seg::Key(k.clone()));
        node_containers(n, &p, out, t.kind == TblKind::Inline);
    }
}
fn node_containers(n: &Node, p: &Path, out: &mut Vec<(Path, CKind)>, in_value: bool) {
    match n {
        Node::Table(t) => {
            if in_value || t.kind == TblKind::Inline {
                // (dotted tables inside inline tables are inline tables too)
                out.push((p.clone(), CKind::Inline));
                for (k, n) in &t.entries {
                    let mut q = p.clone();
                    q.push(Seg::Key(k.clone()));
                    node_containers(n, &q, out, true);
                }
            } else {
                containers(t, p, out);
            }
        }
        Node::Aot(a) => {
            out.push((p.clone(), CKind::Aot));
            for (i, t) in a.iter().enumerate() {
                let mut q = p.clone();
                q.push(Seg::Idx(i));
                containers(t, &q, out);
            }
        }
        Node::Array(a) => {
            out.push((p.clone(), CKind::Array));
            for (i, e) in a.iter().enumerate() {
                let mut q = p.clone();
                q.push(Seg::Idx(i));
                node_containers(e, &q, out, true);
            }
        }
        _ => {}
    }
}

/// a placeholder slot (`Item::None`) created by mutable indexing without assignment: invisible to
/// every observation, but it keeps its position for a later insert of the same key
const PH: &str = "\u{0}<placeholder>";
fn ph() -> Node {
    Node::Str(PH.to_string())
}
fn is_ph(n: &Node) -> bool {
    matches!(n, Node::Str(s) if s == PH)
}
fn strip_ph(t: &Tbl) -> Tbl {
    let mut out = Tbl::new(t.kind);
    out.order_ambiguous = t.order_ambiguous;
    out.floating = t.floating.clone();
    for (k, n) in &t.entries {
        if is_ph(n) {
            continue;
        }
        out.entries.push((k.clone(), strip_ph_node(n)));
    }
    out
}
fn strip_ph_node(n: &Node) -> Node {
    match n {
        Node::Table(t) => Node::Table(strip_ph(t)),
        Node::Aot(a) => Node::Aot(a.iter().map(strip_ph).collect()),
        Node::Array(a) => Node::Array(a.iter().map(strip_ph_node).collect()),
        o => o.clone(),
    }
}

const NEW_KEYS: [&str; 6] = ["n1", "n2", "n3", "a", "b", "new-key"];

/// source line fragments of entries that no edit has touched yet
#[derive(Clone, Debug)]
struct Frag {
    path: Path,
    text: String,
}

fn touch(frags: &mut Vec<Frag>, prefix: &Path) {
    frags.retain(|f| !(f.path.len() >= prefix.len() && f.path[..prefix.len()] == prefix[..]));
}
/// an edit inside a value (array / inline table) rewrites the line of the entry that contains it
fn touch_line_of(frags: &mut Vec<Frag>, path: &Path) {
    // the fragment whose path is the longest prefix of `path`
    frags.retain(|f| !(path.len() >= f.path.len() && path[..f.path.len()] == f.path[..]));
}

fn new_scalar(counter: &mut i64, t: &mut Tape) -> (Node, Value) {
    *counter += 1;
    match t.below(3) {
        0 => (Node::Int(100_000 + *counter), Value::from(100_000 + *counter)),
        1 => {
            let s = format!("new{}", *counter);
            (Node::Str(s.clone()), Value::from(s))
        }
        _ => (Node::Bool(*counter % 2 == 0), Value::from(*counter % 2 == 0)),
    }
}

/// In the main run a history has either ArrayOfTables::push or Table::sort_values, never both:
/// sort_values changes the visiting order of sections, which brings known finding F18 into reach
/// of any later (or earlier) push. The probe run has no such restriction.
#[derive(Clone, Copy, PartialEq)]
enum Excl {
    None,
    NoPush,
    NoSort,
}

struct State {
    doc: DocumentMut,
    model: Tbl,
    frags: Vec<Frag>,
    log: Vec<String>,
    counter: i64,
    /// tables on which sort_values ran: the in-memory position of their sub-tables is not what
    /// the documentation talks about; iteration order is compared as a set there
    sorted: Vec<Path>,
    /// the table on which sort_values / sort_values_by (reverse key order when `true`) just ran
    just_sorted: Option<(Path, bool)>,
    /// parents whose array of tables lost its first element: the array's place among its siblings
    /// was that element's header; where the remaining elements put it is not decided (like U2.c)
    moved_aot_parents: Vec<Path>,
    excl: Excl,
    restrict: bool,
}

/// apply one generated edit to both sides; returns a class label or None if nothing applicable
fn step(s: &mut State, t: &mut Tape) -> Result<Option<&'static str>, Failure> {
    let mut cs = vec![];
    containers(&s.model, &vec![], &mut cs);
    let (path, _model_kind) = cs[t.below(cs.len())].clone();
    let hf = |m: &str| harness_fault(format!("{m} at {}", path_str(&path)));
    // what the container is in the document (a dotted table is a Table in a body and an
    // InlineTable inside a value; after conversions only the document knows)
    let kind = match nav_mut(&mut s.doc, &path).ok_or_else(|| hf("doc nav"))? {
        Cur::Item(Item::Table(_)) | Cur::Table(_) => CKind::Table,
        Cur::Item(Item::Value(Value::InlineTable(_))) | Cur::Value(Value::InlineTable(_)) => CKind::Inline,
        Cur::Item(Item::Value(Value::Array(_))) | Cur::Value(Value::Array(_)) => CKind::Array,
        Cur::Item(Item::ArrayOfTables(_)) => CKind::Aot,
        _ => return Err(hf("doc container kind")),
    };
    match kind {
        CKind::Table => {
            let keys: Vec<String> = mtable(mnav(&mut s.model, &path).ok_or_else(|| hf("model nav"))?).ok_or_else(|| hf("model table"))?.entries.iter().map(|e| e.0.clone()).collect();
            let op = t.below(14);
            let table = as_table(nav_mut(&mut s.doc, &path).ok_or_else(|| hf("doc nav"))?).ok_or_else(|| hf("doc table"))?;
            let mt = mtable(mnav(&mut s.model, &path).unwrap()).unwrap();
            match op {
                0 | 1 => {
                    // insert a new or existing key
                    let k = if !keys.is_empty() && t.chance(1, 3) { keys[t.below(keys.len())].clone() } else { t.pick(&NEW_KEYS).to_string() };
                    let (n, v) = new_scalar(&mut s.counter, t);
                    let existed = mt.index_of(&k);
                    if op == 0 {
                        table.insert(&k, toml_edit::value(v));
                    } else {
                        table[k.as_str()] = toml_edit::value(v);
                    }
                    match existed {
                        Some(i) => mt.entries[i].1 = n,
                        None => mt.entries.push((k.clone(), n)),
                    }
                    let mut p = path.clone();
                    p.push(Seg::Key(k.clone()));
                    touch(&mut s.frags, &p);
                    s.log.push(format!("{}.{}({k:?})", path_str(&path), if op == 0 { "insert" } else { "index_assign" }));
                    Ok(Some(if existed.is_some() { "table.insert-existing" } else { "table.insert-new" }))
                }
                2 | 3 if !keys.is_empty() => {
                    let k = keys[t.below(keys.len())].clone();
                    if op == 2 {
                        table.remove(&k);
                    } else {
                        table.remove_entry(&k);
                    }
                    let i = mt.index_of(&k).unwrap();
                    mt.entries.remove(i);
                    let mut p = path.clone();
                    p.push(Seg::Key(k.clone()));
                    touch(&mut s.frags, &p);
                    s.log.push(format!("{}.remove({k:?})", path_str(&path)));
                    Ok(Some("table.remove"))
                }
                4 => {
                    // add a sub-table with one value
                    let k = t.pick(&NEW_KEYS).to_string();
                    if mt.index_of(&k).is_some() {
                        return Ok(None);
                    }
                    let (n, v) = new_scalar(&mut s.counter, t);
                    let mut nt = Table::new();
                    nt.insert("v", toml_edit::value(v));
                    table.insert(&k, Item::Table(nt));
                    let mut mnew = Tbl::new(TblKind::Std);
                    mnew.entries.push(("v".into(), n));
                    mt.entries.push((k.clone(), Node::Table(mnew)));
                    s.log.push(format!("{}.insert({k:?}, table)", path_str(&path)));
                    Ok(Some(if matches!(mt.kind, TblKind::Implicit | TblKind::Dotted) { "table.add-table-under-implicit-or-dotted" } else { "table.add-table" }))
                }
                5 if keys.len() >= 2 => {
                    // retain a subset
                    let mask = t.next();
                    let keep: Vec<bool> = (0..keys.len()).map(|i| mask & (1 << (i % 32)) != 0).collect();
                    let ks = keys.clone();
                    table.retain(|k, _| ks.iter().position(|x| x == k).map(|i| keep[i]).unwrap_or(true));
                    for (i, k) in keys.iter().enumerate() {
                        if !keep[i] {
                            let idx = mt.index_of(k).unwrap();
                            mt.entries.remove(idx);
                            let mut p = path.clone();
                            p.push(Seg::Key(k.clone()));
                            touch(&mut s.frags, &p);
                        }
                    }
                    s.log.push(format!("{}.retain({keep:?})", path_str(&path)));
                    Ok(Some("table.retain"))
                }
                6 => {
                    // entry().or_insert
                    let k = if !keys.is_empty() && t.chance(1, 2) { keys[t.below(keys.len())].clone() } else { t.pick(&NEW_KEYS).to_string() };
                    let (n, v) = new_scalar(&mut s.counter, t);
                    table.entry(&k).or_insert(toml_edit::value(v));
                    if mt.index_of(&k).is_none() {
                        mt.entries.push((k.clone(), n));
                    }
                    s.log.push(format!("{}.entry({k:?}).or_insert", path_str(&path)));
                    Ok(Some("table.entry"))
                }
                7 if !(s.restrict && s.excl == Excl::NoSort) => {
                    s.excl = Excl::NoPush;
                    // sort_values: orders the value entries (and dotted tables) by key; tables keep theirs
                    let rev = t.chance(1, 3);
                    if rev {
                        // a caller-supplied order: reverse key order, applied to dotted tables below as well
                        table.sort_values_by(|k1, _, k2, _| k2.get().cmp(k1.get()));
                    } else {
                        table.sort_values();
                    }
                    sort_values_model(mt, rev);
                    s.sorted.push(path.clone());
                    s.just_sorted = Some((path.clone(), rev));
                    // the lines are kept, their order changes: fragments stay, order is re-derived
                    s.log.push(format!("{}.{}", path_str(&path), if rev { "sort_values_by(reverse key order)" } else { "sort_values()" }));
                    Ok(Some(if rev { "table.sort_values_by" } else { "table.sort_values" }))
                }
                13 => {
                    // a conversion that does not apply (a scalar, a plain or mixed array, ...) is
                    // refused and hands the item back: putting it back is a no-op edit - content,
                    // layout and source text of the entry stay as they were
                    let cand: Vec<String> = mt
                        .entries
                        .iter()
                        .filter(|(_, n)| match n {
                            Node::Table(_) | Node::Aot(_) => false,
                            Node::Array(a) => a.is_empty() || !a.iter().all(|e| matches!(e, Node::Table(_))),
                            other => !is_ph(other),
                        })
                        .map(|e| e.0.clone())
                        .collect();
                    if cand.is_empty() {
                        return Ok(None);
                    }
                    let k = cand[t.below(cand.len())].clone();
                    let item = table.get_mut(&k).ok_or_else(|| hf("entry"))?;
                    let it = std::mem::take(item);
                    let which = t.below(3);
                    let (back, refused) = match which {
                        0 => match it.into_table() {
                            Ok(tb) => (Item::Table(tb), false),
                            Err(i) => (i, true),
                        },
                        1 => match it.into_array_of_tables() {
                            Ok(a) => (Item::ArrayOfTables(a), false),
                            Err(i) => (i, true),
                        },
                        _ => {
                            let mut i = it;
                            i.make_value();
                            (i, true)
                        }
                    };
                    *item = back;
                    if !refused {
                        return Err(hf("a conversion of a non-table value succeeded"));
                    }
                    s.log.push(format!("{}.refused-{}({k:?})", path_str(&path), ["into_table", "into_array_of_tables", "make_value"][which]));
                    Ok(Some("entry.refused-conversion"))
                }
                10 | 11 | 12 => {
                    // conversions between inline and standard forms of one entry
                    let cand: Vec<String> = mt
                        .entries
                        .iter()
                        .filter(|(_, n)| match (op, n) {
                            (10, Node::Table(x)) => x.kind != TblKind::Inline,
                            (10, Node::Aot(_)) => true,
                            (11, Node::Table(x)) => x.kind == TblKind::Inline,
                            (12, Node::Array(a)) => !a.is_empty() && a.iter().all(|e| matches!(e, Node::Table(_))),
                            _ => false,
                        })
                        .map(|e| e.0.clone())
                        .collect();
                    if cand.is_empty() {
                        return Ok(None);
                    }
                    let k = cand[t.below(cand.len())].clone();
                    // the same conversion asked for through Table::insert over the existing key (which
                    // re-spells the key, so nothing of F21 applies)
                    let via_insert = op == 11 && t.chance(1, 3);
                    if op != 10 && !via_insert {
                        // known finding F21: the key of a `k = {..}` entry keeps its line decoration
                        // (blank / comment lines before it), which is then printed inside the header
                        // brackets. Try the conversion on a copy first.
                        let decorated = table.key(&k).and_then(|key| key.leaf_decor().prefix().and_then(|p| p.as_str()).map(|p| p.contains('\n') || p.contains('#'))).unwrap_or(false);
                        if decorated {
                            let mut probe = table.clone();
                            if let Some(it) = probe.get_mut(&k) {
                                let taken = std::mem::take(it);
                                *it = if op == 11 {
                                    match taken.into_table() {
                                        Ok(tb) => Item::Table(tb),
                                        Err(i) => i,
                                    }
                                } else {
                                    match taken.into_array_of_tables() {
                                        Ok(a) => Item::ArrayOfTables(a),
                                        Err(i) => i,
                                    }
                                };
                            }
                            let mut d = DocumentMut::new();
                            *d.as_table_mut() = probe;
                            if d.to_string().parse::<DocumentMut>().is_err() && KNOWN_F21.load(std::sync::atomic::Ordering::Relaxed) {
                                return Ok(Some("known.F21"));
                            }
                        }
                    }
                    let item = table.get_mut(&k).ok_or_else(|| hf("entry"))?;
                    let idx = mt.index_of(&k).unwrap();
                    let label = match op {
                        10 => {
                            item.make_value();
                            mt.entries[idx].1 = to_value_form(&mt.entries[idx].1);
                            // sort_values reordered the map (sections included) of this table and
                            // its dotted tables; the property does not pin where sections sort, and
                            // the conversion now makes that order visible: compare as a set below it
                            let mut ep = path.clone();
                            ep.push(Seg::Key(k.clone()));
                            if s.sorted.iter().any(|q| (ep.len() >= q.len() && ep[..q.len()] == q[..]) || (q.len() >= ep.len() && q[..ep.len()] == ep[..])) {
                                mark_deep(&mut mt.entries[idx].1);
                            }
                            "entry.make_value"
                        }
                        11 => {
                            let it = std::mem::take(item);
                            let conv = match it.into_table() {
                                Ok(tb) => Item::Table(tb),
                                Err(i) => i,
                            };
                            if via_insert {
                                table.insert(&k, conv);
                            } else {
                                *item = conv;
                            }
                            if let Node::Table(x) = &mut mt.entries[idx].1 {
                                x.kind = TblKind::Std;
                            }
                            if via_insert { "entry.into_table-via-insert" } else { "entry.into_table" }
                        }
                        _ => {
                            let it = std::mem::take(item);
                            *item = match it.into_array_of_tables() {
                                Ok(a) => Item::ArrayOfTables(a),
                                Err(i) => i,
                            };
                            if let Node::Array(a) = &mt.entries[idx].1 {
                                let els: Vec<Tbl> = a
                                    .iter()
                                    .map(|e| match e {
                                        Node::Table(x) => {
                                            let mut y = x.clone();
                                            y.kind = TblKind::AotElem;
                                            y
                                        }
                                        _ => unreachable!(),
                                    })
                                    .collect();
                                mt.entries[idx].1 = Node::Aot(els);
                            }
                            "entry.into_array_of_tables"
                        }
                    };
                    // which syntactic form each nested table now has (inline, still dotted, ...) is
                    // observable API state: take the *kinds* (never the data) from the document
                    if let Some(fresh) = table.get(&k).and_then(model::from_edit_item) {
                        copy_kinds(&mut mt.entries[idx].1, &fresh);
                    }
                    let mut p = path.clone();
                    p.push(Seg::Key(k.clone()));
                    touch(&mut s.frags, &p);
                    s.sorted.retain(|q| !(q.len() >= p.len() && q[..p.len()] == p[..]));
                    s.moved_aot_parents.retain(|q| !(q.len() >= p.len() && q[..p.len()] == p[..]));
                    s.log.push(format!("{}.{label}({k:?})", path_str(&path)));
                    Ok(Some(label))
                }
                9 => {
                    // auto-vivification probe: mutable indexing without assigning creates a
                    // placeholder that must stay invisible
                    let k = t.pick(&NEW_KEYS).to_string();
                    if mt.index_of(&k).is_some() {
                        return Ok(None);
                    }
                    let _ = &mut table[k.as_str()];
                    mt.entries.push((k.clone(), ph()));
                    s.log.push(format!("{}.index_mut_probe({k:?})", path_str(&path)));
                    Ok(Some("table.vivify-probe"))
                }
                8 if t.chance(1, 3) => {
                    table.fmt();
                    // reformats the key/value decoration of this table's own lines
                    let own: Vec<Path> = s.frags.iter().filter(|f| f.path.len() > path.len() && f.path[..path.len()] == path[..] && lines_of_table(&s.model, &path, &f.path)).map(|f| f.path.clone()).collect();
                    for p in own {
                        touch(&mut s.frags, &p);
                    }
                    s.log.push(format!("{}.fmt()", path_str(&path)));
                    Ok(Some("table.fmt"))
                }
                _ => Ok(None),
            }
        }
        CKind::Inline => {
            if t.chance(1, 6) {
                // auto-vivification probe through Item indexing (only where the inline table is an Item)
                if let Some(Cur::Item(item)) = nav_mut(&mut s.doc, &path) {
                    let mt = mtable(mnav(&mut s.model, &path).ok_or_else(|| hf("model nav"))?).ok_or_else(|| hf("model inline"))?;
                    let k = t.pick(&NEW_KEYS).to_string();
                    if mt.index_of(&k).is_none() && item.is_inline_table() {
                        let _ = &mut item[k.as_str()];
                        mt.entries.push((k.clone(), ph()));
                        s.log.push(format!("{}.item_index_mut_probe({k:?})", path_str(&path)));
                        return Ok(Some("inline.vivify-probe"));
                    }
                }
                return Ok(None);
            }
            let it = as_inline(nav_mut(&mut s.doc, &path).ok_or_else(|| hf("doc nav"))?).ok_or_else(|| hf("doc inline"))?;
            let mt = mtable(mnav(&mut s.model, &path).ok_or_else(|| hf("model nav"))?).ok_or_else(|| hf("model inline"))?;
            let keys: Vec<String> = mt.entries.iter().map(|e| e.0.clone()).collect();
            let has_ph = mt.entries.iter().any(|(_, n)| is_ph(n));
            match t.below(7) {
                3 if !has_ph && keys.len() > 1 => {
                    // (what sorting / retaining does to a placeholder slot is left open: skipped there)
                    let rev = t.chance(1, 3);
                    if rev {
                        it.sort_values_by(|k1, _, k2, _| k2.get().cmp(k1.get()));
                    } else {
                        it.sort_values();
                    }
                    fn sort_inline(t: &mut Tbl, rev: bool) {
                        t.entries.sort_by(|a, b| if rev { b.0.cmp(&a.0) } else { a.0.cmp(&b.0) });
                        for (_, n) in t.entries.iter_mut() {
                            if let Node::Table(x) = n {
                                if x.kind == TblKind::Dotted {
                                    sort_inline(x, rev);
                                }
                            }
                        }
                    }
                    sort_inline(mt, rev);
                    touch_line_of(&mut s.frags, &path);
                    s.log.push(format!("{}.inline_{}", path_str(&path), if rev { "sort_values_by(reverse)" } else { "sort_values()" }));
                    Ok(Some("inline.sort_values"))
                }
                4 if !has_ph && !keys.is_empty() => {
                    let mask = t.next();
                    let keep: Vec<String> = keys.iter().enumerate().filter(|(i, _)| mask & (1 << (i % 32)) != 0).map(|(_, k)| k.clone()).collect();
                    it.retain(|k, _| keep.iter().any(|x| x == k));
                    mt.entries.retain(|(k, _)| keep.contains(k));
                    touch_line_of(&mut s.frags, &path);
                    s.log.push(format!("{}.inline_retain({keep:?})", path_str(&path)));
                    Ok(Some("inline.retain"))
                }
                5 if t.chance(1, 3) => {
                    it.clear();
                    mt.entries.clear();
                    touch_line_of(&mut s.frags, &path);
                    s.log.push(format!("{}.inline_clear()", path_str(&path)));
                    Ok(Some("inline.clear"))
                }
                6 => {
                    it.fmt();
                    touch_line_of(&mut s.frags, &path);
                    s.log.push(format!("{}.inline_fmt()", path_str(&path)));
                    Ok(Some("inline.fmt"))
                }
                0 => {
                    let k = if !keys.is_empty() && t.chance(1, 3) { keys[t.below(keys.len())].clone() } else { t.pick(&NEW_KEYS).to_string() };
                    let (n, v) = new_scalar(&mut s.counter, t);
                    it.insert(&k, v);
                    match mt.index_of(&k) {
                        Some(i) => mt.entries[i].1 = n,
                        None => mt.entries.push((k.clone(), n)),
                    }
                    touch_line_of(&mut s.frags, &path);
                    s.log.push(format!("{}.inline_insert({k:?})", path_str(&path)));
                    Ok(Some("inline.insert"))
                }
                1 if !keys.is_empty() => {
                    let k = keys[t.below(keys.len())].clone();
                    it.remove(&k);
                    let i = mt.index_of(&k).unwrap();
                    mt.entries.remove(i);
                    touch_line_of(&mut s.frags, &path);
                    s.log.push(format!("{}.inline_remove({k:?})", path_str(&path)));
                    Ok(Some("inline.remove"))
                }
                2 => {
                    let k = t.pick(&NEW_KEYS).to_string();
                    if mt.get(&k).map(is_ph).unwrap_or(false) {
                        // unspecified on a placeholder slot
                        return Ok(None);
                    }
                    let (n, v) = new_scalar(&mut s.counter, t);
                    it.get_or_insert(&k, v);
                    if mt.index_of(&k).is_none() {
                        mt.entries.push((k.clone(), n));
                    }
                    touch_line_of(&mut s.frags, &path);
                    s.log.push(format!("{}.get_or_insert({k:?})", path_str(&path)));
                    Ok(Some("inline.get_or_insert"))
                }
                _ => Ok(None),
            }
        }
        CKind::Array => {
            // a value taken from elsewhere in the document, with whatever decoration it carries
            // there (the comment after `key = value # ..` is part of it): push / insert apply the
            // default formatting to what they are given
            let cloned: Option<(Value, Node)> = if t.chance(1, 5) && !s.frags.is_empty() {
                let fp = s.frags[t.below(s.frags.len())].path.clone();
                match fp.split_last() {
                    Some((Seg::Key(k), parent)) => {
                        let v = re_nav_table(&s.doc, &parent.to_vec()).and_then(|tb| tb.get(k)).and_then(|it| it.as_value()).cloned();
                        let n = mnav(&mut s.model, &fp).and_then(|c| match c {
                            MCur::N(n) => Some(n.clone()),
                            _ => None,
                        });
                        match (v, n) {
                            (Some(v), Some(n)) if !is_ph(&n) => Some((v, n)),
                            _ => None,
                        }
                    }
                    _ => None,
                }
            } else {
                None
            };
            let arr = as_array(nav_mut(&mut s.doc, &path).ok_or_else(|| hf("doc nav"))?).ok_or_else(|| hf("doc array"))?;
            let MCur::N(Node::Array(ma)) = mnav(&mut s.model, &path).ok_or_else(|| hf("model nav"))? else { return Err(hf("model array")) };
            let len = ma.len();
            let (n, v) = new_scalar(&mut s.counter, t);
            let r = match if cloned.is_some() { 100 } else { t.below(10) } {
                100 => {
                    let (cv, cn) = cloned.unwrap();
                    if t.chance(1, 2) {
                        arr.push(cv);
                        ma.push(cn);
                        "array.push-cloned"
                    } else {
                        let i = t.below(len + 1);
                        arr.insert(i, cv);
                        ma.insert(i, cn);
                        "array.insert-cloned"
                    }
                }
                7 if len > 1 => {
                    // a stable sort by a key with ties: elements of the same type keep their order
                    arr.sort_by_key(|x| x.type_name().len());
                    ma.sort_by_key(|x| match x {
                        Node::Table(_) => "inline table".len(),
                        other => other.type_name().len(),
                    });
                    "array.sort_by_key"
                }
                8 => {
                    let (n2, v2) = new_scalar(&mut s.counter, t);
                    arr.extend([v, v2]);
                    ma.push(n);
                    ma.push(n2);
                    "array.extend"
                }
                9 => {
                    arr.fmt();
                    "array.fmt"
                }
                0 => {
                    arr.push(v);
                    ma.push(n);
                    "array.push"
                }
                1 => {
                    arr.push_formatted(v);
                    ma.push(n);
                    "array.push_formatted"
                }
                2 => {
                    let i = t.below(len + 1);
                    arr.insert(i, v);
                    ma.insert(i, n);
                    "array.insert"
                }
                3 if len > 0 => {
                    let i = t.below(len);
                    arr.replace(i, v);
                    ma[i] = n;
                    if i == len - 1 {
                        "array.replace-last"
                    } else {
                        "array.replace"
                    }
                }
                4 if len > 0 => {
                    let i = t.below(len);
                    arr.remove(i);
                    ma.remove(i);
                    "array.remove"
                }
                5 if len > 1 => {
                    let mask = t.next();
                    let mut idx = 0;
                    arr.retain(|_| {
                        let k = mask & (1 << (idx % 32)) != 0;
                        idx += 1;
                        k
                    });
                    let mut idx = 0;
                    ma.retain(|_| {
                        let k = mask & (1 << (idx % 32)) != 0;
                        idx += 1;
                        k
                    });
                    "array.retain"
                }
                6 if t.chance(1, 3) => {
                    arr.clear();
                    ma.clear();
                    "array.clear"
                }
                _ => return Ok(None),
            };
            touch_line_of(&mut s.frags, &path);
            s.log.push(format!("{}.{r}", path_str(&path)));
            Ok(Some(r))
        }
        CKind::Aot => {
            let aot = as_aot(nav_mut(&mut s.doc, &path).ok_or_else(|| hf("doc nav"))?).ok_or_else(|| hf("doc aot"))?;
            let MCur::N(Node::Aot(ma)) = mnav(&mut s.model, &path).ok_or_else(|| hf("model nav"))? else { return Err(hf("model aot")) };
            let len = ma.len();
            let r = match t.below(4) {
                3 if len > 1 => {
                    // keep a suffix-closed choice simple: drop every element whose index bit is clear,
                    // but never the first one (its header fixes the array's place among the siblings)
                    let mask = t.next() | 1;
                    let mut idx = 0;
                    aot.retain(|_| {
                        let k = mask & (1 << (idx % 32)) != 0;
                        idx += 1;
                        k
                    });
                    let removed: Vec<usize> = (0..len).filter(|i| mask & (1 << (i % 32)) == 0).collect();
                    let mut idx = 0;
                    ma.retain(|_| {
                        let k = mask & (1 << (idx % 32)) != 0;
                        idx += 1;
                        k
                    });
                    // fragments: removed elements vanish, the others are renumbered
                    touch(&mut s.frags, &path);
                    // paths below the array: gone with a removed element, renumbered otherwise
                    let renumber = |q: &Path| -> Option<Path> {
                        if q.len() > path.len() && q[..path.len()] == path[..] {
                            if let Seg::Idx(j) = q[path.len()] {
                                if removed.contains(&j) {
                                    return None;
                                }
                                let mut q2 = q.clone();
                                q2[path.len()] = Seg::Idx(j - removed.iter().filter(|r| **r < j).count());
                                return Some(q2);
                            }
                        }
                        Some(q.clone())
                    };
                    s.sorted = s.sorted.iter().filter_map(renumber).collect();
                    s.moved_aot_parents = s.moved_aot_parents.iter().filter_map(renumber).collect();
                    "aot.retain"
                }
                0 if s.restrict && s.excl == Excl::NoPush => return Ok(Some("excluded.push-after-sort")),
                0 => {
                    s.excl = Excl::NoSort;
                    let (n, v) = new_scalar(&mut s.counter, t);
                    let mut nt = Table::new();
                    nt.insert("v", toml_edit::value(v));
                    aot.push(nt);
                    let mut mnew = Tbl::new(TblKind::AotElem);
                    mnew.entries.push(("v".into(), n));
                    ma.push(mnew);
                    "aot.push"
                }
                1 if len > 0 => {
                    let i = t.below(len);
                    aot.remove(i);
                    ma.remove(i);
                    if i == 0 {
                        s.moved_aot_parents.push(path[..path.len() - 1].to_vec());
                    }
                    // fragments of the removed element vanish, later elements shift down
                    let mut p = path.clone();
                    p.push(Seg::Idx(i));
                    touch(&mut s.frags, &p);
                    for f in s.frags.iter_mut() {
                        if f.path.len() > path.len() && f.path[..path.len()] == path[..] {
                            if let Seg::Idx(j) = f.path[path.len()] {
                                if j > i {
                                    f.path[path.len()] = Seg::Idx(j - 1);
                                }
                            }
                        }
                    }
                    s.sorted.retain(|q| !(q.len() >= p.len() && q[..p.len()] == p[..]));
                    for q in s.sorted.iter_mut() {
                        if q.len() > path.len() && q[..path.len()] == path[..] {
                            if let Seg::Idx(j) = q[path.len()] {
                                if j > i {
                                    q[path.len()] = Seg::Idx(j - 1);
                                }
                            }
                        }
                    }
                    "aot.remove"
                }
                2 if t.chance(1, 4) => {
                    aot.clear();
                    ma.clear();
                    touch(&mut s.frags, &path);
                    s.sorted.retain(|q| !(q.len() >= path.len() && q[..path.len()] == path[..]));
                    "aot.clear"
                }
                _ => return Ok(None),
            };
            s.log.push(format!("{}.{r}", path_str(&path)));
            Ok(Some(r))
        }
    }
}

/// Item::make_value on a table / array of tables: it becomes an inline table / array; its
/// children that are not values yet (tables with headers, dotted tables of a body, arrays of
/// tables) are converted recursively, children that already are values stay exactly as they are
fn to_value_form(n: &Node) -> Node {
    match n {
        Node::Table(t) if t.kind == TblKind::Inline => n.clone(),
        Node::Table(t) => {
            let mut out = Tbl::new(TblKind::Inline);
            // (an order left open earlier - e.g. by sort_values - stays open in the inline form)
            out.order_ambiguous = t.order_ambiguous;
            out.floating = t.floating.clone();
            for (k, v) in &t.entries {
                out.entries.push((k.clone(), if is_ph(v) { v.clone() } else { to_value_form(v) }));
            }
            Node::Table(out)
        }
        Node::Aot(a) => Node::Array(a.iter().map(|t| to_value_form(&Node::Table(t.clone()))).collect()),
        o => o.clone(),
    }
}

/// is `leaf` a line of the body of the table at `tbl` (i.e. reached through dotted tables only)?
fn lines_of_table(model: &Tbl, tbl: &Path, leaf: &Path) -> bool {
    let mut m = model.clone();
    let mut cur = match mnav(&mut m, tbl) {
        Some(c) => c,
        None => return false,
    };
    for s in &leaf[tbl.len()..leaf.len().saturating_sub(1)] {
        cur = match (cur, s) {
            (MCur::T(t), Seg::Key(k)) | (MCur::N(Node::Table(t)), Seg::Key(k)) => match t.get_mut(k) {
                Some(n @ Node::Table(_)) => {
                    if let Node::Table(x) = &n {
                        if x.kind != TblKind::Dotted {
                            return false;
                        }
                    }
                    MCur::N(n)
                }
                _ => return false,
            },
            _ => return false,
        };
    }
    true
}

/// Table::sort_values is documented to sort the key/value pairs and not to affect sub-tables or
/// arrays of tables: body lines (values and dotted tables) are sorted by key, recursively through
/// dotted tables; sections keep their relative order (they print by document position)
fn sort_values_model(t: &mut Tbl, rev: bool) {
    let is_section = |n: &Node| match n {
        Node::Aot(_) => true,
        Node::Table(x) => !matches!(x.kind, TblKind::Inline | TblKind::Dotted),
        _ => false,
    };
    let mut body: Vec<(String, Node)> = vec![];
    let mut sections: Vec<(String, Node)> = vec![];
    for e in t.entries.drain(..) {
        if is_section(&e.1) {
            sections.push(e)
        } else {
            body.push(e)
        }
    }
    body.sort_by(|a, b| if rev { b.0.cmp(&a.0) } else { a.0.cmp(&b.0) });
    for (_, n) in body.iter_mut() {
        if let Node::Table(x) = n {
            if x.kind == TblKind::Dotted {
                sort_values_model(x, rev);
            }
        }
    }
    t.entries = body;
    t.entries.extend(sections);
}

/// comparison form of the model: what the printed document must decode to
fn expected_after_print(m: &Tbl) -> Tbl {
    // hidden: empty implicit / dotted tables and empty arrays of tables (U2.f); values before
    // tables (U2.g)
    fn prune_node(n: &Node) -> Option<Node> {
        Some(match n {
            Node::Table(x) => {
                let p = prune(x);
                if matches!(x.kind, TblKind::Implicit | TblKind::Dotted) && p.entries.is_empty() {
                    return None;
                }
                Node::Table(p)
            }
            Node::Aot(a) => {
                if a.is_empty() {
                    return None;
                }
                Node::Aot(a.iter().map(prune).collect())
            }
            Node::Array(a) => Node::Array(a.iter().filter_map(prune_node).collect()),
            other => other.clone(),
        })
    }
    fn prune(t: &Tbl) -> Tbl {
        let mut out = Tbl::new(t.kind);
        out.order_ambiguous = t.order_ambiguous;
        out.floating = t.floating.clone();
        for (k, n) in &t.entries {
            if let Some(m) = prune_node(n) {
                out.entries.push((k.clone(), m));
            }
        }
        out
    }
    partition(&prune(m))
}

/// does a dotted table still have a body line (a value reachable through dotted tables only)?
fn has_leaf(t: &Tbl) -> bool {
    t.entries.iter().any(|(_, n)| match n {
        Node::Table(x) if x.kind == TblKind::Dotted => has_leaf(x),
        Node::Table(x) if x.kind == TblKind::Inline => true,
        Node::Table(_) | Node::Aot(_) => false,
        _ => true,
    })
}

/// printed order inside a table: body lines (values and dotted tables, in map order) first, then
/// sections (tables with headers, implicit tables, arrays of tables) in map order
fn partition(t: &Tbl) -> Tbl {
    let mut out = Tbl::new(t.kind);
    // a header-less (implicit) table has no place of its own in the text: where it sorts among its
    // siblings is decided by its children's headers and can change when one of them is removed;
    // the order among the children of such a parent is compared as a set (same class as U2.c)
    out.order_ambiguous = t.order_ambiguous
        || !t.floating.is_empty()
        || t.entries.iter().any(|(_, n)| matches!(n, Node::Table(x) if x.kind == TblKind::Implicit || (x.kind == TblKind::Dotted && !has_leaf(x))))
        // an implicit table that received values gets a header of its own, printed after the
        // headers of its children (sub-table before super-table, U2.c)
        || (t.kind == TblKind::Implicit && t.entries.iter().any(|(_, n)| n.is_scalar() || matches!(n, Node::Array(_)) || matches!(n, Node::Table(x) if matches!(x.kind, TblKind::Inline | TblKind::Dotted))));
    let is_section = |n: &Node| match n {
        Node::Aot(_) => true,
        Node::Table(x) => match x.kind {
            TblKind::Inline => false,
            TblKind::Dotted => !has_leaf(x),
            _ => true,
        },
        _ => false,
    };
    for pass in [false, true] {
        for (k, n) in &t.entries {
            if is_section(n) != pass {
                continue;
            }
            let m = match n {
                Node::Aot(a) => Node::Aot(a.iter().map(partition).collect()),
                Node::Table(x) if x.kind != TblKind::Inline => Node::Table(partition(x)),
                other => other.clone(),
            };
            out.entries.push((k.clone(), m));
        }
    }
    out
}

fn check_state(s: &State, start_text: &str) -> Result<(), Failure> {
    check_state_doc(s, &s.doc, start_text)
}

/// tables in the order `Display` visits them (dotted-key tables are passed through)
fn visit_tables<'a>(t: &'a mut Table, f: &mut dyn FnMut(&mut Table)) {
    if !t.is_dotted() {
        f(t);
    }
    for (_, it) in t.iter_mut() {
        match it {
            Item::Table(c) => visit_tables(c, f),
            Item::ArrayOfTables(a) => {
                for c in a.iter_mut() {
                    visit_tables(c, f);
                }
            }
            _ => {}
        }
    }
}

/// Known finding F18 by its root cause: `Display` orders tables by document position and gives a
/// table without one (anything created or converted through the API) the position of the table
/// visited before it; when positions are not monotone in visiting order (reordered source,
/// sections under dotted-key tables, `sort_values`), such a table is displaced - content moves to
/// another parent, sibling order changes, or the text is not valid at all. The signature is
/// constructive: the document has a position-less table and non-monotone positions, and the same
/// document with positions renumbered in visiting order passes every oracle of this check.
fn f18_explains(s: &State, start_text: &str) -> bool {
    let mut d = s.doc.clone();
    let mut positions: Vec<Option<usize>> = vec![];
    // (the root and header-less implicit tables never carry a position and print no header of
    // their own: only a table that prints a header can be displaced)
    let mut displaceable = 0usize;
    let mut first = true;
    visit_tables(d.as_table_mut(), &mut |t| {
        if !first && !t.is_implicit() && t.position().is_none() {
            displaceable += 1;
        }
        first = false;
        positions.push(t.position());
    });
    let has_positionless = displaceable > 0;
    let some: Vec<usize> = positions.iter().flatten().copied().collect();
    let monotone = some.windows(2).all(|w| w[0] <= w[1]);
    if !has_positionless || monotone {
        return false;
    }
    let mut n = 0usize;
    visit_tables(d.as_table_mut(), &mut |t| {
        t.set_position(n);
        n += 1;
    });
    check_state_doc(s, &d, start_text).is_ok()
}

fn check_state_doc(s: &State, doc: &DocumentMut, start_text: &str) -> Result<(), Failure> {
    let out = doc.to_string();
    let case = || json!({"start": start_text, "ops": s.log, "printed": out});
    let ctx = || format!("--- start\n{start_text}\n--- edits\n{:#?}\n--- printed\n{out}\n---", s.log);
    let re = out.parse::<DocumentMut>().map_err(|e| Failure::new("valid", format!("printed document does not parse after the edits: {e}\n{}", ctx()), case()))?;
    match tomlref::decode(&out).0 {
        Verdict::Valid(_) | Verdict::Limit(_) | Verdict::U1(_) => {}
        v => return Err(Failure::new("valid", format!("printed document is not valid TOML per the reference: {}\n{}", v.short(), ctx()), case())),
    }
    let visible = strip_ph(&s.model);
    let mut want = expected_after_print(&visible);
    // after sort_values the relative order of the table's *sections* is not pinned (the method
    // documents that it does not affect them, "assuming" they carry a document position, which
    // API-created tables do not): compare that table's children as a set, and check separately,
    // right after the call, that its body lines are in key order
    for p in &s.sorted {
        if let Some(t) = mnav(&mut want, p).and_then(mtable) {
            mark_all_ambiguous(t);
        }
    }
    for p in &s.moved_aot_parents {
        if let Some(t) = mnav(&mut want, p).and_then(mtable) {
            t.order_ambiguous = true;
        }
    }
    let mut got = model::from_doc(&re);
    if let Some((p, rev)) = &s.just_sorted {
        // the body lines of the table - and of the dotted-key tables below it - are in the order asked for
        fn body_in_order(t: &Tbl, rev: bool, at: &mut Vec<String>) -> Result<(), (Vec<String>, Vec<String>)> {
            let body: Vec<String> = t.entries.iter().filter(|(_, n)| !matches!(n, Node::Aot(_)) && !matches!(n, Node::Table(x) if matches!(x.kind, TblKind::Std | TblKind::Implicit | TblKind::AotElem))).map(|e| e.0.clone()).collect();
            let mut sorted = body.clone();
            sorted.sort();
            if rev {
                sorted.reverse();
            }
            if body != sorted {
                return Err((at.clone(), body));
            }
            Ok(())
        }
        // below it: the library recurses into dotted-key tables held as `Item::Table` (a dotted table
        // inside a former inline table stays a value and is left alone - not pinned by the docs)
        fn doc_in_order(t: &Table, rev: bool, at: &mut Vec<String>) -> Result<(), (Vec<String>, Vec<String>)> {
            let body: Vec<String> = t.iter().filter(|(_, it)| it.is_value() || matches!(it, Item::Table(x) if x.is_dotted())).map(|(k, _)| k.to_string()).collect();
            let mut sorted = body.clone();
            sorted.sort();
            if rev {
                sorted.reverse();
            }
            if body != sorted {
                return Err((at.clone(), body));
            }
            for (k, it) in t.iter() {
                if let Item::Table(x) = it {
                    if x.is_dotted() {
                        at.push(k.to_string());
                        doc_in_order(x, rev, at)?;
                        at.pop();
                    }
                }
            }
            Ok(())
        }
        let mut g2 = got.clone();
        if let Some(t) = mnav(&mut g2, p).and_then(mtable) {
            let in_doc = re_nav_table(doc, p).map(|dt| doc_in_order(dt, *rev, &mut vec![])).unwrap_or(Ok(()));
            if let Err((at, body)) = body_in_order(t, *rev, &mut vec![]).and(in_doc) {
                return Err(Failure::new("sort", format!("after {} the body lines of {} (dotted sub-table {at:?}) are not in {} key order: {body:?}\n{}", if *rev { "sort_values_by(reverse)" } else { "sort_values" }, path_str(p), if *rev { "descending" } else { "ascending" }, ctx()), case()));
            }
        }
    }
    // order among sibling *tables* follows document positions, which the property does not pin
    // for tables created before their parents: compare sibling tables as a set there
    mark_ambiguous(&mut got, &want);
    model::diff_tbl(&got, &want, Cmp::EXACT).map_err(|e| Failure::new("content", format!("printed document does not decode to the original content with the same edits applied: {e}\n{}", ctx()), case()))?;
    // the structure itself reads as the model
    let mut structure = visible.clone();
    for p in &s.sorted {
        if let Some(t) = mnav(&mut structure, p).and_then(mtable) {
            mark_all_ambiguous(t);
        }
    }
    model::diff_tbl(&model::from_doc(doc), &structure, Cmp { hide_empty: true, ..Cmp::EXACT })
        .map_err(|e| Failure::new("structure", format!("the edited structure does not read back as the edited model: {e}\n{}", ctx()), case()))?;
    // untouched entries verbatim
    let out_nocr = out.replace('\r', "");
    for f in &s.frags {
        let frag = f.text.replace('\r', "");
        if !out_nocr.contains(&frag) {
            return Err(Failure::new("verbatim", format!("the source text of untouched entry {} is no longer in the output: {:?}\n{}", path_str(&f.path), f.text, ctx()), case()));
        }
    }
    Ok(())
}

fn copy_kinds(m: &mut Node, d: &Node) {
    match (m, d) {
        (Node::Table(a), Node::Table(b)) => {
            a.kind = b.kind;
            for (k, c) in a.entries.iter_mut() {
                if let Some(dc) = b.get(k) {
                    copy_kinds(c, dc);
                }
            }
        }
        (Node::Array(a), Node::Array(b)) => {
            for (x, y) in a.iter_mut().zip(b.iter()) {
                copy_kinds(x, y);
            }
        }
        (Node::Aot(a), Node::Aot(b)) => {
            for (x, y) in a.iter_mut().zip(b.iter()) {
                x.kind = y.kind;
                for (k, c) in x.entries.iter_mut() {
                    if let Some(dc) = y.get(k) {
                        copy_kinds(c, dc);
                    }
                }
            }
        }
        _ => {}
    }
}

fn mark_deep(n: &mut Node) {
    match n {
        Node::Table(t) => {
            t.order_ambiguous = true;
            t.entries.iter_mut().for_each(|(_, c)| mark_deep(c));
        }
        Node::Array(a) => a.iter_mut().for_each(mark_deep),
        Node::Aot(a) => a.iter_mut().for_each(|t| {
            t.order_ambiguous = true;
            t.entries.iter_mut().for_each(|(_, c)| mark_deep(c));
        }),
        _ => {}
    }
}

fn mark_all_ambiguous(t: &mut Tbl) {
    t.order_ambiguous = true;
    for (_, n) in t.entries.iter_mut() {
        if let Node::Table(x) = n {
            if x.kind == TblKind::Dotted {
                mark_all_ambiguous(x);
            }
        }
    }
}

fn mark_ambiguous(got: &mut Tbl, want: &Tbl) {
    if want.order_ambiguous || !want.floating.is_empty() {
        got.order_ambiguous = true;
    }
    for (k, n) in got.entries.iter_mut() {
        match (n, want.get(k)) {
            (Node::Table(g), Some(Node::Table(w))) => mark_ambiguous(g, w),
            (Node::Aot(g), Some(Node::Aot(w))) => {
                for (a, b) in g.iter_mut().zip(w.iter()) {
                    mark_ambiguous(a, b);
                }
            }
            _ => {}
        }
    }
}

pub const F21_WHAT: &str = "Item::into_table / into_array_of_tables on a `key = { .. }` / `key = [{..}]` entry parsed from a document: the key keeps its line decoration (blank or comment lines before the entry), which is then printed inside the header brackets - `[\nkey ]` - so the printed document is not valid TOML";
static KNOWN_F21: std::sync::atomic::AtomicBool = std::sync::atomic::AtomicBool::new(false);
pub const F18_WHAT: &str = "Display gives a table without a document position (ArrayOfTables::push, a new sub-table, into_table / into_array_of_tables) the position of the table visited before it; when positions are not monotone in visiting order (reordered source, sections under a dotted-key table, sort_values) the table is displaced: sections move to another array element or parent, sibling order changes, or the text is not valid TOML";
static KNOWN_F18: std::sync::atomic::AtomicBool = std::sync::atomic::AtomicBool::new(false);

/// does some dotted table of the model have a section (header table / array of tables) child?
fn has_section_under_dotted(t: &Tbl) -> bool {
    t.entries.iter().any(|(_, n)| match n {
        Node::Table(x) if x.kind == TblKind::Dotted => {
            x.entries.iter().any(|(_, c)| matches!(c, Node::Aot(_)) || matches!(c, Node::Table(y) if matches!(y.kind, TblKind::Std | TblKind::Implicit))) || has_section_under_dotted(x)
        }
        Node::Table(x) if x.kind != TblKind::Inline => has_section_under_dotted(x),
        Node::Aot(a) => a.iter().any(has_section_under_dotted),
        _ => false,
    })
}

fn prop(t: &mut Tape, st: &mut Stats) -> Result<(), Failure> {
    prop_with(t, st, false)
}
fn prop_f18probe(t: &mut Tape, st: &mut Stats) -> Result<(), Failure> {
    prop_with(t, st, true)
}

fn prop_with(t: &mut Tape, st: &mut Stats, probe: bool) -> Result<(), Failure> {
    let mut cfg = GenCfg::default();
    // sections hanging under dotted-key tables are excluded from the main run (known finding
    // F18) and exercised by the probe run
    cfg.sections_under_dotted = probe;
    cfg.reorder = probe;
    cfg.adjacent = true;
    cfg.f11_safe = true;
    cfg.decor = t.weighted(&[1, 5, 3]) as u8;
    cfg.budget = 8 + t.below(30);
    if t.chance(1, 12) && std::env::var("NO_WIDE").is_err() {
        // wide documents (dozens of tables)
        cfg.many_sections = true;
        cfg.budget = 250 + t.below(250);
    }
    cfg.mark_every_line = true;
    // U2.c: where a table declared after one of its sub-tables sorts among later siblings is not
    // decided; such layouts are excluded here by construction
    cfg.sub_before_super = false;
    cfg.allow_crlf = false;
    cfg.allow_bom = false;
    cfg.plain_keys = t.chance(2, 3);
    let r = gen_doc(t, &cfg);
    st.eval();
    let doc: DocumentMut = r.text.parse().map_err(|e| Failure::new("parse", format!("{e}\n{}", r.text), json!({"text": r.text})))?;
    // fragments: the `key = value  # marker` part of every body line
    let frags: Vec<Frag> = r
        .map
        .entries
        .iter()
        .filter(|e| !e.in_inline)
        .map(|e| Frag { path: e.path.clone(), text: r.text[e.kv.start..e.line.end].to_string() })
        .collect();
    let mut s = State { doc, model: r.expected.clone(), frags, log: vec![], counter: 0, sorted: vec![], just_sorted: None, moved_aot_parents: vec![], excl: Excl::None, restrict: !probe };
    // U2.c: tables whose sibling order is specification-ambiguous stay flagged in the model
    check_state(&s, &r.text)?;
    let n = 1 + t.below(25);
    let mut classes: Vec<&'static str> = vec![];
    let mut touched_containers = std::collections::HashSet::new();
    for _ in 0..n {
        let before = if probe { has_section_under_dotted(&s.model) } else { false };
        if let Some(c) = step(&mut s, t)? {
            st.class(c);
            if c == "known.F21" {
                st.known("F21", F21_WHAT);
                continue;
            }
            if c.starts_with("excluded.") {
                continue;
            }
            classes.push(c);
            if let Some(l) = s.log.last() {
                touched_containers.insert(l.split('.').next().unwrap_or("").to_string());
            }
            if let Err(f) = check_state(&s, &r.text) {
                let _ = before;
                if matches!(f.sub.as_str(), "content" | "valid") && KNOWN_F18.load(std::sync::atomic::Ordering::Relaxed) && f18_explains(&s, &r.text) {
                    st.known("F18", F18_WHAT);
                    st.class(if probe { "known.F18.probe" } else { "known.F18.main" });
                    return Ok(());
                }
                return Err(f);
            }
            s.just_sorted = None;
        }
    }
    let special = classes.iter().any(|c| matches!(*c, "array.replace-last" | "table.add-table-under-implicit-or-dotted" | "table.sort_values" | "table.sort_values_by" | "aot.remove"))
        || classes.windows(2).any(|w| w[0] == "table.remove" && w[1].starts_with("table.insert"));
    if (classes.len() >= 3 && touched_containers.len() >= 2) || special {
        st.nontrivial(fnv64(format!("{}{:?}", r.text, s.log).as_bytes()));
    }
    st.class_n("untouched-fragments-checked", s.frags.len() as u64);
    st.sample(|| json!({"start": r.text, "ops": s.log, "final": s.doc.to_string()}));
    Ok(())
}

pub fn run(args: Args) -> ! {
    let mut rep = Report::new("C08", args.tier, args.seed);
    rep.rule = "stateful: a generated start document (every line carries a unique comment marker; repeated key-path components spelled consistently) and 1..25 generated edits on containers chosen from the current model: Table insert (new / existing key) / IndexMut assignment / remove / remove_entry / add sub-table / retain / entry().or_insert / sort_values / sort_values_by (reverse key order) / fmt / mutable-indexing probe; Item make_value / into_table / into_array_of_tables on an entry (also where they do not apply and hand the item back: a no-op); InlineTable insert / remove / get_or_insert / sort_values(_by) / retain / clear / fmt; Array push / push_formatted / insert (fresh values and values cloned with their decoration from elsewhere in the document) / replace / remove / retain / clear / sort_by_key (stable, with ties) / extend / fmt; ArrayOfTables push / remove / retain / clear. After every edit: the printed text parses (library and reference), decodes to the edited plain model (values before tables; empty arrays of tables and empty implicit/dotted tables hidden), the structure reads back as the model, and the source text `key = value # marker` of every untouched entry is still in the output verbatim. non-trivial = >= 3 edits over >= 2 containers, or a special pattern (insert after remove, replace of the last array element, table under an implicit/dotted parent, sort, array-of-tables removal); distinct by (document, edits)".into();
    rep.assumptions = vec![
        "raw decor setters, set_dotted/set_implicit/set_position are outside the quantifier (property text)".into(),
        "comparison of untouched fragments is modulo CR (CR handling is C03's subject)".into(),
    ];
    KNOWN_F18.store(rep.is_known("F18"), std::sync::atomic::Ordering::Relaxed);
    KNOWN_F21.store(rep.is_known("F21"), std::sync::atomic::Ordering::Relaxed);
    if let Some(p) = &args.replay {
        let j = super::load_replay(p);
        let tape = super::replay_tape(&j);
        let mut st = Stats::new();
        let pr: &TapeProp = if j["sub"].as_str() == Some("f18probe") { &prop_f18probe } else { &prop };
        if let Err(f) = guarded(pr, &tape, &mut st) {
            rep.violation("replay", Some(&tape), &f);
        }
        rep.stats.merge(st);
        rep.stats.nontrivial.insert(1);
        rep.stats.nontrivial.insert(2);
        rep.finish();
    }
    for p in super::regression_files("C08") {
        let j = super::load_replay(&p);
        let tape = super::replay_tape(&j);
        let mut st = Stats::new();
        if let Err(f) = guarded(&prop, &tape, &mut st) {
            rep.violation("regression", Some(&tape), &f);
        }
        rep.stats.merge(st);
    }
    let run = run_tape("C08.edits", &prop, 3000, args.tier.pick(120_000, 1_200_000), args.seed, workers());
    finish_run(&mut rep, "edits", run);
    let run = run_tape("C08.f18probe", &prop_f18probe, 3000, args.tier.pick(30_000, 400_000), args.seed, workers());
    finish_run(&mut rep, "f18probe", run);
    for c in ["entry.make_value", "entry.into_table", "entry.into_array_of_tables", "entry.refused-conversion", "table.vivify-probe", "inline.vivify-probe", "table.insert-new", "table.insert-existing", "table.remove", "table.add-table", "table.add-table-under-implicit-or-dotted", "table.retain", "table.sort_values", "table.sort_values_by", "inline.sort_values", "inline.retain", "inline.fmt", "array.sort_by_key", "array.extend", "array.fmt", "array.push-cloned", "array.insert-cloned", "aot.retain", "inline.insert", "inline.remove", "array.push", "array.insert", "array.replace", "array.replace-last", "array.remove", "aot.push", "aot.remove"] {
        rep.require_class(c);
    }
    rep.finish()
}
