//! C20 — visitors reach every node of a document exactly once.

use super::c02::finish_run;
use super::Args;
use crate::engine::*;
use crate::gen::{gen_doc, GenCfg};
use crate::model::{self, Cmp, Node, Tbl, TblKind};
use crate::tape::{fnv64, Tape};
use serde_json::json;
use toml_edit::visit::{self, Visit};
use toml_edit::visit_mut::{self, VisitMut};
use toml_edit::*;

#[derive(Default)]
struct Rec {
    log: Vec<String>,
}
impl<'doc> Visit<'doc> for Rec {
    fn visit_document(&mut self, node: &'doc DocumentMut) {
        self.log.push("document".into());
        visit::visit_document(self, node);
    }
    fn visit_item(&mut self, node: &'doc Item) {
        self.log.push("item".into());
        visit::visit_item(self, node);
    }
    fn visit_table(&mut self, node: &'doc Table) {
        self.log.push("table".into());
        visit::visit_table(self, node);
    }
    fn visit_inline_table(&mut self, node: &'doc InlineTable) {
        self.log.push("inline_table".into());
        visit::visit_inline_table(self, node);
    }
    fn visit_table_like(&mut self, node: &'doc dyn TableLike) {
        self.log.push("table_like".into());
        visit::visit_table_like(self, node);
    }
    fn visit_table_like_kv(&mut self, key: &'doc str, node: &'doc Item) {
        self.log.push(format!("kv {key:?}"));
        visit::visit_table_like_kv(self, key, node);
    }
    fn visit_array(&mut self, node: &'doc Array) {
        self.log.push("array".into());
        visit::visit_array(self, node);
    }
    fn visit_array_of_tables(&mut self, node: &'doc ArrayOfTables) {
        self.log.push("array_of_tables".into());
        visit::visit_array_of_tables(self, node);
    }
    fn visit_value(&mut self, node: &'doc Value) {
        self.log.push("value".into());
        visit::visit_value(self, node);
    }
    fn visit_boolean(&mut self, node: &'doc Formatted<bool>) {
        self.log.push(format!("bool {}", node.value()));
    }
    fn visit_datetime(&mut self, node: &'doc Formatted<Datetime>) {
        self.log.push(format!("datetime {}", model::Dt::from_lib(node.value()).canonical()));
    }
    fn visit_float(&mut self, node: &'doc Formatted<f64>) {
        self.log.push(format!("float {:#x}", canon_bits(*node.value())));
    }
    fn visit_integer(&mut self, node: &'doc Formatted<i64>) {
        self.log.push(format!("integer {}", node.value()));
    }
    fn visit_string(&mut self, node: &'doc Formatted<String>) {
        self.log.push(format!("string {:?}", node.value()));
    }
}

fn canon_bits(f: f64) -> u64 {
    f.to_bits()
}

#[derive(Default)]
struct RecMut {
    log: Vec<String>,
    bump: bool,
}
impl VisitMut for RecMut {
    fn visit_document_mut(&mut self, node: &mut DocumentMut) {
        self.log.push("document".into());
        visit_mut::visit_document_mut(self, node);
    }
    fn visit_item_mut(&mut self, node: &mut Item) {
        self.log.push("item".into());
        visit_mut::visit_item_mut(self, node);
    }
    fn visit_table_mut(&mut self, node: &mut Table) {
        self.log.push("table".into());
        visit_mut::visit_table_mut(self, node);
    }
    fn visit_inline_table_mut(&mut self, node: &mut InlineTable) {
        self.log.push("inline_table".into());
        visit_mut::visit_inline_table_mut(self, node);
    }
    fn visit_table_like_mut(&mut self, node: &mut dyn TableLike) {
        self.log.push("table_like".into());
        visit_mut::visit_table_like_mut(self, node);
    }
    fn visit_table_like_kv_mut(&mut self, key: KeyMut<'_>, node: &mut Item) {
        self.log.push(format!("kv {:?}", key.get()));
        visit_mut::visit_table_like_kv_mut(self, key, node);
    }
    fn visit_array_mut(&mut self, node: &mut Array) {
        self.log.push("array".into());
        visit_mut::visit_array_mut(self, node);
    }
    fn visit_array_of_tables_mut(&mut self, node: &mut ArrayOfTables) {
        self.log.push("array_of_tables".into());
        visit_mut::visit_array_of_tables_mut(self, node);
    }
    fn visit_value_mut(&mut self, node: &mut Value) {
        self.log.push("value".into());
        visit_mut::visit_value_mut(self, node);
    }
    fn visit_boolean_mut(&mut self, node: &mut Formatted<bool>) {
        self.log.push(format!("bool {}", node.value()));
    }
    fn visit_datetime_mut(&mut self, node: &mut Formatted<Datetime>) {
        self.log.push(format!("datetime {}", model::Dt::from_lib(node.value()).canonical()));
    }
    fn visit_float_mut(&mut self, node: &mut Formatted<f64>) {
        self.log.push(format!("float {:#x}", canon_bits(*node.value())));
    }
    fn visit_integer_mut(&mut self, node: &mut Formatted<i64>) {
        self.log.push(format!("integer {}", node.value()));
        if self.bump {
            let v = node.value().wrapping_add(1);
            *node = Formatted::new(v);
        }
    }
    fn visit_string_mut(&mut self, node: &mut Formatted<String>) {
        self.log.push(format!("string {:?}", node.value()));
    }
}

/// expected log: a pre-order walk of the model alone
fn walk_tbl(t: &Tbl, inline: bool, out: &mut Vec<String>) {
    out.push(if inline { "inline_table".into() } else { "table".into() });
    out.push("table_like".into());
    for (k, n) in &t.entries {
        out.push(format!("kv {k:?}"));
        out.push("item".into());
        walk_node(n, inline, out);
    }
}
fn walk_node(n: &Node, in_value: bool, out: &mut Vec<String>) {
    match n {
        Node::Table(t) => {
            let inline = in_value || t.kind == TblKind::Inline;
            if inline {
                out.push("value".into());
            }
            walk_tbl(t, inline, out);
        }
        Node::Aot(a) => {
            out.push("array_of_tables".into());
            for t in a {
                walk_tbl(t, false, out);
            }
        }
        _ => walk_value(n, out),
    }
}
fn walk_value(n: &Node, out: &mut Vec<String>) {
    out.push("value".into());
    match n {
        Node::Str(s) => out.push(format!("string {s:?}")),
        Node::Int(i) => out.push(format!("integer {i}")),
        Node::Float(b) => out.push(format!("float {:#x}", b)),
        Node::Bool(b) => out.push(format!("bool {b}")),
        Node::Dt(d) => out.push(format!("datetime {}", d.canonical())),
        Node::Array(a) => {
            out.push("array".into());
            for e in a {
                match e {
                    Node::Table(t) => {
                        out.push("value".into());
                        walk_tbl(t, true, out);
                    }
                    _ => walk_value(e, out),
                }
            }
        }
        Node::Table(t) => walk_tbl(t, true, out),
        Node::Aot(_) => unreachable!(),
    }
}

fn any_ambiguous(t: &Tbl) -> bool {
    t.order_ambiguous
        || !t.floating.is_empty()
        || t.entries.iter().any(|(_, n)| match n {
            Node::Table(s) => any_ambiguous(s),
            Node::Aot(a) => a.iter().any(any_ambiguous),
            _ => false,
        })
}

fn bump_ints(n: &mut Node) {
    match n {
        Node::Int(i) => *i = i.wrapping_add(1),
        Node::Array(a) => a.iter_mut().for_each(bump_ints),
        Node::Table(t) => t.entries.iter_mut().for_each(|(_, n)| bump_ints(n)),
        Node::Aot(a) => a.iter_mut().for_each(|t| t.entries.iter_mut().for_each(|(_, n)| bump_ints(n))),
        _ => {}
    }
}
fn has_int(n: &Node) -> bool {
    match n {
        Node::Int(_) => true,
        Node::Array(a) => a.iter().any(has_int),
        Node::Table(t) => t.entries.iter().any(|(_, n)| has_int(n)),
        Node::Aot(a) => a.iter().any(|t| t.entries.iter().any(|(_, n)| has_int(n))),
        _ => false,
    }
}

fn first_diff(a: &[String], b: &[String]) -> String {
    for i in 0..a.len().max(b.len()) {
        if a.get(i) != b.get(i) {
            return format!(
                "at event {i}: visitor {:?} vs expected {:?} (context: … {:?})",
                a.get(i),
                b.get(i),
                &b[i.saturating_sub(4)..i.min(b.len())]
            );
        }
    }
    "equal".into()
}

fn node_at<'a>(t: &'a Tbl, path: &crate::gen::Path) -> Option<&'a Node> {
    use crate::gen::Seg;
    let mut cur: Option<&Node> = None;
    let mut tbl: Option<&Tbl> = Some(t);
    for s in path {
        match s {
            Seg::Key(k) => {
                let tt = match (tbl, cur) {
                    (Some(t), _) => t,
                    (None, Some(Node::Table(t))) => t,
                    _ => return None,
                };
                cur = Some(tt.get(k)?);
                tbl = None;
            }
            Seg::Idx(i) => match cur? {
                Node::Array(a) => {
                    cur = Some(a.get(*i)?);
                }
                Node::Aot(a) => {
                    tbl = Some(a.get(*i)?);
                    cur = None;
                }
                _ => return None,
            },
        }
    }
    cur
}

fn prop(t: &mut Tape, st: &mut Stats) -> Result<(), Failure> {
    let mut cfg = GenCfg::default();
    cfg.adjacent = t.chance(1, 2);
    cfg.f11_safe = true;
    cfg.decor = t.weighted(&[3, 5, 2]) as u8;
    cfg.budget = 8 + t.below(50);
    if t.chance(1, 12) {
        // wide documents (dozens of tables)
        cfg.many_sections = true;
        cfg.budget = 250 + t.below(250);
    }
    cfg.max_depth = 6;
    let r = gen_doc(t, &cfg);
    st.eval();
    for c in &r.classes {
        st.class(c);
    }
    if any_ambiguous(&r.expected) {
        st.skip("U2.c-order-ambiguous");
        return Ok(());
    }
    let depth = Node::Table(r.expected.clone()).depth();
    if depth >= 4 && r.classes.contains(&"aot-header") {
        st.nontrivial(fnv64(r.text.as_bytes()));
    }
    let case = || json!({"text": r.text});
    let mut doc: DocumentMut = r.text.parse().map_err(|e| Failure::new("parse", format!("{e}\n{}", r.text), case()))?;
    // placeholders left behind by mutable indexing on a missing key are not part of the document:
    // neither visitor may see them, and a rewriting visitor must not turn them into entries
    if t.chance(1, 3) && !r.text.contains("__ph__") {
        st.class("placeholders");
        let _ = &mut doc["__ph__"];
        for (_, item) in doc.as_table_mut().iter_mut() {
            match item {
                Item::Table(tb) => {
                    let _ = &mut tb["__ph__"];
                }
                Item::ArrayOfTables(a) => {
                    for tb in a.iter_mut() {
                        let _ = &mut tb["__ph__"];
                    }
                }
                _ => {}
            }
        }
    }
    let mut expected = vec!["document".to_string()];
    walk_tbl(&r.expected, false, &mut expected);
    let mut rec = Rec::default();
    rec.visit_document(&doc);
    if rec.log != expected {
        return Err(Failure::new("visit", format!("read-only visitor log differs from the independent walk: {}\n---\n{}\n---", first_diff(&rec.log, &expected), r.text), case()));
    }
    let mut recm = RecMut::default();
    recm.visit_document_mut(&mut doc);
    if recm.log != expected {
        return Err(Failure::new("visit_mut", format!("mutable visitor log differs from the independent walk: {}\n---\n{}\n---", first_diff(&recm.log, &expected), r.text), case()));
    }
    st.class_n("events", expected.len() as u64);
    // the default mutable visitor must not change anything
    let out0 = doc.to_string();
    let orig = r.text.parse::<DocumentMut>().unwrap().to_string();
    if out0 != orig {
        return Err(Failure::new("visit_mut-default-changes", format!("walking with the default mutable visitor changed the printed document\n--- before\n{orig}\n--- after\n{out0}\n---"), case()));
    }
    // rewrite: every integer + 1, nothing else
    let mut bump = RecMut { log: vec![], bump: true };
    bump.visit_document_mut(&mut doc);
    let out = doc.to_string();
    let re: DocumentMut = out.parse().map_err(|e| Failure::new("rewrite", format!("rewritten document does not parse: {e}\n{out}"), case()))?;
    let mut want = Node::Table(r.expected.clone());
    bump_ints(&mut want);
    model::diff(&Node::Table(model::from_doc(&re)), &want, Cmp::EXACT)
        .map_err(|e| Failure::new("rewrite", format!("rewritten document is not `every integer + 1, nothing else`: {e}\n--- input\n{}\n--- output\n{out}\n---", r.text), case()))?;
    let mut verbatim = 0;
    let out_nocr = out.replace('\r', "");
    for e in r.map.entries.iter().filter(|e| !e.in_inline) {
        if let Some(n) = node_at(&r.expected, &e.path) {
            if !has_int(n) {
                let frag = &r.text[e.kv.clone()];
                // key paths sharing components may be re-spelled (known finding F11 of C03): compare the value part
                let val_frag = r.map.values.iter().find(|(p, _)| *p == e.path).map(|(_, rg)| &r.text[rg.clone()]).unwrap_or(frag);
                // CR handling is C03's business: compare modulo CR
                let val_norm: String = val_frag.replace('\r', "");
                if !out_nocr.contains(&val_norm) {
                    return Err(Failure::new("rewrite-verbatim", format!("value fragment {val_frag:?} without an integer was not kept verbatim\n--- output\n{out}\n---"), case()));
                }
                verbatim += 1;
            }
        }
    }
    st.class_n("verbatim-fragments", verbatim);
    // the two visitors the crates ship themselves (toml/src/fmt.rs DocumentFormatter and
    // toml_edit/src/ser/pretty.rs Pretty) are overriding mutable visitors that rewrite layout and
    // nothing else: what they print must carry exactly the data that went in
    if let Ok(v) = toml::from_str::<toml::Value>(&r.text) {
        let want_v = model::from_toml_value(&v);
        for (who, res) in [
            ("toml::to_string (DocumentFormatter)", toml::to_string(&v).map_err(|e| e.to_string())),
            ("toml::to_string_pretty (DocumentFormatter, multi-line arrays)", toml::to_string_pretty(&v).map_err(|e| e.to_string())),
            ("toml_edit::ser::to_string", toml_edit::ser::to_string(&v).map_err(|e| e.to_string())),
            ("toml_edit::ser::to_string_pretty (Pretty)", toml_edit::ser::to_string_pretty(&v).map_err(|e| e.to_string())),
        ] {
            let text = res.map_err(|e| Failure::new("formatter", format!("{who} fails on a decoded document: {e}\n---\n{}\n---", r.text), case()))?;
            let back: toml::Value = toml::from_str(&text).map_err(|e| Failure::new("formatter", format!("{who} printed text that does not parse: {e}\n---\n{text}\n---"), case()))?;
            model::diff(&model::from_toml_value(&back), &want_v, Cmp::SERDE)
                .map_err(|e| Failure::new("formatter", format!("{who} changed more than the layout: {e}\n--- input\n{}\n--- output\n{text}\n---", r.text), case()))?;
            st.class("formatter-visitor-checked");
            // the pretty formatters give *every* array the same treatment, wherever it is nested
            if who.contains("pretty") {
                struct Arrays(Vec<(usize, bool, bool)>);
                impl<'d> Visit<'d> for Arrays {
                    fn visit_array(&mut self, node: &'d toml_edit::Array) {
                        let multiline = node.iter().all(|e| e.decor().prefix().and_then(|p| p.as_str()).map(|p| p.starts_with('\n')).unwrap_or(false));
                        self.0.push((node.len(), node.trailing_comma(), multiline));
                        toml_edit::visit::visit_array(self, node);
                    }
                }
                let pd: DocumentMut = text.parse().map_err(|e| Failure::new("formatter", format!("{who}: {e}\n{text}"), case()))?;
                let mut arrays = Arrays(vec![]);
                arrays.visit_document(&pd);
                // table-valued entries (directly under a table or an array-of-tables element, not
                // inside a value array) all get the same form, wherever they are nested
                struct Forms {
                    inline: usize,
                    standard: usize,
                }
                impl<'d> Visit<'d> for Forms {
                    fn visit_table_like_kv(&mut self, _k: &'d str, node: &'d Item) {
                        match node {
                            Item::Value(Value::InlineTable(_)) => self.inline += 1,
                            Item::Value(Value::Array(a)) if !a.is_empty() && a.iter().all(|e| e.is_inline_table()) => self.inline += 1,
                            Item::Table(_) | Item::ArrayOfTables(_) => self.standard += 1,
                            _ => {}
                        }
                        // (entries of inline tables and elements of arrays are values: not descended into)
                        if let Item::Table(_) | Item::ArrayOfTables(_) = node {
                            toml_edit::visit::visit_table_like_kv(self, _k, node);
                        }
                    }
                }
                let mut forms = Forms { inline: 0, standard: 0 };
                forms.visit_document(&pd);
                if forms.inline > 0 && forms.standard > 0 {
                    return Err(Failure::new("formatter-layout", format!("{who}: of the table-valued entries that could be written with a header, {} are and {} are left inline, depending on where they are nested\n--- output\n{text}\n---", forms.standard, forms.inline), case()));
                }
                st.class("pretty-tables.uniform");
                // (which layout is the formatter's choice; that it is the same for every array of
                // the same size class, whatever it is nested in, is what "visits all of them" means)
                for long in [false, true] {
                    let group: Vec<&(usize, bool, bool)> = arrays.0.iter().filter(|(len, _, _)| (*len >= 2) == long && *len > 0).collect();
                    if let Some(first) = group.first() {
                        if let Some(odd) = group.iter().find(|a| (a.1, a.2) != (first.1, first.2)) {
                            return Err(Failure::new("formatter-layout", format!("{who}: arrays of the same size class are laid out differently depending on where they are nested: one of {} elements has (trailing comma, one element per line) = ({}, {}), another of {} elements has ({}, {})\n--- output\n{text}\n---", first.0, first.1, first.2, odd.0, odd.1, odd.2), case()));
                        }
                        st.class(if long { "pretty-array.multi-element" } else { "pretty-array.single-element" });
                    }
                }
            }
        }
    }
    st.sample(|| json!({"text": r.text, "events": expected.len(), "first_events": expected.iter().take(12).collect::<Vec<_>>()}));
    Ok(())
}

pub fn run(args: Args) -> ! {
    let mut rep = Report::new("C20", args.tier, args.seed);
    rep.rule = "tree-first documents (values nested in arrays inside inline tables inside arrays of tables, dotted-key and implicit tables) and the valid fixtures; a recording Visit and a recording VisitMut (every method logs, then calls the default function) must produce exactly the pre-order event sequence computed from the expected model alone; the default mutable walk changes nothing; a visit_integer_mut override (+1) yields a document whose decoded tree is the input with every integer incremented and nothing else, with integer-free value fragments verbatim; the crates' own overriding visitors (DocumentFormatter, Pretty, reached through the four text serializers on the decoded document) change layout only: their output decodes to the same data. non-trivial = nesting depth >= 4 and an array of tables; distinct by text".into();
    rep.assumptions = vec!["documents whose key order is specification-ambiguous (U2.c) are skipped and counted".into(), "wrapping_add at i64::MAX in the rewrite".into()];
    if let Some(p) = &args.replay {
        let j = super::load_replay(p);
        let tape = super::replay_tape(&j);
        let mut st = Stats::new();
        if let Err(f) = guarded(&prop, &tape, &mut st) {
            rep.violation("replay", Some(&tape), &f);
        }
        rep.stats.merge(st);
        rep.stats.nontrivial.insert(1);
        rep.stats.nontrivial.insert(2);
        rep.finish();
    }
    for p in super::regression_files("C20") {
        let j = super::load_replay(&p);
        let tape = super::replay_tape(&j);
        let mut st = Stats::new();
        if let Err(f) = guarded(&prop, &tape, &mut st) {
            rep.violation("regression", Some(&tape), &f);
        }
        rep.stats.merge(st);
    }
    // fixtures: visitor log vs walk of the reference tree
    for f in crate::corpus::load().iter().filter(|f| f.valid) {
        let text = std::str::from_utf8(&f.bytes).unwrap();
        let crate::tomlref::Verdict::Valid(tree) = crate::tomlref::decode(text).0 else { continue };
        if any_ambiguous(&tree) {
            continue;
        }
        let Ok(doc) = text.parse::<DocumentMut>() else { continue };
        rep.stats.eval();
        rep.stats.class("fixture");
        let mut expected = vec!["document".to_string()];
        walk_tbl(&tree, false, &mut expected);
        let mut rec = Rec::default();
        rec.visit_document(&doc);
        // NaN payload/sign is not part of the fixture comparison
        let norm = |l: &Vec<String>| l.iter().map(|s| if s.starts_with("float 0x7ff8") || s.starts_with("float 0xfff8") { "float nan".to_string() } else { s.clone() }).collect::<Vec<_>>();
        if norm(&rec.log) != norm(&expected) {
            let fl = Failure::new("fixture-visit", format!("{}: {}", f.name, first_diff(&rec.log, &expected)), json!({"text": text}));
            rep.violation("fixture", None, &fl);
        }
    }
    let run = run_tape("C20.visit", &prop, 3000, args.tier.pick(200_000, 2_000_000), args.seed, workers());
    finish_run(&mut rep, "visit", run);
    for c in ["aot-header", "inline-table", "dotted-key", "array", "events", "verbatim-fragments"] {
        rep.require_class(c);
    }
    rep.finish()
}
