//! C13 — every decoding and encoding route gives the same answer.

use super::c02::finish_run;
use super::c07::{sd_has_datetime, text_model, F5_WHAT};
use super::Args;
use crate::engine::*;
use crate::gen::{gen_doc, relayout, render, GenCfg};
use crate::model::{self, Cmp, Node};
use crate::scalars::gen_int;
use crate::serdefam::*;
use crate::tape::{fnv64, Tape};
use serde::de::DeserializeOwned;
use serde::{Deserialize, Serialize};
use serde_json::json;

static KNOWN_F5: std::sync::atomic::AtomicBool = std::sync::atomic::AtomicBool::new(false);

/// every decoding route for target type T on a document text: (name, result as recorded value)
pub fn routes<T: DeserializeOwned + Serialize>(s: &str) -> Vec<(&'static str, Result<SD, String>)> {
    let rec = |r: Result<T, String>| r.map(|v| record(&v));
    vec![
        ("toml::from_str", rec(toml::from_str::<T>(s).map_err(|e| e.to_string()))),
        ("toml_edit::de::from_str", rec(toml_edit::de::from_str::<T>(s).map_err(|e| e.to_string()))),
        ("toml_edit::de::from_slice", rec(toml_edit::de::from_slice::<T>(s.as_bytes()).map_err(|e| e.to_string()))),
        ("from_document(DocumentMut)", rec(s.parse::<toml_edit::DocumentMut>().map_err(|e| e.to_string()).and_then(|d| toml_edit::de::from_document::<T>(d).map_err(|e| e.to_string())))),
        ("from_document(ImDocument)", rec(toml_edit::ImDocument::parse(s.to_string()).map_err(|e| e.to_string()).and_then(|d| toml_edit::de::from_document::<T>(d).map_err(|e| e.to_string())))),
        ("toml::de::Deserializer", rec(T::deserialize(toml::de::Deserializer::new(s)).map_err(|e| e.to_string()))),
        ("toml_edit::de::Deserializer", rec(s.parse::<toml_edit::de::Deserializer>().map_err(|e| e.to_string()).and_then(|d| T::deserialize(d).map_err(|e| e.to_string())))),
        ("Value::try_into", rec(toml::from_str::<toml::Value>(s).map_err(|e| e.to_string()).and_then(|v| v.try_into::<T>().map_err(|e| e.to_string())))),
        ("Table::try_into", rec(toml::from_str::<toml::Table>(s).map_err(|e| e.to_string()).and_then(|v| v.try_into::<T>().map_err(|e| e.to_string())))),
    ]
}

fn check_routes<T: DeserializeOwned + Serialize + std::fmt::Debug>(ty: &str, what: &str, text: &str, want: &SD, must_succeed: bool, st: &mut Stats) -> Result<(), Failure> {
    let rs = routes::<T>(text);
    let case = || json!({"type": ty, "text": text});
    let has_dt = sd_has_datetime(want);
    let mut first_ok: Option<(&str, SD)> = None;
    for (who, r) in &rs {
        let twin = who.ends_with("try_into");
        match r {
            Ok(sd) => {
                st.class("route-ok");
                if must_succeed && !sd_eq(sd, want) {
                    return Err(Failure::new("value", format!("{who} on {what} of {ty}: decoded value differs from the serialized one\n---\n{text}\n---\nwant {want:?}\ngot  {sd:?}"), case()));
                }
                match &first_ok {
                    None => first_ok = Some((*who, sd.clone())),
                    Some((w0, s0)) => {
                        if !sd_eq(s0, sd) {
                            return Err(Failure::new("disagree", format!("{w0} and {who} disagree on {what} of {ty}\n---\n{text}\n---\n{w0}: {s0:?}\n{who}: {sd:?}"), case()));
                        }
                    }
                }
            }
            Err(e) => {
                if twin && has_dt && KNOWN_F5.load(std::sync::atomic::Ordering::Relaxed) {
                    st.known("F5", F5_WHAT);
                    continue;
                }
                st.class("route-err");
                if must_succeed {
                    return Err(Failure::new("route-fails", format!("{who} fails on {what} of {ty}: {e}\n---\n{text}\n---"), case()));
                }
            }
        }
    }
    Ok(())
}

pub fn check_type<T: DeserializeOwned + Serialize + std::fmt::Debug>(ty: &str, v: &T, t: &mut Tape, st: &mut Stats) -> Result<(), Failure> {
    st.eval();
    let sd = record(v);
    let has_dt = sd_has_datetime(&sd);
    if has_dt || format!("{sd:?}").contains("Variant") || format!("{sd:?}").contains("Some(") {
        st.nontrivial(fnv64(format!("{ty}{sd:?}").as_bytes()));
    }
    st.class(&format!("type.{ty}"));
    if has_dt {
        st.class("has-datetime");
    }
    let case = || json!({"type": ty, "value": format!("{v:?}")});
    let texts = [
        ("toml::to_string", toml::to_string(v).map_err(|e| e.to_string())),
        ("toml::to_string_pretty", toml::to_string_pretty(v).map_err(|e| e.to_string())),
        ("toml_edit::ser::to_string", toml_edit::ser::to_string(v).map_err(|e| e.to_string())),
        ("toml_edit::ser::to_string_pretty", toml_edit::ser::to_string_pretty(v).map_err(|e| e.to_string())),
    ];
    let mut plain: Option<String> = None;
    for (who, r) in &texts {
        let text = match r {
            Ok(t) => t,
            Err(e) => return Err(Failure::new("ser", format!("{who} fails for {ty}: {e}\n{v:?}"), case())),
        };
        check_routes::<T>(ty, who, text, &sd, true, st)?;
        if plain.is_none() {
            plain = Some(text.clone());
        }
    }
    let plain = plain.unwrap();
    // re-spelt text: same data, another layout and other spellings
    let m = text_model(&plain).map_err(|e| Failure::new("ser", format!("serialized text {e}\n{plain}"), case()))?;
    let mut cfg = GenCfg::default();
    cfg.f11_safe = false;
    cfg.decor = t.weighted(&[3, 4, 2]) as u8;
    cfg.allow_bom = false;
    let g = relayout(&m, t);
    let r = render(&g, t, &cfg);
    st.class("respelt");
    st.sample(|| json!({"type": ty, "serialized": plain, "respelt": r.text}));
    check_routes::<T>(ty, "re-spelt text", &r.text, &sd, true, st)?;
    // perturbed documents: the same tree with a few structural edits (arrays rewritten as
    // positional tables in any key order, entries reordered, a scalar of another type, a missing or
    // an extra key, a table rewritten as the array of its values). Decoding may fail - but all the
    // routes that succeed must agree.
    for _ in 0..2 {
        let mut pm = m.clone();
        let edits = perturb(&mut pm, t);
        if edits.is_empty() {
            continue;
        }
        let g = relayout(&pm, t);
        let mut cfg2 = cfg.clone();
        cfg2.decor = 0;
        let r2 = render(&g, t, &cfg2);
        st.class("perturbed");
        for e in &edits {
            st.class(&format!("perturb.{e}"));
        }
        check_routes::<T>(ty, "a perturbed document", &r2.text, &sd, false, st)?;
    }
    // the single-value deserializers on the value's inline form
    if !has_dt {
        if let Ok(val) = toml::Value::try_from(v) {
            let inline = val.to_string();
            for (who, r) in [
                ("toml::de::ValueDeserializer", T::deserialize(toml::de::ValueDeserializer::new(&inline)).map_err(|e| e.to_string())),
                ("toml_edit::de::ValueDeserializer", inline.parse::<toml_edit::de::ValueDeserializer>().map_err(|e| e.to_string()).and_then(|d| T::deserialize(d).map_err(|e| e.to_string()))),
                ("toml_edit::Value into_deserializer", inline.parse::<toml_edit::Value>().map_err(|e| e.to_string()).and_then(|val| {
                    use serde::de::IntoDeserializer;
                    T::deserialize(val.into_deserializer()).map_err(|e: toml_edit::de::Error| e.to_string())
                })),
            ] {
                match r {
                    Ok(b) if sd_eq(&record(&b), &sd) => {}
                    Ok(b) => return Err(Failure::new("value-deserializer", format!("{who} on {inline:?} for {ty}: value differs\nwant {v:?}\ngot  {b:?}"), case())),
                    Err(e) => return Err(Failure::new("value-deserializer", format!("{who} fails on the inline form {inline:?} of {ty}: {e}"), case())),
                }
            }
        }
    }
    // try_from direction: same tree as serializing to text and parsing
    let via_text = toml::from_str::<toml::Value>(&plain).map_err(|e| Failure::new("ser", format!("{e}"), case()))?;
    for (who, r) in [("Value::try_from", toml::Value::try_from(v).map_err(|e| e.to_string())), ("Table::try_from", toml::Table::try_from(v).map(toml::Value::Table).map_err(|e| e.to_string()))] {
        match r {
            Ok(val) => {
                if let Err(e) = model::diff(&model::from_toml_value(&val), &model::from_toml_value(&via_text), Cmp::SERDE) {
                    if has_dt && KNOWN_F5.load(std::sync::atomic::Ordering::Relaxed) {
                        st.known("F5", F5_WHAT);
                        continue;
                    }
                    return Err(Failure::new("try_from", format!("{who} for {ty} differs from parsing the serialized text: {e}\n{v:?}"), case()));
                }
            }
            Err(e) => return Err(Failure::new("try_from", format!("{who} fails for {ty} although toml::to_string succeeds: {e}\n{v:?}"), case())),
        }
    }
    Ok(())
}

/// a few random structural edits on a plain tree; returns their names
fn perturb(root: &mut crate::model::Tbl, t: &mut Tape) -> Vec<&'static str> {
    use crate::model::{Tbl, TblKind};
    let mut edits = vec![];
    fn walk(tb: &mut Tbl, t: &mut Tape, edits: &mut Vec<&'static str>, budget: &mut usize) {
        // reorder the entries of this table
        if *budget > 0 && tb.entries.len() >= 2 && t.chance(1, 6) {
            let i = t.below(tb.entries.len());
            let j = t.below(tb.entries.len());
            tb.entries.swap(i, j);
            edits.push("reorder");
            *budget -= 1;
        }
        if *budget > 0 && !tb.entries.is_empty() && t.chance(1, 12) {
            let i = t.below(tb.entries.len());
            tb.entries.remove(i);
            edits.push("drop-key");
            *budget -= 1;
        }
        if *budget > 0 && t.chance(1, 12) && tb.get("zz-extra").is_none() {
            tb.entries.push(("zz-extra".into(), Node::Int(7)));
            edits.push("extra-key");
            *budget -= 1;
        }
        for (_, n) in tb.entries.iter_mut() {
            if *budget == 0 {
                return;
            }
            match n {
                Node::Array(a) if !a.is_empty() && t.chance(1, 4) => {
                    // positional table, keys in a random order
                    let mut pairs: Vec<(String, Node)> = a.iter().cloned().enumerate().map(|(i, v)| (i.to_string(), v)).collect();
                    for i in (1..pairs.len()).rev() {
                        let j = t.below(i + 1);
                        pairs.swap(i, j);
                    }
                    let mut nt = Tbl::new(TblKind::Any);
                    nt.entries = pairs;
                    *n = Node::Table(nt);
                    edits.push("array-as-positional-table");
                    *budget -= 1;
                }
                Node::Table(x) if !x.entries.is_empty() && t.chance(1, 10) => {
                    *n = Node::Array(x.entries.iter().map(|e| e.1.clone()).collect());
                    edits.push("table-as-array");
                    *budget -= 1;
                }
                Node::Table(x) => walk(x, t, edits, budget),
                Node::Array(a) => {
                    for e in a.iter_mut() {
                        if let Node::Table(x) = e {
                            walk(x, t, edits, budget);
                        } else if *budget > 0 && t.chance(1, 10) {
                            let new = match &*e {
                                Node::Int(i) => Node::Str(i.to_string()),
                                Node::Str(_) => Node::Int(3),
                                o => o.clone(),
                            };
                            *e = new;
                            edits.push("scalar-type");
                            *budget -= 1;
                        }
                    }
                }
                Node::Int(i) if t.chance(1, 12) => {
                    *n = Node::Str(i.to_string());
                    edits.push("scalar-type");
                    *budget -= 1;
                }
                Node::Str(_) if t.chance(1, 14) => {
                    *n = Node::Int(5);
                    edits.push("scalar-type");
                    *budget -= 1;
                }
                _ => {}
            }
        }
    }
    let mut budget = 1 + t.below(3);
    walk(root, t, &mut edits, &mut budget);
    edits
}

/// documents decoded into toml::Value / toml::Table through every route
fn prop_docs(t: &mut Tape, st: &mut Stats) -> Result<(), Failure> {
    let mut cfg = GenCfg::default();
    cfg.f11_safe = false;
    cfg.adjacent = t.chance(1, 2);
    cfg.budget = 6 + t.below(40);
    let r = gen_doc(t, &cfg);
    st.eval();
    st.class("document");
    let want = Node::Table(r.expected.clone());
    let case = || json!({"text": r.text});
    let has_dt = r.classes.iter().any(|c| c.starts_with("dt-") || *c == "date" || *c == "time");
    for (who, res) in routes_value(&r.text) {
        match res {
            Ok(v) => {
                if let Err(e) = model::diff(&model::from_toml_value(&v), &want, super::c02::toml_cmp()) {
                    if who.contains("try_into") && has_dt && KNOWN_F5.load(std::sync::atomic::Ordering::Relaxed) {
                        st.known("F5", F5_WHAT);
                        continue;
                    }
                    return Err(Failure::new("doc-route", format!("{who}: toml::Value differs from the document's data: {e}\n---\n{}\n---", r.text), case()));
                }
            }
            Err(e) => return Err(Failure::new("doc-route", format!("{who} fails on a valid document: {e}\n---\n{}\n---", r.text), case())),
        }
    }
    if has_dt {
        st.nontrivial(fnv64(r.text.as_bytes()));
    }
    Ok(())
}

fn routes_value(s: &str) -> Vec<(&'static str, Result<toml::Value, String>)> {
    vec![
        ("toml::from_str::<Value>", toml::from_str::<toml::Value>(s).map_err(|e| e.to_string())),
        ("toml::from_str::<Table>", toml::from_str::<toml::Table>(s).map(toml::Value::Table).map_err(|e| e.to_string())),
        ("str::parse::<Table>", s.parse::<toml::Table>().map(toml::Value::Table).map_err(|e| e.to_string())),
        ("toml_edit::de::from_str", toml_edit::de::from_str::<toml::Value>(s).map_err(|e| e.to_string())),
        ("toml_edit::de::from_slice", toml_edit::de::from_slice::<toml::Value>(s.as_bytes()).map_err(|e| e.to_string())),
        ("from_document(DocumentMut)", s.parse::<toml_edit::DocumentMut>().map_err(|e| e.to_string()).and_then(|d| toml_edit::de::from_document::<toml::Value>(d).map_err(|e| e.to_string()))),
        ("from_document(ImDocument)", toml_edit::ImDocument::parse(s.to_string()).map_err(|e| e.to_string()).and_then(|d| toml_edit::de::from_document::<toml::Value>(d).map_err(|e| e.to_string()))),
        ("Value::deserialize(toml::de::Deserializer)", toml::Value::deserialize(toml::de::Deserializer::new(s)).map_err(|e| e.to_string())),
        ("Table -> Value::try_into::<Value>", toml::from_str::<toml::Table>(s).map_err(|e| e.to_string()).and_then(|t| t.try_into::<toml::Value>().map_err(|e| e.to_string()))),
    ]
}

/// single values of any shape (not only tables) as the *root* target of the value routes: the text
/// written by the two value serializers and by `toml::Value` Display is decoded by the value
/// deserializers; all must return the value
pub fn check_value_type<T: DeserializeOwned + Serialize + std::fmt::Debug>(ty: &str, v: &T, st: &mut Stats) -> Result<(), Failure> {
    st.eval();
    st.class(&format!("value-root.{ty}"));
    let sd = record(v);
    st.nontrivial(fnv64(format!("{ty}{sd:?}").as_bytes()));
    let case = || json!({"type": ty, "value": format!("{v:?}")});
    let mut texts: Vec<(&'static str, String)> = vec![];
    {
        let mut out = String::new();
        match v.serialize(toml::ser::ValueSerializer::new(&mut out)) {
            Ok(()) => texts.push(("toml::ser::ValueSerializer", out)),
            // a struct / tuple variant at the root is a documented unsupported shape: an error is
            // accepted there (C07 pins that a success round-trips), nowhere else
            Err(_) if root_variant_may_fail(&sd) => st.class("value-root.variant-refused"),
            Err(e) => return Err(Failure::new("value-ser", format!("toml::ser::ValueSerializer fails for {ty}: {e}\n{v:?}"), case())),
        }
    }
    match v.serialize(toml_edit::ser::ValueSerializer::new()) {
        Ok(val) => texts.push(("toml_edit::ser::ValueSerializer", val.to_string())),
        Err(_) if root_variant_may_fail(&sd) => st.class("value-root.variant-refused"),
        Err(e) => return Err(Failure::new("value-ser", format!("toml_edit::ser::ValueSerializer fails for {ty}: {e}\n{v:?}"), case())),
    }
    match toml::Value::try_from(v) {
        Ok(val) => texts.push(("toml::Value::try_from + Display", val.to_string())),
        Err(_) if root_variant_may_fail(&sd) => st.class("value-root.variant-refused"),
        Err(e) => return Err(Failure::new("value-ser", format!("toml::Value::try_from fails for {ty}: {e}\n{v:?}"), case())),
    }
    st.sample(|| json!({"type": ty, "texts": texts.iter().map(|(_, t)| t.clone()).collect::<Vec<_>>()}));
    for (wrote, text) in &texts {
        for (who, r) in [
            ("toml::de::ValueDeserializer", T::deserialize(toml::de::ValueDeserializer::new(text)).map_err(|e| e.to_string())),
            ("toml_edit::de::ValueDeserializer", text.parse::<toml_edit::de::ValueDeserializer>().map_err(|e| e.to_string()).and_then(|d| T::deserialize(d).map_err(|e| e.to_string()))),
            ("toml_edit::Value into_deserializer", text.parse::<toml_edit::Value>().map_err(|e| e.to_string()).and_then(|val| {
                use serde::de::IntoDeserializer;
                T::deserialize(val.into_deserializer()).map_err(|e: toml_edit::de::Error| e.to_string())
            })),
            ("toml::Value::try_into", toml::Value::try_from(v).map_err(|e| e.to_string()).and_then(|val| val.try_into::<T>().map_err(|e| e.to_string()))),
            // (a table-shaped value also through toml::Table's own deserializer)
            ("toml::Table::try_into", match toml::Value::try_from(v) {
                Ok(toml::Value::Table(tb)) => tb.try_into::<T>().map_err(|e| e.to_string()),
                Ok(val) => val.try_into::<T>().map_err(|e| e.to_string()),
                Err(e) => Err(e.to_string()),
            }),
        ] {
            match r {
                Ok(b) if sd_eq(&record(&b), &sd) => {}
                Ok(b) => return Err(Failure::new("value-root", format!("{who} on the text {text:?} written by {wrote} for {ty}: value differs\nwant {v:?}\ngot  {b:?}"), case())),
                Err(e) => return Err(Failure::new("value-root", format!("{who} fails on the text {text:?} written by {wrote} for {ty}: {e}"), case())),
            }
        }
    }
    Ok(())
}

fn prop_value_roots(t: &mut Tape, st: &mut Stats) -> Result<(), Failure> {
    match t.below(16) {
        // an Option at the root: Some(table) - also the empty table - is not None
        14 => check_value_type("Option<Opts>", &Some(if t.chance(1, 2) { Opts { a: None, b: None, c: None, d: None, e: None, f: None } } else { g_opts(t) }), st),
        15 => check_value_type("Option<Inner>", &Some(g_inner(t)), st),
        0 => check_value_type("NewT(i64)", &NewT(gen_int(t)), st),
        1 => check_value_type("NewStr", &NewStr(g_string(t)), st),
        2 => check_value_type("NewInner", &NewInner(g_inner(t)), st),
        3 => check_value_type("NewVec", &NewVec(g_vec(t, 3, g_inner)), st),
        4 => check_value_type("NewE", &NewE(g_e(t)), st),
        5 => check_value_type("NewNew", &NewNew(NewT(gen_int(t))), st),
        6 => check_value_type("NewArr", &NewArr(g_vec(t, 3, |t| g_vec(t, 3, g_string))), st),
        7 => check_value_type("i64", &gen_int(t), st),
        8 => check_value_type("String", &g_string(t), st),
        9 => check_value_type("Vec<Inner>", &g_vec(t, 3, g_inner), st),
        10 => check_value_type("(i32,String)", &(g_i32(t), g_string(t)), st),
        11 => check_value_type("E", &g_e(t), st),
        12 => check_value_type("TupS", &TupS(g_i32(t), g_string(t), t.chance(1, 2)), st),
        _ => check_value_type("Inner", &g_inner(t), st),
    }
}

fn prop_types(t: &mut Tape, st: &mut Stats) -> Result<(), Failure> {
    match t.below(12) {
        10 | 11 => check_type("Attrs", &g_attrs(t), t, st),
        0 => check_type("Scalars", &g_scalars(t), t, st),
        1 => check_type("Opts", &g_opts(t), t, st),
        2 => check_type("Seqs", &g_seqs(t), t, st),
        3 => check_type("Maps", &g_maps(t), t, st),
        4 | 5 => check_type("Dates", &g_dates(t), t, st),
        6 | 7 => check_type("Nested", &g_nested(t), t, st),
        8 => check_type("BTreeMap<String,E>", &g_map(t, 4, g_e), t, st),
        _ => check_type("Inner", &g_inner(t), t, st),
    }
}

pub fn run(args: Args) -> ! {
    let mut rep = Report::new("C13", args.tier, args.seed);
    rep.rule = "(type, text) pairs: a generated value of each family type is serialized by the four text serializers; on each text, and on a re-spelt text (the same data in a generated different layout and spelling), the nine decoding routes (toml::from_str, toml_edit::de::from_str / from_slice / from_document of DocumentMut and ImDocument, the two Deserializer types, Value::try_into, Table::try_into) must all succeed, agree and return the value; the three single-value deserializers are run on the value's inline form; Value::try_from / Table::try_from must give the tree that parsing the serialized text gives. Generated documents are decoded into toml::Value through nine routes and compared with the by-construction tree. non-trivial = the type contains an enum, option or date-time; distinct by (type, value)".into();
    rep.assumptions = vec!["equality of decoded values is that of the independent model serializer (NaN-total)".into()];
    KNOWN_F5.store(rep.is_known("F5"), std::sync::atomic::Ordering::Relaxed);
    if let Some(p) = &args.replay {
        let j = super::load_replay(p);
        let tape = super::replay_tape(&j);
        let mut st = Stats::new();
        let pr: &TapeProp = if j["sub"].as_str() == Some("documents") { &prop_docs } else { &prop_types };
        if let Err(f) = guarded(pr, &tape, &mut st) {
            rep.violation("replay", Some(&tape), &f);
        }
        rep.stats.merge(st);
        rep.stats.nontrivial.insert(1);
        rep.stats.nontrivial.insert(2);
        rep.finish();
    }
    for p in super::regression_files("C13") {
        let j = super::load_replay(&p);
        let tape = super::replay_tape(&j);
        let mut st = Stats::new();
        if let Err(f) = guarded(&prop_types, &tape, &mut st) {
            rep.violation("regression", Some(&tape), &f);
        }
        rep.stats.merge(st);
    }
    let run = run_tape("C13.types", &prop_types, 4000, args.tier.pick(80_000, 1_000_000), args.seed, workers());
    finish_run(&mut rep, "types", run);
    let run = run_tape("C13.value-roots", &prop_value_roots, 400, args.tier.pick(60_000, 600_000), args.seed, workers());
    finish_run(&mut rep, "value-roots", run);
    let run = run_tape("C13.documents", &prop_docs, 3000, args.tier.pick(150_000, 2_000_000), args.seed, workers());
    finish_run(&mut rep, "documents", run);
    for c in ["type.Dates", "type.Nested", "has-datetime", "respelt", "perturbed", "perturb.array-as-positional-table", "perturb.reorder", "document", "route-ok", "value-root.NewInner", "value-root.NewVec", "value-root.E"] {
        rep.require_class(c);
    }
    rep.finish()
}
