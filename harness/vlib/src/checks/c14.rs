//! C14 — spans point at exactly the source text of each item.

use super::c02::{finish_run, harness_fault};
use super::Args;
use crate::engine::*;
use crate::gen::{gen_doc, path_str, GenCfg, Path, Rendered, Seg};
use crate::model::{self, Cmp, Node};
use crate::tape::{fnv64, Tape};
use serde::de::{self, Deserialize, Deserializer, MapAccess, SeqAccess, Visitor};
use serde_json::json;
use std::collections::{BTreeMap, HashMap};
use std::ops::Range;
use toml_edit::{Item, Table, Value};

pub const F10_WHAT: &str = "Spanned<T> fails to deserialize for a table that has no span (created by dotted keys or only implied by longer headers), where T succeeds";

enum Nav<'a> {
    Item(&'a Item),
    Value(&'a Value),
    Table(&'a Table),
}

impl<'a> Nav<'a> {
    fn child(&self, seg: &Seg) -> Option<Nav<'a>> {
        match (self, seg) {
            (Nav::Item(Item::Table(t)), Seg::Key(k)) => t.get(k).map(Nav::Item),
            (Nav::Table(t), Seg::Key(k)) => t.get(k).map(Nav::Item),
            (Nav::Item(Item::Value(Value::InlineTable(t))), Seg::Key(k)) | (Nav::Value(Value::InlineTable(t)), Seg::Key(k)) => {
                t.get(k).map(Nav::Value)
            }
            (Nav::Item(Item::Value(Value::Array(a))), Seg::Idx(i)) | (Nav::Value(Value::Array(a)), Seg::Idx(i)) => a.get(*i).map(Nav::Value),
            (Nav::Item(Item::ArrayOfTables(a)), Seg::Idx(i)) => a.get(*i).map(Nav::Table),
            _ => None,
        }
    }
    fn key(&self, k: &str) -> Option<&'a toml_edit::Key> {
        match self {
            Nav::Item(Item::Table(t)) => t.key(k),
            Nav::Table(t) => t.key(k),
            Nav::Item(Item::Value(Value::InlineTable(t))) | Nav::Value(Value::InlineTable(t)) => t.key(k),
            _ => None,
        }
    }
    fn span(&self) -> Option<Range<usize>> {
        match self {
            Nav::Item(i) => i.span(),
            Nav::Value(v) => v.span(),
            Nav::Table(t) => t.span(),
        }
    }
    fn value(&self) -> Option<&'a Value> {
        match self {
            Nav::Item(Item::Value(v)) => Some(v),
            Nav::Value(v) => Some(v),
            _ => None,
        }
    }
}

fn nav<'a>(root: &'a Item, path: &Path) -> Option<Nav<'a>> {
    let mut cur = Nav::Item(root);
    for s in path {
        cur = cur.child(s)?;
    }
    Some(cur)
}

fn in_bounds(text: &str, r: &Range<usize>) -> bool {
    r.start <= r.end && r.end <= text.len() && text.is_char_boundary(r.start) && text.is_char_boundary(r.end)
}

// ------------------------------------------------------------------------------------------------
// serde mirror with a span probe at every position
// ------------------------------------------------------------------------------------------------

#[derive(Debug, Clone)]
pub struct KeyProbe {
    pub span: Option<Range<usize>>,
    pub name: String,
}

impl<'de> Deserialize<'de> for KeyProbe {
    fn deserialize<D: Deserializer<'de>>(d: D) -> Result<Self, D::Error> {
        struct V;
        impl<'de> Visitor<'de> for V {
            type Value = KeyProbe;
            fn expecting(&self, f: &mut std::fmt::Formatter<'_>) -> std::fmt::Result {
                f.write_str("a key")
            }
            fn visit_str<E: de::Error>(self, s: &str) -> Result<KeyProbe, E> {
                Ok(KeyProbe { span: None, name: s.to_string() })
            }
            fn visit_map<A: MapAccess<'de>>(self, map: A) -> Result<KeyProbe, A::Error> {
                let sp = serde_spanned::Spanned::<String>::deserialize(de::value::MapAccessDeserializer::new(map))?;
                Ok(KeyProbe { span: Some(sp.span()), name: sp.into_inner() })
            }
        }
        d.deserialize_struct(
            serde_spanned::__unstable::NAME,
            &[serde_spanned::__unstable::START_FIELD, serde_spanned::__unstable::END_FIELD, serde_spanned::__unstable::VALUE_FIELD],
            V,
        )
    }
}

#[derive(Debug, Clone)]
pub enum SV {
    Str(String),
    Int(i64),
    Float(f64),
    Bool(bool),
    Dt(String),
    Arr(Vec<SpV>),
    Tbl(Vec<(KeyProbe, SpV)>),
}
#[derive(Debug, Clone)]
pub struct SpV {
    pub span: Option<Range<usize>>,
    pub v: SV,
}

struct SvVisitor {
    probe: bool,
}

impl<'de> Visitor<'de> for SvVisitor {
    type Value = SpV;
    fn expecting(&self, f: &mut std::fmt::Formatter<'_>) -> std::fmt::Result {
        f.write_str("any TOML value")
    }
    fn visit_bool<E>(self, v: bool) -> Result<SpV, E> {
        Ok(SpV { span: None, v: SV::Bool(v) })
    }
    fn visit_i64<E>(self, v: i64) -> Result<SpV, E> {
        Ok(SpV { span: None, v: SV::Int(v) })
    }
    fn visit_u64<E>(self, v: u64) -> Result<SpV, E> {
        Ok(SpV { span: None, v: SV::Int(v as i64) })
    }
    fn visit_f64<E>(self, v: f64) -> Result<SpV, E> {
        Ok(SpV { span: None, v: SV::Float(v) })
    }
    fn visit_str<E>(self, v: &str) -> Result<SpV, E> {
        Ok(SpV { span: None, v: SV::Str(v.to_string()) })
    }
    fn visit_string<E>(self, v: String) -> Result<SpV, E> {
        Ok(SpV { span: None, v: SV::Str(v) })
    }
    fn visit_seq<A: SeqAccess<'de>>(self, mut seq: A) -> Result<SpV, A::Error> {
        let mut out = vec![];
        while let Some(e) = seq.next_element::<SpV>()? {
            out.push(e);
        }
        Ok(SpV { span: None, v: SV::Arr(out) })
    }
    fn visit_map<A: MapAccess<'de>>(self, mut map: A) -> Result<SpV, A::Error> {
        let Some(first) = map.next_key::<KeyProbe>()? else {
            return Ok(SpV { span: None, v: SV::Tbl(vec![]) });
        };
        if self.probe && first.span.is_none() && first.name == serde_spanned::__unstable::START_FIELD {
            let start: usize = map.next_value()?;
            let k2 = map.next_key::<KeyProbe>()?;
            if k2.map(|k| k.name) != Some(serde_spanned::__unstable::END_FIELD.to_string()) {
                return Err(de::Error::custom("span protocol: end"));
            }
            let end: usize = map.next_value()?;
            let k3 = map.next_key::<KeyProbe>()?;
            if k3.map(|k| k.name) != Some(serde_spanned::__unstable::VALUE_FIELD.to_string()) {
                return Err(de::Error::custom("span protocol: value"));
            }
            let inner: Inner = map.next_value()?;
            return Ok(SpV { span: Some(start..end), v: inner.0.v });
        }
        if first.span.is_none() && first.name == "$__toml_private_datetime" {
            let s: String = map.next_value()?;
            return Ok(SpV { span: None, v: SV::Dt(s) });
        }
        let mut out = vec![];
        let v: SpV = map.next_value()?;
        out.push((first, v));
        while let Some(k) = map.next_key::<KeyProbe>()? {
            let v: SpV = map.next_value()?;
            out.push((k, v));
        }
        Ok(SpV { span: None, v: SV::Tbl(out) })
    }
}

/// value without probing for a span (used once the span protocol has been unwrapped)
struct Inner(SpV);
impl<'de> Deserialize<'de> for Inner {
    fn deserialize<D: Deserializer<'de>>(d: D) -> Result<Self, D::Error> {
        d.deserialize_any(SvVisitor { probe: false }).map(Inner)
    }
}

impl<'de> Deserialize<'de> for SpV {
    fn deserialize<D: Deserializer<'de>>(d: D) -> Result<Self, D::Error> {
        d.deserialize_struct(
            serde_spanned::__unstable::NAME,
            &[serde_spanned::__unstable::START_FIELD, serde_spanned::__unstable::END_FIELD, serde_spanned::__unstable::VALUE_FIELD],
            SvVisitor { probe: true },
        )
    }
}

fn mirror_to_node(v: &SV) -> Node {
    match v {
        SV::Str(s) => Node::Str(s.clone()),
        SV::Int(i) => Node::Int(*i),
        SV::Float(f) => Node::float(*f),
        SV::Bool(b) => Node::Bool(*b),
        SV::Dt(s) => Node::Dt(crate::tomlref::datetime(s).unwrap_or(crate::model::Dt { date: None, time: None, offset: None })),
        SV::Arr(a) => Node::Array(a.iter().map(|e| mirror_to_node(&e.v)).collect()),
        SV::Tbl(t) => {
            let mut out = model::Tbl::new(model::TblKind::Any);
            for (k, v) in t {
                out.entries.push((k.name.clone(), mirror_to_node(&v.v)));
            }
            Node::Table(out)
        }
    }
}

fn mirror_nav<'a>(root: &'a SpV, path: &Path) -> Option<&'a SpV> {
    let mut cur = root;
    for s in path {
        cur = match (&cur.v, s) {
            (SV::Tbl(t), Seg::Key(k)) => &t.iter().find(|(kk, _)| kk.name == *k)?.1,
            (SV::Arr(a), Seg::Idx(i)) => a.get(*i)?,
            _ => return None,
        };
    }
    Some(cur)
}
/// a table without a span of its own (created by dotted keys, implied by longer headers) is handed
/// to serde with the range its entries cover: every child range and key range lies inside it
fn spanless_containment(m: &SpV, model: &Node, at: &mut Vec<String>) -> Result<(), String> {
    match (&m.v, model) {
        (SV::Tbl(entries), Node::Table(t)) => {
            let spanless = matches!(t.kind, model::TblKind::Dotted | model::TblKind::Implicit);
            for (k, child) in entries {
                if let (true, Some(ps)) = (spanless, &m.span) {
                    for (what, cs) in [("value", &child.span), ("key", &k.span)] {
                        if let Some(cs) = cs {
                            if cs.start < ps.start || cs.end > ps.end {
                                return Err(format!("the {what} range {cs:?} of `{}` is not inside the range {ps:?} delivered for its span-less parent table `{}`", k.name, at.join(".")));
                            }
                        }
                    }
                }
                if let Some(cm) = t.get(&k.name) {
                    at.push(k.name.clone());
                    spanless_containment(child, cm, at)?;
                    at.pop();
                }
            }
            Ok(())
        }
        (SV::Arr(a), Node::Array(ma)) => {
            for (c, cm) in a.iter().zip(ma.iter()) {
                spanless_containment(c, cm, at)?;
            }
            Ok(())
        }
        (SV::Arr(a), Node::Aot(ma)) => {
            for (c, cm) in a.iter().zip(ma.iter()) {
                spanless_containment(c, &Node::Table(cm.clone()), at)?;
            }
            Ok(())
        }
        _ => Ok(()),
    }
}

fn mirror_key<'a>(root: &'a SpV, path: &Path) -> Option<&'a KeyProbe> {
    let (last, parent) = path.split_last()?;
    let p = mirror_nav(root, &parent.to_vec())?;
    match (&p.v, last) {
        (SV::Tbl(t), Seg::Key(k)) => t.iter().find(|(kk, _)| kk.name == *k).map(|(kk, _)| kk),
        _ => None,
    }
}

// twin types
#[derive(serde::Deserialize, Debug, PartialEq)]
struct PlainOpt {
    a: Option<toml::Value>,
    b: Option<toml::Value>,
    c: Option<toml::Value>,
    d: Option<toml::Value>,
    e: Option<toml::Value>,
    k: Option<toml::Value>,
    x: Option<toml::Value>,
    y: Option<toml::Value>,
}
#[derive(serde::Deserialize, Debug)]
struct SpannedOpt {
    a: Option<serde_spanned::Spanned<toml::Value>>,
    b: Option<serde_spanned::Spanned<toml::Value>>,
    c: Option<serde_spanned::Spanned<toml::Value>>,
    d: Option<serde_spanned::Spanned<toml::Value>>,
    e: Option<serde_spanned::Spanned<toml::Value>>,
    k: Option<serde_spanned::Spanned<toml::Value>>,
    x: Option<serde_spanned::Spanned<toml::Value>>,
    y: Option<serde_spanned::Spanned<toml::Value>>,
}

fn fail(sub: &str, r: &Rendered, msg: String) -> Failure {
    Failure::new(sub, format!("{msg}\n---\n{}\n---", r.text), json!({"text": r.text}))
}

/// the whole document asked for as `Spanned<map>`: succeeds exactly when the plain map does, with the
/// same value, and the range delivered is the root table's own span (`ImDocument::as_item().span()`)
fn root_probe(text: &str) -> Result<(), Failure> {
    let case = || json!({"text": text});
    let plain: Result<BTreeMap<String, toml::Value>, _> = toml::from_str(text);
    let spanned: Result<serde_spanned::Spanned<BTreeMap<String, toml::Value>>, _> = toml::from_str(text);
    match (plain, spanned) {
        (Ok(p), Ok(s)) => {
            let doc = toml_edit::ImDocument::parse(text.to_string()).map_err(|e| Failure::new("root-twin", format!("toml::from_str succeeds but ImDocument fails: {e}\n---\n{text}\n---"), case()))?;
            let own = doc.as_item().span();
            if Some(s.span()) != own {
                return Err(Failure::new("root-twin", format!("root asked for as Spanned<map> gets the range {:?}, the root table's span is {own:?}\n---\n{text}\n---", s.span()), case()));
            }
            if s.get_ref() != &p && !p.values().any(has_nan) {
                return Err(Failure::new("root-twin", format!("Spanned<map> root decodes to another value than the plain map\n---\n{text}\n---"), case()));
            }
            Ok(())
        }
        (Err(_), Err(_)) => Ok(()),
        (Ok(_), Err(e)) => Err(Failure::new("root-twin", format!("the plain map succeeds but Spanned<map> at the root fails: {e}\n---\n{text}\n---"), case())),
        (Err(e), Ok(_)) => Err(Failure::new("root-twin", format!("the plain map fails ({e}) but Spanned<map> at the root succeeds\n---\n{text}\n---"), case())),
    }
}

/// all table nodes of the expected tree that have no span by construction (dotted / implicit)
fn has_spanless_table(t: &model::Tbl) -> bool {
    t.entries.iter().any(|(_, n)| match n {
        Node::Table(s) => matches!(s.kind, model::TblKind::Dotted | model::TblKind::Implicit) || has_spanless_table(s),
        Node::Aot(a) => a.iter().any(has_spanless_table),
        Node::Array(a) => a.iter().any(|e| matches!(e, Node::Table(s) if has_spanless_table(s)) || matches!(e, Node::Array(_)) && arr_spanless(e)),
        _ => false,
    })
}
fn arr_spanless(n: &Node) -> bool {
    match n {
        Node::Array(a) => a.iter().any(arr_spanless),
        Node::Table(s) => has_spanless_table(s),
        _ => false,
    }
}

static KNOWN_F10: std::sync::atomic::AtomicBool = std::sync::atomic::AtomicBool::new(false);

fn prop(t: &mut Tape, st: &mut Stats) -> Result<(), Failure> {
    let mut cfg = GenCfg::default();
    cfg.adjacent = t.chance(2, 3);
    cfg.f11_safe = false;
    cfg.decor = t.weighted(&[1, 4, 5]) as u8;
    cfg.budget = 8 + t.below(40);
    if t.chance(1, 12) {
        // wide documents (dozens of tables)
        cfg.many_sections = true;
        cfg.budget = 250 + t.below(250);
    }
    cfg.plain_keys = t.chance(1, 3);
    let r = gen_doc(t, &cfg);
    st.eval();
    for c in &r.classes {
        st.class(c);
    }
    let text = &r.text;
    let doc = toml_edit::ImDocument::parse(text.as_str()).map_err(|e| fail("parse", &r, format!("valid document rejected: {e}")))?;
    let root = doc.as_item();
    let multibyte_before = |pos: usize| text[..pos].chars().any(|c| c.len_utf8() > 1);
    let mut nontrivial = false;

    // --- values
    for (path, range) in &r.map.values {
        let n = nav(root, path).ok_or_else(|| harness_fault(format!("cannot navigate to {}\n{}", path_str(path), text)))?;
        let sp = n.span();
        if sp.as_ref() != Some(range) {
            return Err(fail("value-span", &r, format!("value at {}: span {:?}, source text is at {:?} ({:?})", path_str(path), sp, range, &text[range.clone()])));
        }
        if !in_bounds(text, range) {
            return Err(harness_fault("renderer range out of bounds".into()));
        }
        // re-parse the slice on its own
        let v = n.value().ok_or_else(|| harness_fault("value expected".into()))?;
        let slice = &text[range.clone()];
        let re = slice.parse::<Value>().map_err(|e| fail("value-reparse", &r, format!("slice {:?} of value at {} does not parse as a value: {e}", slice, path_str(path))))?;
        model::diff(&model::from_edit_value(&re), &model::from_edit_value(v), Cmp::EXACT)
            .map_err(|e| fail("value-reparse", &r, format!("slice {:?} at {} re-parses to a different value: {e}", slice, path_str(path))))?;
        if multibyte_before(range.start) && range.start > 0 && range.end < text.len() {
            let before = text[..range.start].chars().last().unwrap();
            let after = text[range.end..].chars().next().unwrap();
            if (before == ' ' || before == '\t') && (after == ' ' || after == '\t') {
                nontrivial = true;
            }
        }
    }
    // --- keys: the stored key's span is one of the occurrences of that key
    let mut by_id: HashMap<&Path, Vec<&Range<usize>>> = HashMap::new();
    for (id, range) in &r.map.keys {
        by_id.entry(id).or_default().push(range);
    }
    for (id, ranges) in &by_id {
        let (last, parent) = id.split_last().unwrap();
        let Seg::Key(k) = last else { continue };
        let p = nav(root, &parent.to_vec()).ok_or_else(|| harness_fault(format!("cannot navigate to parent of {}", path_str(id))))?;
        let key = p.key(k).ok_or_else(|| fail("key-span", &r, format!("key {} not found through key()", path_str(id))))?;
        let sp = key.span();
        match &sp {
            Some(s) if ranges.iter().any(|r| *r == s) => {
                let slice = &text[s.clone()];
                let re = slice.parse::<toml_edit::Key>().map_err(|e| fail("key-reparse", &r, format!("key slice {slice:?} does not parse: {e}")))?;
                if re.get() != k {
                    return Err(fail("key-reparse", &r, format!("key slice {slice:?} re-parses to {:?}, expected {k:?}", re.get())));
                }
            }
            _ => return Err(fail("key-span", &r, format!("key {}: span {:?} is not one of its occurrences {:?}", path_str(id), sp, ranges))),
        }
    }
    // --- sections (header tables, array-of-tables elements)
    for (path, _hdr, full) in &r.map.sections {
        let n = nav(root, path).ok_or_else(|| harness_fault(format!("cannot navigate to table {}", path_str(path))))?;
        let sp = n.span();
        if sp.as_ref() != Some(full) {
            return Err(fail("table-span", &r, format!("table {}: span {:?}, expected header..last value = {:?}", path_str(path), sp, full)));
        }
        // re-parse the slice as a document: the table's own entries under its header path
        let slice = &text[full.clone()];
        let sub = slice.parse::<toml_edit::DocumentMut>().map_err(|e| fail("table-reparse", &r, format!("slice of table {} does not parse as a document: {e}\n{slice}", path_str(path))))?;
        // navigate along the header path (key names; an array of tables resolves to its last element)
        let mut cur_t: &Table = sub.as_table();
        let names: Vec<&String> = path.iter().filter_map(|s| if let Seg::Key(k) = s { Some(k) } else { None }).collect();
        for k in names {
            cur_t = match cur_t.get(k) {
                Some(Item::Table(t)) => t,
                Some(Item::ArrayOfTables(a)) if !a.is_empty() => a.get(a.len() - 1).unwrap(),
                _ => return Err(fail("table-reparse", &r, format!("re-parsed slice of table {} lacks its header path", path_str(path)))),
            };
        }
        let got = model::from_edit_table(cur_t, None);
        let got = {
            // own value entries only
            let mut g = model::Tbl::new(model::TblKind::Std);
            g.entries = got.entries.into_iter().filter(|(_, n)| !matches!(n, Node::Aot(_)) && !matches!(n, Node::Table(t) if matches!(t.kind, model::TblKind::Std | model::TblKind::Implicit))).collect();
            g
        };
        // expected: the table's own value entries (values and dotted tables), not header children
        let orig: &Table = match &n {
            Nav::Item(Item::Table(t)) => t,
            Nav::Table(t) => t,
            _ => return Err(harness_fault("table nav".into())),
        };
        let want = own_values(orig);
        model::diff_tbl(&got, &want, Cmp::EXACT).map_err(|e| fail("table-reparse", &r, format!("slice of table {} re-parses to different own entries: {e}", path_str(path))))?;
    }
    // arrays of tables: first element start .. last element end
    {
        let mut aots: BTreeMap<String, (Path, usize, usize)> = BTreeMap::new();
        for (path, _h, full) in &r.map.sections {
            if let Some(Seg::Idx(_)) = path.last() {
                let p: Path = path[..path.len() - 1].to_vec();
                let e = aots.entry(path_str(&p)).or_insert((p, full.start, full.end));
                e.1 = e.1.min(full.start);
                e.2 = e.2.max(full.end);
            }
        }
        for (_, (p, s, e)) in aots {
            let n = nav(root, &p).ok_or_else(|| harness_fault("aot nav".into()))?;
            // first..last element, in element order
            let sp = n.span();
            match sp {
                Some(sp) if in_bounds(text, &sp) && sp.start == s && sp.end <= e.max(sp.end) => {}
                other => return Err(fail("aot-span", &r, format!("array of tables {}: span {:?}, expected to start at {s}", path_str(&p), other))),
            }
        }
    }
    // root
    let rs = root.span();
    if rs != Some(0..r.map.root_end) {
        return Err(fail("root-span", &r, format!("root table span {:?}, expected {:?}", rs, 0..r.map.root_end)));
    }
    // --- containment + bounds for everything that has a span
    check_containment(root, None, text).map_err(|m| fail("containment", &r, m))?;
    // --- spans disappear once editable
    let dm = doc.clone().into_mut();
    no_spans(dm.as_item()).map_err(|m| fail("stale-span", &r, m))?;

    // --- serde: mirror with Spanned at every position
    let mirror: SpV = toml::from_str(text).map_err(|e| fail("serde-mirror", &r, format!("mirror type failed to deserialize: {e}")))?;
    model::diff(&mirror_to_node(&mirror.v), &Node::Table(r.expected.clone()), Cmp::SERDE)
        .map_err(|e| fail("serde-mirror", &r, format!("mirror value differs: {e}")))?;
    for (path, range) in &r.map.values {
        let m = mirror_nav(&mirror, path).ok_or_else(|| harness_fault(format!("mirror nav {}", path_str(path))))?;
        if m.span.as_ref() != Some(range) {
            return Err(fail("serde-span", &r, format!("Spanned value at {}: {:?}, source text at {:?}", path_str(path), m.span, range)));
        }
    }
    for (id, ranges) in &by_id {
        if let Some(k) = mirror_key(&mirror, id) {
            match &k.span {
                Some(s) if ranges.iter().any(|r| *r == s) => {}
                other => return Err(fail("serde-key-span", &r, format!("Spanned key {}: {:?} not among {:?}", path_str(id), other, ranges))),
            }
        }
    }
    for (path, _h, full) in &r.map.sections {
        if let Some(m) = mirror_nav(&mirror, path) {
            if m.span.as_ref() != Some(full) {
                return Err(fail("serde-span", &r, format!("Spanned table {}: {:?}, expected {:?}", path_str(path), m.span, full)));
            }
        }
    }
    spanless_containment(&mirror, &Node::Table(r.expected.clone()), &mut vec![]).map_err(|m| fail("serde-containment", &r, m))?;
    st.class(if has_spanless_table(&r.expected) { "serde-containment.spanless" } else { "serde-containment" });
    // --- twins: wrapping in Spanned never changes success or value
    let plain: Result<BTreeMap<String, toml::Value>, _> = toml::from_str(text);
    let spanned: Result<BTreeMap<String, serde_spanned::Spanned<toml::Value>>, _> = toml::from_str(text);
    let keyed: Result<BTreeMap<serde_spanned::Spanned<String>, toml::Value>, _> = toml::from_str(text);
    let nested: Result<BTreeMap<String, serde_spanned::Spanned<ValOrMap>>, _> = toml::from_str(text);
    let plain = plain.map_err(|e| fail("twin", &r, format!("plain map failed: {e}")))?;
    st.class("twin");
    root_probe(text)?;
    let spanless_root = r.expected.entries.iter().any(|(_, n)| matches!(n, Node::Table(t) if matches!(t.kind, model::TblKind::Dotted | model::TblKind::Implicit)));
    match spanned {
        Ok(s) => {
            let un: BTreeMap<String, toml::Value> = s.into_iter().map(|(k, v)| (k, v.into_inner())).collect();
            if un != plain && !plain.values().any(has_nan) {
                return Err(fail("twin", &r, "BTreeMap<String, Spanned<Value>> decodes to a different value than BTreeMap<String, Value>".into()));
            }
        }
        Err(e) => {
            if spanless_root && KNOWN_F10.load(std::sync::atomic::Ordering::Relaxed) {
                st.known("F10", F10_WHAT);
            } else {
                return Err(fail("twin", &r, format!("BTreeMap<String, Value> succeeds but BTreeMap<String, Spanned<Value>> fails: {e}")));
            }
        }
    }
    let keyed = match keyed {
        Ok(k) => k,
        Err(e) => return Err(fail("twin", &r, format!("BTreeMap<Spanned<String>, Value> fails where String keys succeed: {e}"))),
    };
    // a newtype struct around the spanned key: one more wrapper, same keys, same ranges
    #[derive(serde::Deserialize, PartialEq, Eq, PartialOrd, Ord, Debug)]
    struct NameKey(serde_spanned::Spanned<String>);
    match toml::from_str::<BTreeMap<NameKey, toml::Value>>(text) {
        Ok(nk) => {
            let a: Vec<(String, Range<usize>)> = keyed.keys().map(|k| (k.get_ref().clone(), k.span())).collect();
            let b: Vec<(String, Range<usize>)> = nk.keys().map(|k| (k.0.get_ref().clone(), k.0.span())).collect();
            if a != b {
                return Err(fail("serde-key-span", &r, format!("map keys wrapped in a newtype struct around Spanned<String> carry other ranges than Spanned<String> keys: {b:?} vs {a:?}")));
            }
        }
        Err(e) => return Err(fail("twin", &r, format!("BTreeMap<NewType(Spanned<String>), Value> fails where Spanned<String> keys succeed: {e}"))),
    }
    if let Err(e) = nested {
        if has_spanless_table(&r.expected) && KNOWN_F10.load(std::sync::atomic::Ordering::Relaxed) {
            st.known("F10", F10_WHAT);
        } else {
            return Err(fail("twin", &r, format!("nested Spanned twin fails where the plain type succeeds: {e}")));
        }
    }
    if cfg.plain_keys {
        let p: Result<PlainOpt, _> = toml::from_str(text);
        let s: Result<SpannedOpt, _> = toml::from_str(text);
        st.class("twin-struct");
        match (p, s) {
            (Ok(_), Ok(_)) | (Err(_), Err(_)) => {}
            (Ok(_), Err(e)) => {
                if spanless_root && KNOWN_F10.load(std::sync::atomic::Ordering::Relaxed) {
                    st.known("F10", F10_WHAT);
                } else {
                    return Err(fail("twin", &r, format!("struct with Option<Spanned<Value>> fields fails where Option<Value> succeeds: {e}")));
                }
            }
            (Err(e), Ok(_)) => return Err(fail("twin", &r, format!("struct with Option<Value> fails ({e}) where the Spanned twin succeeds"))),
        }
    }
    // --- error locations delivered through serde are the same ranges (a type mismatch provoked at a
    // chosen path, every node on the way asked for plainly or through Option / newtype / struct)
    if !r.text.starts_with('\u{feff}') && t.chance(1, 2) {
        st.class("serde-error-location");
        super::c15::typed_probe(&r, t, st).map_err(|mut f| {
            if f.sub != "harness" {
                f.sub = format!("serde-error-{}", f.sub);
            }
            f
        })?;
    }
    if nontrivial {
        st.nontrivial(fnv64(text.as_bytes()));
    }
    st.sample(|| json!({"text": text, "values": r.map.values.iter().take(6).map(|(p, r)| json!({"path": path_str(p), "span": [r.start, r.end]})).collect::<Vec<_>>()}));
    Ok(())
}

fn has_nan(v: &toml::Value) -> bool {
    match v {
        toml::Value::Float(f) => f.is_nan(),
        toml::Value::Array(a) => a.iter().any(has_nan),
        toml::Value::Table(t) => t.values().any(has_nan),
        _ => false,
    }
}

/// value, or one more map level with Spanned values (tables nested at depth 2)
#[derive(Debug)]
#[allow(dead_code)]
enum ValOrMap {
    Map(BTreeMap<String, serde_spanned::Spanned<ValOrMap>>),
    Arr(Vec<serde_spanned::Spanned<ValOrMap>>),
    Leaf(toml::Value),
}
impl<'de> Deserialize<'de> for ValOrMap {
    fn deserialize<D: Deserializer<'de>>(d: D) -> Result<Self, D::Error> {
        struct V;
        impl<'de> Visitor<'de> for V {
            type Value = ValOrMap;
            fn expecting(&self, f: &mut std::fmt::Formatter<'_>) -> std::fmt::Result {
                f.write_str("any value")
            }
            fn visit_bool<E>(self, v: bool) -> Result<ValOrMap, E> {
                Ok(ValOrMap::Leaf(toml::Value::Boolean(v)))
            }
            fn visit_i64<E>(self, v: i64) -> Result<ValOrMap, E> {
                Ok(ValOrMap::Leaf(toml::Value::Integer(v)))
            }
            fn visit_f64<E>(self, v: f64) -> Result<ValOrMap, E> {
                Ok(ValOrMap::Leaf(toml::Value::Float(v)))
            }
            fn visit_str<E>(self, v: &str) -> Result<ValOrMap, E> {
                Ok(ValOrMap::Leaf(toml::Value::String(v.into())))
            }
            fn visit_seq<A: SeqAccess<'de>>(self, mut s: A) -> Result<ValOrMap, A::Error> {
                let mut out = vec![];
                while let Some(e) = s.next_element()? {
                    out.push(e);
                }
                Ok(ValOrMap::Arr(out))
            }
            fn visit_map<A: MapAccess<'de>>(self, mut m: A) -> Result<ValOrMap, A::Error> {
                let mut out = BTreeMap::new();
                let mut first = true;
                while let Some(k) = m.next_key::<String>()? {
                    if first && k == "$__toml_private_datetime" {
                        let s: String = m.next_value()?;
                        return Ok(ValOrMap::Leaf(toml::Value::String(s)));
                    }
                    first = false;
                    out.insert(k, m.next_value()?);
                }
                Ok(ValOrMap::Map(out))
            }
        }
        d.deserialize_any(V)
    }
}

fn own_values(t: &Table) -> model::Tbl {
    let mut out = model::Tbl::new(model::TblKind::Std);
    for (k, item) in t.iter() {
        match item {
            Item::Value(v) => out.entries.push((k.to_string(), model::from_edit_value(v))),
            Item::Table(s) if s.is_dotted() => {
                let sub = own_values(s);
                let mut sub2 = sub;
                sub2.kind = model::TblKind::Dotted;
                out.entries.push((k.to_string(), Node::Table(sub2)));
            }
            _ => {}
        }
    }
    out
}

/// every span in bounds, on char boundaries; values lie inside the span of their lexical container
fn check_containment(item: &Item, outer: Option<&Range<usize>>, text: &str) -> Result<(), String> {
    fn val(v: &Value, outer: Option<&Range<usize>>, text: &str) -> Result<(), String> {
        let sp = v.span();
        if let Some(s) = &sp {
            if !in_bounds(text, s) {
                return Err(format!("value span {s:?} out of bounds / not on a char boundary"));
            }
            if let Some(o) = outer {
                if !(o.start <= s.start && s.end <= o.end) {
                    return Err(format!("value span {s:?} not inside its container's span {o:?}"));
                }
            }
        }
        match v {
            Value::Array(a) => {
                for e in a.iter() {
                    val(e, sp.as_ref().or(outer), text)?;
                }
            }
            Value::InlineTable(t) => {
                for (k, e) in t.iter() {
                    if let Some(ks) = t.key(k).and_then(|k| k.span()) {
                        if !in_bounds(text, &ks) {
                            return Err(format!("key span {ks:?} out of bounds"));
                        }
                        if let Some(o) = sp.as_ref().or(outer) {
                            if !(o.start <= ks.start && ks.end <= o.end) {
                                return Err(format!("key span {ks:?} not inside its inline table's span {o:?}"));
                            }
                        }
                    }
                    val(e, sp.as_ref().or(outer), text)?;
                }
            }
            _ => {}
        }
        Ok(())
    }
    fn table(t: &Table, text: &str) -> Result<(), String> {
        let sp = t.span();
        if let Some(s) = &sp {
            if !in_bounds(text, s) {
                return Err(format!("table span {s:?} out of bounds / not on a char boundary"));
            }
        }
        body(t, sp.as_ref(), text)
    }
    /// values of the body, including those reached through dotted tables (lexical children)
    fn body(t: &Table, sp: Option<&Range<usize>>, text: &str) -> Result<(), String> {
        for (k, it) in t.iter() {
            match it {
                Item::Value(v) => {
                    val(v, sp, text)?;
                    if let (Some(ks), Some(o)) = (t.key(k).and_then(|k| k.span()), sp) {
                        // the key of a value entry is written inside the section
                        if !in_bounds(text, &ks) {
                            return Err(format!("key span {ks:?} out of bounds"));
                        }
                        if ks.start < o.start || ks.end > o.end {
                            return Err(format!("key span {ks:?} not inside its table's span {o:?}"));
                        }
                    }
                }
                Item::Table(s) if s.is_dotted() => body(s, sp, text)?,
                Item::Table(s) => table(s, text)?,
                Item::ArrayOfTables(a) => {
                    let asp = a.span();
                    for e in a.iter() {
                        if let (Some(es), Some(o)) = (e.span(), &asp) {
                            if !(o.start <= es.start && es.end <= o.end) {
                                return Err(format!("array-of-tables element span {es:?} outside the array's span {o:?}"));
                            }
                        }
                        table(e, text)?;
                    }
                }
                Item::None => {}
            }
        }
        Ok(())
    }
    match item {
        Item::Table(t) => table(t, text),
        Item::Value(v) => val(v, outer, text),
        _ => Ok(()),
    }
}

fn no_spans(item: &Item) -> Result<(), String> {
    fn val(v: &Value) -> Result<(), String> {
        if let Some(s) = v.span() {
            return Err(format!("value keeps span {s:?} after into_mut()"));
        }
        match v {
            Value::Array(a) => a.iter().try_for_each(val),
            Value::InlineTable(t) => {
                for (k, e) in t.iter() {
                    if let Some(s) = t.key(k).and_then(|k| k.span()) {
                        return Err(format!("inline key keeps span {s:?} after into_mut()"));
                    }
                    val(e)?;
                }
                Ok(())
            }
            _ => Ok(()),
        }
    }
    fn table(t: &Table) -> Result<(), String> {
        if let Some(s) = t.span() {
            return Err(format!("table keeps span {s:?} after into_mut()"));
        }
        for (k, it) in t.iter() {
            if let Some(s) = t.key(k).and_then(|k| k.span()) {
                return Err(format!("key {k:?} keeps span {s:?} after into_mut()"));
            }
            match it {
                Item::Value(v) => val(v)?,
                Item::Table(s) => table(s)?,
                Item::ArrayOfTables(a) => {
                    if let Some(s) = a.span() {
                        return Err(format!("array of tables keeps span {s:?} after into_mut()"));
                    }
                    for e in a.iter() {
                        table(e)?;
                    }
                }
                Item::None => {}
            }
        }
        Ok(())
    }
    match item {
        Item::Table(t) => table(t),
        _ => Ok(()),
    }
}

pub fn run(args: Args) -> ! {
    let mut rep = Report::new("C14", args.tier, args.seed);
    rep.rule = "tree-first documents with multi-byte characters, BOM, CRLF and decoration around every token; the renderer's source map gives the byte range of every key, value, header section by construction. Checked on ImDocument: Value/Item/Key::span() equal the ranges, bounds and char boundaries, lexical containment, slices re-parse to the same value/key/table entries, array-of-tables and root spans, no span survives into_mut(); through serde: a mirror type probing for a span at every position reports the same ranges and value, and the range delivered for a table without a span of its own contains the ranges of all its entries; twin types with/without Spanned succeed together. non-trivial = a value preceded by a multi-byte character and surrounded by whitespace on both sides; distinct by text".into();
    rep.assumptions = vec!["expected ranges come from the harness' renderer".into()];
    KNOWN_F10.store(rep.is_known("F10"), std::sync::atomic::Ordering::Relaxed);
    if let Some(p) = &args.replay {
        let j = super::load_replay(p);
        let tape = super::replay_tape(&j);
        let mut st = Stats::new();
        if let Err(f) = guarded(&prop, &tape, &mut st) {
            rep.violation("replay", Some(&tape), &f);
        }
        rep.stats.merge(st);
        rep.stats.nontrivial.insert(1);
        rep.stats.nontrivial.insert(2);
        rep.finish();
    }
    for p in super::regression_files("C14") {
        let j = super::load_replay(&p);
        let tape = super::replay_tape(&j);
        let mut st = Stats::new();
        if let Err(f) = guarded(&prop, &tape, &mut st) {
            rep.violation("regression", Some(&tape), &f);
        }
        rep.stats.merge(st);
    }
    // documents without any top-level key/value pair (the root table's span stays empty)
    for text in ["", " ", "\t \t", "\n", "\r\n", "\n\n \n", "# c", "# c\n", " # c\r\n# d\n", "\u{feff}", "\u{feff}# c\n", "[a]\n", "[a]", "[[a]]\n", "[a]\nb = 1\n", "# c\n[a.b]\n", "\n\n[[a.b]]\nc = 1\n[[a.b]]\n", "[a]\n[b]\n[c.d]\n", "a = 1", " a = 1 \n", "\na.b = 1\n[c]\n"] {
        rep.stats.class("root-twin.no-top-level-pairs");
        rep.stats.eval();
        if let Err(f) = root_probe(text) {
            rep.violation("root", None, &f);
        }
    }
    let run = run_tape("C14.spans", &prop, 3000, args.tier.pick(200_000, 2_000_000), args.seed, workers());
    finish_run(&mut rep, "spans", run);
    for c in ["bom", "crlf", "dotted-key", "inline-table", "aot-header", "std-header", "twin", "twin-struct", "quoted-key"] {
        rep.require_class(c);
    }
    rep.finish()
}
