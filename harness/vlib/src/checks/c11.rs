//! C11 — numbers are lossless or rejected, never wrapped, saturated or rounded away.

use super::c02::finish_run;
use super::Args;
use crate::engine::*;
use crate::scalars::*;
use crate::tape::{fnv64, Tape};
use serde::{Deserialize, Serialize};
use serde_json::json;
use toml_write::ToTomlValue;

pub const F1_WHAT: &str = "a decimal float literal whose magnitude overflows a double is accepted as -inf when negative (`a = -1e999`)";
pub const F6_WHAT: &str = "the f32 writer prints integral values without a fraction (1.0 -> `1`, -0.0 -> `-0`) and NaN as `NaN`, which are not TOML floats";

static KNOWN_F1: std::sync::atomic::AtomicBool = std::sync::atomic::AtomicBool::new(false);
static KNOWN_F6: std::sync::atomic::AtomicBool = std::sync::atomic::AtomicBool::new(false);

fn parse_value(tok: &str) -> Result<toml_edit::Value, String> {
    // alone and inside a document
    let v = tok.parse::<toml_edit::Value>().map_err(|e| format!("Value::from_str rejects {tok:?}: {e}"))?;
    let doc = format!("k = {tok}\n").parse::<toml_edit::DocumentMut>().map_err(|e| format!("`k = {tok}` rejected: {e}"))?;
    let dv = doc["k"].as_value().ok_or_else(|| "k is not a value".to_string())?;
    let same = match (&v, dv) {
        (toml_edit::Value::Integer(a), toml_edit::Value::Integer(b)) => a.value() == b.value(),
        (toml_edit::Value::Float(a), toml_edit::Value::Float(b)) => a.value().to_bits() == b.value().to_bits(),
        _ => false,
    };
    if !same {
        return Err(format!("{tok:?} decodes differently alone ({v:?}) and in a document ({dv:?})"));
    }
    Ok(v)
}

fn same_float(a: f64, b: f64, nan_sign: bool) -> bool {
    if a.is_nan() && b.is_nan() {
        return !nan_sign || a.is_sign_negative() == b.is_sign_negative();
    }
    a.to_bits() == b.to_bits()
}

#[derive(Serialize, Deserialize, Debug)]
struct W<T> {
    v: T,
}

pub fn check_i64(v: i64, st: &mut Stats) -> Result<(), Failure> {
    st.eval();
    if v.unsigned_abs() >= 1 << 31 {
        st.nontrivial(fnv64(&v.to_le_bytes()));
    }
    let case = || json!({"i64": v.to_string()});
    let toks = [
        ("toml_write", v.to_toml_value()),
        ("toml_edit::Value::from", toml_edit::Value::from(v).to_string()),
        ("toml::Value Display", toml::Value::Integer(v).to_string()),
        ("toml_edit::ser::ValueSerializer", toml_edit::ser::to_string(&W { v }).map(|s| s.trim().trim_start_matches("v = ").to_string()).unwrap_or_default()),
    ];
    for (who, tok) in &toks {
        match parse_value(tok) {
            Ok(toml_edit::Value::Integer(f)) if *f.value() == v => {}
            Ok(other) => return Err(Failure::new("i64-roundtrip", format!("{who}: {v} printed as {tok:?} parses back as {other:?}"), case())),
            Err(e) => return Err(Failure::new("i64-roundtrip", format!("{who}: {v} printed as {tok:?}: {e}"), case())),
        }
    }
    let s = toml::to_string(&W { v }).map_err(|e| Failure::new("i64-serde", format!("toml::to_string fails for i64 {v}: {e}"), case()))?;
    let back: W<i64> = toml::from_str(&s).map_err(|e| Failure::new("i64-serde", format!("{s:?} does not read back: {e}"), case()))?;
    if back.v != v {
        return Err(Failure::new("i64-serde", format!("{v} -> {s:?} -> {}", back.v), case()));
    }
    Ok(())
}

pub fn check_f64(f: f64, st: &mut Stats) -> Result<(), Failure> {
    st.eval();
    if f.fract() != 0.0 || !f.is_finite() || f.abs() >= 2147483648.0 {
        st.nontrivial(fnv64(&f.to_bits().to_le_bytes()));
    }
    let case = || json!({"f64_bits": format!("{:#018x}", f.to_bits()), "f64": format!("{f:?}")});
    let toks = [("toml_write", f.to_toml_value(), true), ("toml_edit::Value::from", toml_edit::Value::from(f).to_string(), true), ("toml::Value Display", toml::Value::Float(f).to_string(), false)];
    for (who, tok, nan_sign) in &toks {
        match parse_value(tok) {
            Ok(toml_edit::Value::Float(g)) if same_float(*g.value(), f, *nan_sign) => {}
            Ok(other) => return Err(Failure::new("f64-roundtrip", format!("{who}: {f:?} ({:#x}) printed as {tok:?} parses back as {other:?}", f.to_bits()), case())),
            Err(e) => return Err(Failure::new("f64-roundtrip", format!("{who}: {f:?} printed as {tok:?}: {e}"), case())),
        }
    }
    for (who, s) in [("toml::to_string", toml::to_string(&W { v: f })), ("toml::to_string_pretty", toml::to_string_pretty(&W { v: f }))] {
        let s = s.map_err(|e| Failure::new("f64-serde", format!("{who} fails for {f:?}: {e}"), case()))?;
        let back: W<f64> = toml::from_str(&s).map_err(|e| Failure::new("f64-serde", format!("{who}: {s:?} does not read back as f64: {e}"), case()))?;
        if !same_float(back.v, f, false) {
            return Err(Failure::new("f64-serde", format!("{who}: {f:?} -> {s:?} -> {:?}", back.v), case()));
        }
    }
    let tv = toml::Value::try_from(W { v: f }).map_err(|e| Failure::new("f64-serde", format!("Value::try_from fails for {f:?}: {e}"), case()))?;
    match tv.get("v") {
        Some(toml::Value::Float(g)) if same_float(*g, f, false) => {}
        other => return Err(Failure::new("f64-serde", format!("Value::try_from({f:?}) gives {other:?}"), case())),
    }
    Ok(())
}

pub fn check_f32(f: f32, st: &mut Stats) -> Result<(), Failure> {
    st.eval();
    st.nontrivial(fnv64(&f.to_bits().to_le_bytes()) ^ 32);
    let case = || json!({"f32_bits": format!("{:#010x}", f.to_bits()), "f32": format!("{f:?}")});
    let tok = f.to_toml_value();
    let ok = match parse_value(&tok) {
        Ok(toml_edit::Value::Float(g)) => {
            let back = *g.value() as f32;
            (back.is_nan() && f.is_nan() && back.is_sign_negative() == f.is_sign_negative()) || back.to_bits() == f.to_bits()
        }
        _ => false,
    };
    if !ok {
        let integral_or_nan = f.is_nan() || f.fract() == 0.0;
        if integral_or_nan && KNOWN_F6.load(std::sync::atomic::Ordering::Relaxed) {
            st.known("F6", F6_WHAT);
        } else {
            return Err(Failure::new("f32-roundtrip", format!("toml_write f32: {f:?} ({:#x}) printed as {tok:?}, which does not parse back to the same float", f.to_bits()), case()));
        }
    }
    // serde route for f32 fields
    let s = toml::to_string(&W { v: f }).map_err(|e| Failure::new("f32-serde", format!("toml::to_string fails for f32 {f:?}: {e}"), case()))?;
    let back: W<f32> = toml::from_str(&s).map_err(|e| Failure::new("f32-serde", format!("{s:?} does not read back as f32: {e}"), case()))?;
    if !(back.v.to_bits() == f.to_bits() || (back.v.is_nan() && f.is_nan())) {
        return Err(Failure::new("f32-serde", format!("f32 {f:?} -> {s:?} -> {:?}", back.v), case()));
    }
    Ok(())
}

/// literal must be rejected (alone, in a document, by toml::from_str)
fn must_reject(tok: &str, why: &str, st: &mut Stats) -> Result<(), Failure> {
    st.eval();
    st.nontrivial(fnv64(tok.as_bytes()));
    let case = || json!({"literal": tok});
    let doc = format!("a = {tok}\n");
    let neg_overflow_float = why == "float-overflow" && tok.starts_with('-');
    for (who, accepted) in [
        ("Value::from_str", tok.parse::<toml_edit::Value>().map(|v| format!("{v:?}")).ok()),
        ("DocumentMut", doc.parse::<toml_edit::DocumentMut>().map(|d| d.to_string()).ok()),
        ("toml::from_str", toml::from_str::<toml::Table>(&doc).map(|t| format!("{t:?}")).ok()),
    ] {
        if let Some(got) = accepted {
            if neg_overflow_float && KNOWN_F1.load(std::sync::atomic::Ordering::Relaxed) {
                st.known("F1", F1_WHAT);
                continue;
            }
            return Err(Failure::new(why, format!("{who} accepts the out-of-range literal {tok} as {got}"), case()));
        }
    }
    Ok(())
}

fn must_accept_int(tok: &str, v: i64, st: &mut Stats) -> Result<(), Failure> {
    st.eval();
    st.nontrivial(fnv64(tok.as_bytes()));
    match parse_value(tok) {
        Ok(toml_edit::Value::Integer(f)) if *f.value() == v => Ok(()),
        Ok(o) => Err(Failure::new("int-literal", format!("{tok} decodes as {o:?}, expected {v}"), json!({"literal": tok}))),
        Err(e) => Err(Failure::new("int-literal", format!("in-range literal {tok} (= {v}): {e}"), json!({"literal": tok}))),
    }
}

fn digits_in_base(mut v: u128, base: u32) -> String {
    if v == 0 {
        return "0".into();
    }
    let mut s = vec![];
    while v > 0 {
        s.push(std::char::from_digit((v % base as u128) as u32, base).unwrap());
        v /= base as u128;
    }
    s.iter().rev().collect()
}

/// literal spellings around the i64 edges in all four bases
fn edge_literals(st: &mut Stats) -> Result<(), Failure> {
    let max = i64::MAX as u128;
    for delta in 0..=40u128 {
        for (pre, base) in [("0x", 16u32), ("0o", 8), ("0b", 2)] {
            for pad in ["", "0", "000000"] {
                // in range
                let v = max - delta;
                let d = digits_in_base(v, base);
                must_accept_int(&format!("{pre}{pad}{d}"), v as i64, st)?;
                let mut us = String::new();
                for (i, c) in d.chars().enumerate() {
                    if i > 0 && i % 3 == 0 {
                        us.push('_');
                    }
                    us.push(c);
                }
                must_accept_int(&format!("{pre}{pad}{us}"), v as i64, st)?;
                // beyond
                let w = max + 1 + delta;
                must_reject(&format!("{pre}{pad}{}", digits_in_base(w, base)), "int-overflow", st)?;
                must_reject(&format!("{pre}{pad}{}", digits_in_base(w << 1, base)), "int-overflow", st)?;
                must_reject(&format!("{pre}{pad}{}", digits_in_base(u64::MAX as u128 + 1 + delta, base)), "int-overflow", st)?;
                must_reject(&format!("{pre}{pad}{}", digits_in_base(u128::MAX - delta, base)), "int-overflow", st)?;
            }
        }
        // decimal
        let v = max - delta;
        must_accept_int(&format!("{v}"), v as i64, st)?;
        must_accept_int(&format!("+{v}"), v as i64, st)?;
        must_accept_int(&format!("-{v}"), -(v as i64), st)?;
        must_accept_int(&format!("-{}", max + 1 - delta.min(1)), if delta == 0 { i64::MIN } else { -(max as i64) }, st)?;
        for w in [max + 1 + delta, u64::MAX as u128 - delta, u64::MAX as u128 + 1 + delta, u128::MAX - delta, 10u128.pow(19) + delta, 10u128.pow(30)] {
            must_reject(&format!("{w}"), "int-overflow", st)?;
            must_reject(&format!("+{w}"), "int-overflow", st)?;
            if w > max + 1 {
                must_reject(&format!("-{w}"), "int-overflow", st)?;
            }
            let s = w.to_string();
            let us: String = s.chars().enumerate().map(|(i, c)| if i > 0 && i % 4 == 0 { format!("_{c}") } else { c.to_string() }).collect();
            must_reject(&us, "int-overflow", st)?;
        }
    }
    must_reject("9".repeat(400).as_str(), "int-overflow", st)?;
    must_reject(&format!("-{}", "9".repeat(400)), "int-overflow", st)?;
    must_reject(&format!("0x{}", "f".repeat(100)), "int-overflow", st)?;
    Ok(())
}

/// decimal float literals around the overflow threshold, both signs
fn edge_floats(st: &mut Stats) -> Result<(), Failure> {
    let finite = ["1.7976931348623157e308", "1.7976931348623157E+308", "17976931348623157e292", "0.17976931348623157e309", "1.797693134862315708e308", "1.79769313486231570e308", "1e308", "179769313486231570000000000000000000000000000000000000000000000000000000000000000000000000000000000000000000000000000000000000000000000000000000000000000000000000000000000000000000000000000000000000000000000000000000000000000000000000000000000000000000000000000000000000000000000000000000000000000000000000000.0"];
    for f in finite {
        for sign in ["", "+", "-"] {
            let tok = format!("{sign}{f}");
            st.eval();
            st.nontrivial(fnv64(tok.as_bytes()));
            let want: f64 = tok.trim_start_matches('+').parse().unwrap();
            match parse_value(&tok) {
                Ok(toml_edit::Value::Float(g)) if g.value().to_bits() == want.to_bits() && want.is_finite() => {}
                other => return Err(Failure::new("float-literal", format!("finite literal {tok}: {other:?}"), json!({"literal": tok}))),
            }
        }
    }
    let over = ["1e309", "1.7976931348623159e308", "1.797693134862315808e308", "2e308", "1e400", "1e999", "1e999999999", "17976931348623159e292", "9e308", "1_0e3_08", "0.1e310", "179769313486231590000000000000000000000000000000000000000000000000000000000000000000000000000000000000000000000000000000000000000000000000000000000000000000000000000000000000000000000000000000000000000000000000000000000000000000000000000000000000000000000000000000000000000000000000000000000000000000000000000.0"];
    for f in over {
        for sign in ["", "+", "-"] {
            must_reject(&format!("{sign}{f}"), "float-overflow", st)?;
        }
    }
    Ok(())
}

macro_rules! width_checks {
    ($st:expr, $v:expr, $($t:ty),*) => {{
        $(
            {
                let v: i128 = $v;
                let fits = <$t>::try_from(v).is_ok();
                if v >= i64::MIN as i128 && v <= i64::MAX as i128 {
                    // input direction: TOML integer into the narrower type
                    let doc = format!("v = {v}\n");
                    $st.eval();
                    let r: Result<W<$t>, _> = toml::from_str(&doc);
                    let r2: Result<W<$t>, _> = toml_edit::de::from_str(&doc);
                    for (who, r) in [("toml::from_str", r.map_err(|e| e.to_string())), ("toml_edit::de::from_str", r2.map_err(|e| e.to_string()))] {
                        match (r, fits) {
                            (Ok(w), true) if w.v as i128 == v => {}
                            (Err(_), false) => {}
                            (Ok(w), _) => return Err(Failure::new("serde-width-in", format!("{who}: `v = {v}` into {} gives {} (fits: {fits})", stringify!($t), w.v), json!({"value": v.to_string(), "type": stringify!($t)}))),
                            // 128-bit targets are not supported by the deserializers at all (serde's
                            // default `deserialize_i128`): an error is exact enough, a wrong value is not
                            (Err(_), true) if stringify!($t).ends_with("128") => { $st.class("i128-input-unsupported"); }
                            (Err(e), true) => return Err(Failure::new("serde-width-in", format!("{who}: `v = {v}` into {} fails although it fits: {e}", stringify!($t)), json!({"value": v.to_string(), "type": stringify!($t)}))),
                        }
                    }
                }
                // output direction
                if let Ok(x) = <$t>::try_from(v) {
                    $st.eval();
                    let in_i64 = v >= i64::MIN as i128 && v <= i64::MAX as i128;
                    for (who, r) in [
                        ("toml::to_string", toml::to_string(&W { v: x }).map_err(|e| e.to_string())),
                        ("toml_edit::ser::to_string", toml_edit::ser::to_string(&W { v: x }).map_err(|e| e.to_string())),
                        ("toml::Value::try_from", toml::Value::try_from(W { v: x }).map(|t| t.as_table().map(|t| t.to_string()).unwrap_or_default()).map_err(|e| e.to_string())),
                        // the number on its own, through the single-value serializers
                        ("toml::ser::ValueSerializer (bare)", {
                            let mut out = String::new();
                            serde::Serialize::serialize(&x, toml::ser::ValueSerializer::new(&mut out)).map(|()| format!("v = {out}\n")).map_err(|e| e.to_string())
                        }),
                        ("toml_edit::ser::ValueSerializer (bare)", serde::Serialize::serialize(&x, toml_edit::ser::ValueSerializer::new()).map(|v| format!("v = {v}\n")).map_err(|e| e.to_string())),
                        ("toml::Value::try_from (bare)", toml::Value::try_from(x).map(|v| format!("v = {v}\n")).map_err(|e| e.to_string())),
                    ] {
                        match (r, in_i64) {
                            (Err(_), false) => {}
                            (Ok(s), true) => {
                                let back: Result<W<$t>, _> = toml::from_str(&s);
                                match back {
                                    Ok(b) if b.v == x => {}
                                    Err(_) if stringify!($t).ends_with("128") && s.trim() == format!("v = {v}") => {}
                                    other => return Err(Failure::new("serde-width-out", format!("{who}: {} {v} -> {s:?} -> {:?}", stringify!($t), other.map(|b| b.v.to_string()).map_err(|e| e.to_string())), json!({"value": v.to_string(), "type": stringify!($t)}))),
                                }
                            }
                            (Ok(s), false) => return Err(Failure::new("serde-width-out", format!("{who}: {} {v} is beyond i64 but serializes to {s:?}", stringify!($t)), json!({"value": v.to_string(), "type": stringify!($t)}))),
                            (Err(_), true) if stringify!($t).ends_with("128") => { $st.class("i128-output-unsupported"); }
                            (Err(e), true) => return Err(Failure::new("serde-width-out", format!("{who}: {} {v} fails to serialize: {e}", stringify!($t)), json!({"value": v.to_string(), "type": stringify!($t)}))),
                        }
                    }
                }
            }
        )*
    }};
}

/// u128 values beyond what an i128 holds (the matrix above is driven by an i128): all of them are
/// beyond the i64 range, so every serializer has to refuse them - a wrapped negative number is the
/// typical wrong answer at the top of the range
fn check_u128_top(st: &mut Stats) -> Result<(), Failure> {
    let mut vals: Vec<u128> = vec![];
    for d in 0..=40u128 {
        vals.push(u128::MAX - d);
        vals.push((1u128 << 127) + d);
        vals.push(u128::MAX - (1u128 << 63) + d);
        vals.push(u128::MAX - (1u128 << 63) - d);
        vals.push(u128::MAX - (1u128 << 64) + d);
        vals.push(u128::MAX - (1u128 << 32) + d);
    }
    for x in vals {
        st.eval();
        st.class("u128-top");
        for (who, r) in [
            ("toml::to_string", toml::to_string(&W { v: x }).map_err(|e| e.to_string())),
            ("toml_edit::ser::to_string", toml_edit::ser::to_string(&W { v: x }).map_err(|e| e.to_string())),
            ("toml::Value::try_from", toml::Value::try_from(W { v: x }).map(|t| t.to_string()).map_err(|e| e.to_string())),
            ("toml::Table::try_from", toml::Table::try_from(W { v: x }).map(|t| t.to_string()).map_err(|e| e.to_string())),
            ("toml::Value::try_from (bare)", toml::Value::try_from(x).map(|t| t.to_string()).map_err(|e| e.to_string())),
            ("toml_edit::ser::ValueSerializer", serde::Serialize::serialize(&x, toml_edit::ser::ValueSerializer::new()).map(|v| v.to_string()).map_err(|e| e.to_string())),
        ] {
            if let Ok(s) = r {
                return Err(Failure::new("serde-width-out", format!("{who}: u128 {x} is beyond i64 but is written as {s:?}"), json!({"value": x.to_string(), "type": "u128"})));
            }
        }
    }
    Ok(())
}

fn check_widths(v: i128, st: &mut Stats) -> Result<(), Failure> {
    width_checks!(st, v, i8, u8, i16, u16, i32, u32, i64, u64, i128, u128, isize, usize);
    Ok(())
}

fn prop(t: &mut Tape, st: &mut Stats) -> Result<(), Failure> {
    match t.below(5) {
        0 => {
            st.class("i64");
            check_i64(gen_int(t), st)
        }
        1 | 2 => {
            st.class("f64");
            let f = gen_float(t);
            st.sample(|| json!({"f64": format!("{f:?}"), "printed": f.to_toml_value()}));
            check_f64(f, st)
        }
        3 => {
            st.class("f32");
            let f = match t.below(4) {
                0 => f32::from_bits(t.next()),
                1 => gen_float(t) as f32,
                2 => gen_int(t) as f32,
                _ => *t.pick(&[0.0f32, -0.0, 1.0, -1.0, f32::MAX, f32::MIN, f32::MIN_POSITIVE, f32::INFINITY, f32::NEG_INFINITY, f32::NAN, 16777216.0, 1e10, 0.1, 1e-45]),
            };
            let f = if f.is_nan() { f32::NAN.copysign(f) } else { f };
            check_f32(f, st)
        }
        _ => {
            st.class("serde-width");
            // a value near the edge of some width
            let bits = *t.pick(&[7u32, 8, 15, 16, 31, 32, 63, 64, 127]);
            let base: i128 = if bits == 127 { i128::MAX } else { 1i128 << bits };
            let d = t.range(-3, 3) as i128;
            let v = if t.chance(1, 2) { base.saturating_add(d) } else { (-base).saturating_add(d) };
            check_widths(v, st)
        }
    }
}

pub fn run(args: Args) -> ! {
    let mut rep = Report::new("C11", args.tier, args.seed);
    rep.rule = "integers: every value within 300 of 0, of each +-2^k and each +-10^k, plus generated ones, printed by toml_write, toml_edit::Value::from, toml::Value Display and serde, parsed back (same type, same value); floats: a boundary list (signed zero, subnormal/normal extremes, 2^53+-1, powers of ten, infinities, both NaNs), uniform bit patterns, uniform decimal exponents, integer-valued, through the same writers and serde; f32 through toml_write and serde; literal spellings around the i64 edge in bases 2/8/10/16 with signs, underscores and leading zeros (in range: exact value; beyond: rejected), decimal floats around the overflow threshold with both signs; every integer width at its own edges in both serde directions. non-trivial = |value| >= 2^31, non-integral or special float, or an edge literal; distinct by value/literal".into();
    rep.assumptions = vec!["NaN payloads are not representable; NaN sign is required on the construction/print routes and ignored on serde routes (documented)".into()];
    KNOWN_F1.store(rep.is_known("F1"), std::sync::atomic::Ordering::Relaxed);
    KNOWN_F6.store(rep.is_known("F6"), std::sync::atomic::Ordering::Relaxed);
    if let Some(p) = &args.replay {
        let j = super::load_replay(p);
        let mut st = Stats::new();
        let c = &j["case"];
        let r = if let Some(s) = c["i64"].as_str() {
            check_i64(s.parse().unwrap_or(0), &mut st)
        } else if let Some(s) = c["f64_bits"].as_str() {
            check_f64(f64::from_bits(u64::from_str_radix(s.trim_start_matches("0x"), 16).unwrap_or(0)), &mut st)
        } else if let Some(s) = c["f32_bits"].as_str() {
            check_f32(f32::from_bits(u32::from_str_radix(s.trim_start_matches("0x"), 16).unwrap_or(0)), &mut st)
        } else if let Some(s) = c["literal"].as_str() {
            // an edge literal: decide by the reference what it should be
            match crate::tomlref::number(s) {
                Ok(crate::tomlref::Tok::Limit(_, _)) => must_reject(s, "literal", &mut st),
                Ok(crate::tomlref::Tok::Node(crate::model::Node::Int(v))) => must_accept_int(s, v, &mut st),
                _ => Ok(()),
            }
        } else if let Some(s) = c["value"].as_str() {
            check_widths(s.parse().unwrap_or(0), &mut st)
        } else {
            guarded(&prop, &super::replay_tape(&j), &mut st)
        };
        if let Err(f) = r {
            rep.violation("replay", None, &f);
        }
        rep.stats.merge(st);
        rep.stats.evaluations += 1;
        rep.stats.nontrivial.insert(1);
        rep.stats.nontrivial.insert(2);
        rep.finish();
    }
    // boundary sweeps
    let mut ints: Vec<i64> = vec![];
    for d in -300i128..=300 {
        ints.push(d as i64);
        for k in 0..64u32 {
            for s in [1i128, -1] {
                let v = s * (1i128 << k) + d;
                if v >= i64::MIN as i128 && v <= i64::MAX as i128 {
                    ints.push(v as i64);
                }
            }
        }
        for k in 0..19u32 {
            for s in [1i128, -1] {
                let v = s * 10i128.pow(k) + d;
                ints.push(v as i64);
            }
        }
    }
    let (stt, fail) = par_enumerate(ints.len() as u64, workers(), |i, st| {
        st.class("i64-boundary");
        check_i64(ints[i as usize], st)
    });
    rep.stats.merge(stt);
    if let Some((_, f)) = fail {
        rep.violation("i64-boundary", None, &f);
    }
    let mut floats: Vec<f64> = FLOAT_EDGES.iter().map(|b| f64::from_bits(*b)).collect();
    for k in -330..=310 {
        let f: f64 = format!("1e{k}").parse().unwrap();
        floats.push(f);
        floats.push(-f);
        floats.push(f64::from_bits(f.to_bits().wrapping_add(1)));
        floats.push(f64::from_bits(f.to_bits().wrapping_sub(1)));
    }
    for f in &floats {
        rep.stats.class("f64-boundary");
        if let Err(fl) = check_f64(*f, &mut rep.stats) {
            rep.violation("f64-boundary", None, &fl);
            break;
        }
    }
    for f in [0.0f32, -0.0, 1.0, -1.0, 2.5, f32::MAX, f32::MIN, f32::MIN_POSITIVE, f32::INFINITY, f32::NEG_INFINITY, f32::NAN, -f32::NAN, 16777216.0, 16777217.0, 1e10, 0.1, 1e-45, 3.4e38, 1e-38] {
        rep.stats.class("f32-boundary");
        if let Err(fl) = check_f32(f, &mut rep.stats) {
            rep.violation("f32-boundary", None, &fl);
            break;
        }
    }
    if let Err(f) = edge_literals(&mut rep.stats) {
        rep.violation("edge-literals", None, &f);
    }
    if let Err(f) = edge_floats(&mut rep.stats) {
        rep.violation("edge-floats", None, &f);
    }
    for bits in [7u32, 8, 15, 16, 31, 32, 63, 64, 127] {
        for d in -2i128..=2 {
            let base: i128 = if bits == 127 { i128::MAX } else { 1i128 << bits };
            for v in [base.saturating_add(d), (-base).saturating_add(d), d] {
                rep.stats.class("serde-width-boundary");
                if let Err(f) = check_widths(v, &mut rep.stats) {
                    rep.violation("serde-width", None, &f);
                }
            }
        }
    }
    if let Err(f) = check_u128_top(&mut rep.stats) {
        rep.violation("serde-width", None, &f);
    }
    let run = run_tape("C11.values", &prop, 16, args.tier.pick(2_000_000, 40_000_000), args.seed, workers());
    finish_run(&mut rep, "values", run);
    for c in ["i64", "f64", "f32", "serde-width", "i64-boundary", "f64-boundary"] {
        rep.require_class(c);
    }
    rep.finish()
}
