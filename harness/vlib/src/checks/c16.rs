//! C16 — tables, arrays and maps obey ordered-container laws under any call sequence.
//!
//! Stateful / model-based: an op list interpreted against the real container and a reference model
//! in lock step; every call's return value and a full observation are compared after every step.

use super::c02::finish_run;
use super::Args;
use crate::engine::*;
use crate::tape::{fnv64, Tape};
use serde_json::json;
use toml_edit::{Array, ArrayOfTables, InlineTable, Item, Key, Table, TableLike, Value};

pub const F7_WHAT: &str = "`TableLike for InlineTable`: iter(), iter_mut() and get()/get_mut() expose the Item::None placeholders created by mutable indexing, while len(), is_empty() and the inherent methods hide them";

const KEYS: [&str; 4] = ["a", "b", "c", "d"];

#[derive(Clone, Debug, PartialEq)]
enum Slot {
    Ph,
    V(i64),
}

/// reference ordered map with explicit placeholders
#[derive(Clone, Debug, Default, PartialEq)]
struct KM(Vec<(String, Slot)>);

impl KM {
    fn pos(&self, k: &str) -> Option<usize> {
        self.0.iter().position(|(kk, _)| kk == k)
    }
    fn visible(&self) -> Vec<(String, i64)> {
        self.0.iter().filter_map(|(k, s)| if let Slot::V(v) = s { Some((k.clone(), *v)) } else { None }).collect()
    }
    fn get(&self, k: &str) -> Option<i64> {
        self.pos(k).and_then(|i| if let Slot::V(v) = self.0[i].1 { Some(v) } else { None })
    }
    fn is_ph(&self, k: &str) -> bool {
        self.pos(k).map(|i| self.0[i].1 == Slot::Ph).unwrap_or(false)
    }
    /// insert / assign: existing key keeps its position
    fn insert(&mut self, k: &str, p: i64) -> Option<i64> {
        match self.pos(k) {
            Some(i) => {
                let old = std::mem::replace(&mut self.0[i].1, Slot::V(p));
                if let Slot::V(v) = old {
                    Some(v)
                } else {
                    None
                }
            }
            None => {
                self.0.push((k.to_string(), Slot::V(p)));
                None
            }
        }
    }
    fn remove(&mut self, k: &str) -> Option<i64> {
        match self.pos(k) {
            Some(i) => {
                if let Slot::V(v) = self.0.remove(i).1 {
                    Some(v)
                } else {
                    None
                }
            }
            None => None,
        }
    }
}

#[derive(Clone, Debug)]
enum KOp {
    Insert(usize, i64),
    InsertFormatted(usize, i64),
    Remove(usize),
    RemoveEntry(usize),
    Get(usize),
    GetMut(usize, i64),
    GetKeyValue(usize),
    Contains(usize),
    EntryOrInsert(usize, i64),
    EntryOrInsertWith(usize, i64),
    EntryInsert(usize, i64),
    EntryRemove(usize),
    Retain(u8),
    SortValues,
    SortValuesByRev,
    Clear,
    Vivify(usize),
    Assign(usize, i64),
    Extend(Vec<(usize, i64)>),
    Collect,
    IntoIter,
    Fmt,
    GetOrInsert(usize, i64),
    IterMutBump,
}

fn gen_kop(t: &mut Tape, counter: &mut i64) -> KOp {
    let k = t.below(4);
    *counter += 1;
    let p = *counter;
    match t.below(24) {
        0 | 1 => KOp::Insert(k, p),
        2 => KOp::InsertFormatted(k, p),
        3 | 4 => KOp::Remove(k),
        5 => KOp::RemoveEntry(k),
        6 => KOp::Get(k),
        7 => KOp::GetMut(k, p),
        8 => KOp::GetKeyValue(k),
        9 => KOp::Contains(k),
        10 => KOp::EntryOrInsert(k, p),
        11 => KOp::EntryOrInsertWith(k, p),
        12 => KOp::EntryInsert(k, p),
        13 => KOp::EntryRemove(k),
        14 => KOp::Retain(t.below(16) as u8),
        15 => {
            if t.chance(1, 2) {
                KOp::SortValues
            } else {
                KOp::SortValuesByRev
            }
        }
        16 => {
            if t.chance(1, 4) {
                KOp::Clear
            } else {
                KOp::Fmt
            }
        }
        17 | 18 => KOp::Vivify(k),
        19 => KOp::Assign(k, p),
        20 => {
            let n = 1 + t.below(3);
            KOp::Extend((0..n).map(|i| (t.below(4), p * 10 + i as i64)).collect())
        }
        21 => {
            if t.chance(1, 2) {
                KOp::Collect
            } else {
                KOp::IntoIter
            }
        }
        22 => KOp::GetOrInsert(k, p),
        _ => KOp::IterMutBump,
    }
}

#[derive(Clone, Copy, Debug, PartialEq)]
enum Target {
    Table,
    Inline,
    LikeTable,
    LikeInline,
}

fn item_payload(i: &Item) -> Option<i64> {
    i.as_integer()
}
fn mk_item(p: i64) -> Item {
    toml_edit::value(p)
}

/// the outcome of a call, in a form comparable between model and implementation
type Ret = String;

fn apply_impl(holder: &mut Item, target: Target, op: &KOp) -> Option<Ret> {
    let r = |x: Option<i64>| format!("{x:?}");
    match target {
        Target::Table => {
            let t: &mut Table = holder.as_table_mut().unwrap();
            Some(match op {
                KOp::Insert(k, p) => r(t.insert(KEYS[*k], mk_item(*p)).as_ref().and_then(item_payload)),
                KOp::InsertFormatted(k, p) => r(t.insert_formatted(&Key::new(KEYS[*k]), mk_item(*p)).as_ref().and_then(item_payload)),
                KOp::Remove(k) => r(t.remove(KEYS[*k]).as_ref().and_then(item_payload)),
                KOp::RemoveEntry(k) => format!("{:?}", t.remove_entry(KEYS[*k]).map(|(key, i)| (key.get().to_string(), item_payload(&i))).and_then(|(k, p)| p.map(|p| (k, p)))),
                KOp::Get(k) => r(t.get(KEYS[*k]).and_then(item_payload)),
                KOp::GetMut(k, p) => r(t.get_mut(KEYS[*k]).map(|i| {
                    let old = item_payload(i);
                    *i = mk_item(*p);
                    old
                }).flatten()),
                KOp::GetKeyValue(k) => format!("{:?}", t.get_key_value(KEYS[*k]).map(|(key, i)| (key.get().to_string(), item_payload(i)))),
                KOp::Contains(k) => format!("{} {}", t.contains_key(KEYS[*k]), t.contains_value(KEYS[*k])),
                KOp::EntryOrInsert(k, p) => r(item_payload(t.entry(KEYS[*k]).or_insert(mk_item(*p)))),
                KOp::EntryOrInsertWith(k, p) => r(item_payload(t.entry(KEYS[*k]).or_insert_with(|| mk_item(*p)))),
                KOp::EntryInsert(k, p) => match t.entry(KEYS[*k]) {
                    toml_edit::Entry::Occupied(mut e) => format!("occupied {:?}", item_payload(&e.insert(mk_item(*p)))),
                    toml_edit::Entry::Vacant(e) => {
                        e.insert(mk_item(*p));
                        "vacant".to_string()
                    }
                },
                KOp::EntryRemove(k) => match t.entry(KEYS[*k]) {
                    toml_edit::Entry::Occupied(e) => format!("occupied {:?}", item_payload(&e.remove())),
                    toml_edit::Entry::Vacant(_) => "vacant".to_string(),
                },
                KOp::Retain(mask) => {
                    t.retain(|k, _| mask & (1 << KEYS.iter().position(|x| *x == k).unwrap()) != 0);
                    String::new()
                }
                KOp::SortValues => {
                    t.sort_values();
                    String::new()
                }
                KOp::SortValuesByRev => {
                    t.sort_values_by(|k1, v1, k2, v2| v2.as_integer().cmp(&v1.as_integer()).then(k1.get().cmp(k2.get())));
                    String::new()
                }
                KOp::Clear => {
                    t.clear();
                    String::new()
                }
                KOp::Fmt => {
                    t.fmt();
                    String::new()
                }
                KOp::Assign(k, p) => {
                    t[KEYS[*k]] = mk_item(*p);
                    String::new()
                }
                KOp::Extend(ps) => {
                    t.extend(ps.iter().map(|(k, p)| (KEYS[*k], Value::from(*p))));
                    String::new()
                }
                KOp::Collect => {
                    let pairs: Vec<(String, Value)> = t.iter().filter_map(|(k, i)| i.as_value().map(|v| (k.to_string(), v.clone()))).collect();
                    *t = Table::from_iter(pairs);
                    String::new()
                }
                KOp::IntoIter => format!("{:?}", t.clone().into_iter().map(|(k, i)| (k.to_string(), item_payload(&i))).collect::<Vec<_>>()),
                KOp::IterMutBump => {
                    let mut seen = vec![];
                    for (k, i) in t.iter_mut() {
                        if let Some(p) = item_payload(i) {
                            seen.push((k.get().to_string(), p));
                            *i = mk_item(p + 1_000_000);
                        }
                    }
                    format!("{seen:?}")
                }
                KOp::GetOrInsert(..) => return None,
                KOp::Vivify(_) => return None,
            })
        }
        Target::Inline => {
            let t: &mut InlineTable = holder.as_inline_table_mut().unwrap();
            let vp = |v: &Value| v.as_integer();
            Some(match op {
                KOp::Insert(k, p) => r(t.insert(KEYS[*k], Value::from(*p)).as_ref().and_then(vp)),
                KOp::InsertFormatted(k, p) => r(t.insert_formatted(&Key::new(KEYS[*k]), Value::from(*p)).as_ref().and_then(vp)),
                KOp::Remove(k) => r(t.remove(KEYS[*k]).as_ref().and_then(vp)),
                KOp::RemoveEntry(k) => format!("{:?}", t.remove_entry(KEYS[*k]).map(|(key, v)| (key.get().to_string(), v.as_integer().unwrap_or(-1)))),
                KOp::Get(k) => r(t.get(KEYS[*k]).and_then(vp)),
                KOp::GetMut(k, p) => r(t.get_mut(KEYS[*k]).map(|v| {
                    let old = v.as_integer();
                    *v = Value::from(*p);
                    old
                }).flatten()),
                KOp::GetKeyValue(k) => format!("{:?}", t.get_key_value(KEYS[*k]).map(|(key, i)| (key.get().to_string(), item_payload(i)))),
                KOp::Contains(k) => format!("{} {}", t.contains_key(KEYS[*k]), t.contains_key(KEYS[*k])),
                KOp::EntryOrInsert(k, p) => {
                    if t.get_key_value(KEYS[*k]).is_none() && t.contains_key(KEYS[*k]) {
                        return None;
                    }
                    r(t.entry(KEYS[*k]).or_insert(Value::from(*p)).as_integer())
                }
                KOp::EntryOrInsertWith(k, p) => r(t.entry(KEYS[*k]).or_insert_with(|| Value::from(*p)).as_integer()),
                KOp::EntryInsert(k, p) => match t.entry(KEYS[*k]) {
                    toml_edit::InlineEntry::Occupied(mut e) => format!("occupied {:?}", e.insert(Value::from(*p)).as_integer()),
                    toml_edit::InlineEntry::Vacant(e) => {
                        e.insert(Value::from(*p));
                        "vacant".to_string()
                    }
                },
                KOp::EntryRemove(k) => match t.entry(KEYS[*k]) {
                    toml_edit::InlineEntry::Occupied(e) => format!("occupied {:?}", e.remove().as_integer()),
                    toml_edit::InlineEntry::Vacant(_) => "vacant".to_string(),
                },
                KOp::Retain(mask) => {
                    t.retain(|k, _| mask & (1 << KEYS.iter().position(|x| *x == k).unwrap()) != 0);
                    String::new()
                }
                KOp::SortValues => {
                    t.sort_values();
                    String::new()
                }
                KOp::SortValuesByRev => {
                    t.sort_values_by(|k1, v1, k2, v2| v2.as_integer().cmp(&v1.as_integer()).then(k1.get().cmp(k2.get())));
                    String::new()
                }
                KOp::Clear => {
                    t.clear();
                    String::new()
                }
                KOp::Fmt => {
                    t.fmt();
                    String::new()
                }
                KOp::Assign(k, p) => {
                    // InlineTable's IndexMut requires the key to exist (documented panic otherwise)
                    if t.get(KEYS[*k]).is_some() {
                        t[KEYS[*k]] = Value::from(*p);
                        String::new()
                    } else {
                        return None;
                    }
                }
                KOp::Extend(ps) => {
                    t.extend(ps.iter().map(|(k, p)| (KEYS[*k], Value::from(*p))));
                    String::new()
                }
                KOp::Collect => {
                    let pairs: Vec<(String, Value)> = t.iter().map(|(k, v)| (k.to_string(), v.clone())).collect();
                    *t = InlineTable::from_iter(pairs);
                    String::new()
                }
                KOp::IntoIter => format!("{:?}", t.clone().into_iter().map(|(k, v)| (k.to_string(), v.as_integer())).collect::<Vec<_>>()),
                KOp::IterMutBump => {
                    let mut seen = vec![];
                    for (k, v) in t.iter_mut() {
                        if let Some(p) = v.as_integer() {
                            seen.push((k.get().to_string(), p));
                            *v = Value::from(p + 1_000_000);
                        }
                    }
                    format!("{seen:?}")
                }
                KOp::GetOrInsert(k, p) => r(t.get_or_insert(KEYS[*k], *p).as_integer()),
                KOp::Vivify(_) => return None,
            })
        }
        Target::LikeTable | Target::LikeInline => {
            let t: &mut dyn TableLike = holder.as_table_like_mut().unwrap();
            Some(match op {
                KOp::Insert(k, p) => r(t.insert(KEYS[*k], mk_item(*p)).as_ref().and_then(item_payload)),
                KOp::Remove(k) => r(t.remove(KEYS[*k]).as_ref().and_then(item_payload)),
                KOp::Get(k) => r(t.get(KEYS[*k]).and_then(item_payload)),
                KOp::GetMut(k, p) => r(t.get_mut(KEYS[*k]).map(|i| {
                    let old = item_payload(i);
                    if old.is_some() {
                        *i = mk_item(*p);
                    }
                    old
                }).flatten()),
                KOp::GetKeyValue(k) => format!("{:?}", t.get_key_value(KEYS[*k]).map(|(key, i)| (key.get().to_string(), item_payload(i)))),
                KOp::Contains(k) => format!("{} {}", t.contains_key(KEYS[*k]), t.contains_key(KEYS[*k])),
                KOp::EntryOrInsert(k, p) => r(item_payload(t.entry(KEYS[*k]).or_insert(mk_item(*p)))),
                KOp::EntryOrInsertWith(k, p) => r(item_payload(t.entry_format(&Key::new(KEYS[*k])).or_insert_with(|| mk_item(*p)))),
                KOp::EntryInsert(k, p) => match t.entry(KEYS[*k]) {
                    toml_edit::Entry::Occupied(mut e) => format!("occupied {:?}", item_payload(&e.insert(mk_item(*p)))),
                    toml_edit::Entry::Vacant(e) => {
                        e.insert(mk_item(*p));
                        "vacant".to_string()
                    }
                },
                KOp::EntryRemove(k) => match t.entry(KEYS[*k]) {
                    toml_edit::Entry::Occupied(e) => format!("occupied {:?}", item_payload(&e.remove())),
                    toml_edit::Entry::Vacant(_) => "vacant".to_string(),
                },
                KOp::SortValues => {
                    t.sort_values();
                    String::new()
                }
                KOp::Clear => {
                    t.clear();
                    String::new()
                }
                KOp::Fmt => {
                    t.fmt();
                    String::new()
                }
                _ => return None,
            })
        }
    }
}

/// the same call on the model; `None` in the first component = the return value is unspecified
/// (call made on a placeholder slot) and not compared
fn apply_model(m: &mut KM, target: Target, op: &KOp) -> (Option<Ret>, bool) {
    let r = |x: Option<i64>| format!("{x:?}");
    let inline = matches!(target, Target::Inline);
    let mut unspecified = false;
    let ret = match op {
        KOp::Insert(k, p) | KOp::InsertFormatted(k, p) => r(m.insert(KEYS[*k], *p)),
        KOp::Remove(k) => r(m.remove(KEYS[*k])),
        KOp::RemoveEntry(k) => {
            let had = m.get(KEYS[*k]);
            m.remove(KEYS[*k]);
            format!("{:?}", had.map(|p| (KEYS[*k].to_string(), p)))
        }
        KOp::Get(k) => r(m.get(KEYS[*k])),
        KOp::GetMut(k, p) => {
            let old = m.get(KEYS[*k]);
            if old.is_some() {
                m.insert(KEYS[*k], *p);
            }
            r(old)
        }
        KOp::GetKeyValue(k) => format!("{:?}", m.get(KEYS[*k]).map(|p| (KEYS[*k].to_string(), Some(p)))),
        KOp::Contains(k) => format!("{} {}", m.get(KEYS[*k]).is_some(), m.get(KEYS[*k]).is_some()),
        KOp::EntryOrInsert(k, p) | KOp::EntryOrInsertWith(k, p) => {
            if m.is_ph(KEYS[*k]) {
                // slot semantics: the entry is occupied by the placeholder
                unspecified = true;
                if inline {
                    // InlineTable::entry normalises the slot to a value first: documented as
                    // "ensure it is a Value"; follow the implementation, do not compare
                    return (None, true);
                }
                String::new()
            } else {
                match m.get(KEYS[*k]) {
                    Some(v) => r(Some(v)),
                    None => {
                        m.insert(KEYS[*k], *p);
                        r(Some(*p))
                    }
                }
            }
        }
        KOp::EntryInsert(k, p) => {
            if m.is_ph(KEYS[*k]) {
                unspecified = true;
                m.insert(KEYS[*k], *p);
                String::new()
            } else {
                match m.get(KEYS[*k]) {
                    Some(v) => {
                        m.insert(KEYS[*k], *p);
                        format!("occupied {:?}", Some(v))
                    }
                    None => {
                        m.insert(KEYS[*k], *p);
                        "vacant".to_string()
                    }
                }
            }
        }
        KOp::EntryRemove(k) => {
            if m.is_ph(KEYS[*k]) {
                unspecified = true;
                m.remove(KEYS[*k]);
                String::new()
            } else {
                match m.remove(KEYS[*k]) {
                    Some(v) => format!("occupied {:?}", Some(v)),
                    None => "vacant".to_string(),
                }
            }
        }
        KOp::Retain(mask) => {
            m.0.retain(|(k, s)| {
                let keep = mask & (1 << KEYS.iter().position(|x| x == k).unwrap()) != 0;
                // InlineTable::retain drops placeholders; Table::retain asks the predicate
                if inline && *s == Slot::Ph {
                    false
                } else {
                    keep
                }
            });
            String::new()
        }
        KOp::SortValues => {
            m.0.sort_by(|a, b| a.0.cmp(&b.0));
            String::new()
        }
        KOp::SortValuesByRev => {
            if inline && m.0.iter().any(|(_, s)| *s == Slot::Ph) {
                // where a placeholder slot sorts is not specified; InlineTable puts non-values
                // first without consulting the comparison: follow it (slot semantics)
                unspecified = true;
                m.0.sort_by(|a, b| match (&a.1, &b.1) {
                    (Slot::Ph, Slot::Ph) => std::cmp::Ordering::Equal,
                    (Slot::Ph, _) => std::cmp::Ordering::Less,
                    (_, Slot::Ph) => std::cmp::Ordering::Greater,
                    (Slot::V(x), Slot::V(y)) => y.cmp(x).then(a.0.cmp(&b.0)),
                });
            } else {
                // by value, descending (a placeholder reads as "no integer" = smallest), then by key
                let pay = |s: &Slot| match s {
                    Slot::V(x) => Some(*x),
                    Slot::Ph => None,
                };
                m.0.sort_by(|a, b| pay(&b.1).cmp(&pay(&a.1)).then(a.0.cmp(&b.0)));
            }
            String::new()
        }
        KOp::Clear => {
            m.0.clear();
            String::new()
        }
        KOp::Fmt => String::new(),
        KOp::Assign(k, p) => {
            m.insert(KEYS[*k], *p);
            String::new()
        }
        KOp::Extend(ps) => {
            for (k, p) in ps {
                m.insert(KEYS[*k], *p);
            }
            String::new()
        }
        KOp::Collect => {
            m.0.retain(|(_, s)| *s != Slot::Ph);
            String::new()
        }
        KOp::IntoIter => format!("{:?}", m.visible().into_iter().map(|(k, p)| (k, Some(p))).collect::<Vec<_>>()),
        KOp::IterMutBump => {
            let seen = m.visible();
            for (_, s) in m.0.iter_mut() {
                if let Slot::V(v) = s {
                    *v += 1_000_000;
                }
            }
            format!("{seen:?}")
        }
        KOp::GetOrInsert(k, p) => match m.get(KEYS[*k]) {
            Some(v) => r(Some(v)),
            None => {
                // (on a placeholder slot: a lookup-or-insert sees no value there, so it inserts)
                m.insert(KEYS[*k], *p);
                r(Some(*p))
            }
        },
        KOp::Vivify(k) => {
            if m.pos(KEYS[*k]).is_none() {
                m.0.push((KEYS[*k].to_string(), Slot::Ph));
            }
            String::new()
        }
    };
    (if unspecified { None } else { Some(ret) }, unspecified)
}

/// full observation of the implementation
fn observe(holder: &Item, target: Target) -> Vec<String> {
    let mut out = vec![];
    let pairs_of = |it: &mut dyn Iterator<Item = (String, Option<i64>)>| format!("{:?}", it.collect::<Vec<_>>());
    match target {
        Target::Table => {
            let t = holder.as_table().unwrap();
            out.push(format!("len {}", t.len()));
            out.push(format!("is_empty {}", t.is_empty()));
            out.push(format!("iter {}", pairs_of(&mut t.iter().map(|(k, i)| (k.to_string(), item_payload(i))))));
            for k in KEYS {
                out.push(format!("get {k} {:?} {}", t.get(k).and_then(item_payload), t.contains_key(k)));
            }
            out.push(format!("get_values {:?}", t.get_values().iter().map(|(p, v)| (p.iter().map(|k| k.get().to_string()).collect::<Vec<_>>().join("."), v.as_integer())).collect::<Vec<_>>()));
            out.push(format!("printed {}", printed(&t.to_string())));
        }
        Target::Inline => {
            let t = holder.as_inline_table().unwrap();
            out.push(format!("len {}", t.len()));
            out.push(format!("is_empty {}", t.is_empty()));
            out.push(format!("iter {}", pairs_of(&mut t.iter().map(|(k, v)| (k.to_string(), v.as_integer())))));
            for k in KEYS {
                out.push(format!("get {k} {:?} {}", t.get(k).and_then(|v| v.as_integer()), t.contains_key(k)));
            }
            out.push(format!("get_values {:?}", t.get_values().iter().map(|(p, v)| (p.iter().map(|k| k.get().to_string()).collect::<Vec<_>>().join("."), v.as_integer())).collect::<Vec<_>>()));
            out.push(format!("printed {}", printed(&format!("x = {t}\n")).replace("x.", "")));
        }
        Target::LikeTable | Target::LikeInline => {
            let t = holder.as_table_like().unwrap();
            out.push(format!("len {}", t.len()));
            out.push(format!("is_empty {}", t.is_empty()));
            out.push(format!("iter {}", pairs_of(&mut t.iter().map(|(k, i)| (k.to_string(), item_payload(i))))));
            for k in KEYS {
                out.push(format!("get {k} {:?} {}", t.get(k).and_then(item_payload), t.contains_key(k)));
            }
            out.push(format!("get_values {:?}", t.get_values().iter().map(|(p, v)| (p.iter().map(|k| k.get().to_string()).collect::<Vec<_>>().join("."), v.as_integer())).collect::<Vec<_>>()));
            out.push("printed -".to_string());
        }
    }
    // the same lookups through the `Item` that holds the container
    for k in KEYS {
        out.push(format!("item.get {k} {:?} {}", holder.get(k).and_then(item_payload), holder.get(k).is_some()));
    }
    out
}

/// decode a printed table body to its ordered (key, int) pairs
fn printed(text: &str) -> String {
    match text.parse::<toml_edit::DocumentMut>() {
        Ok(d) => {
            let mut v = vec![];
            fn walk(prefix: &str, t: &Table, v: &mut Vec<(String, Option<i64>)>) {
                for (k, i) in t.iter() {
                    match i {
                        Item::Value(Value::InlineTable(it)) => {
                            for (kk, vv) in it.iter() {
                                v.push((format!("{prefix}{k}.{kk}"), vv.as_integer()));
                            }
                        }
                        _ => v.push((format!("{prefix}{k}"), i.as_integer())),
                    }
                }
            }
            walk("", d.as_table(), &mut v);
            format!("{v:?}")
        }
        Err(e) => format!("UNPARSABLE {e}"),
    }
}

fn observe_model(m: &KM, target: Target) -> Vec<String> {
    let vis = m.visible();
    let mut out = vec![];
    out.push(format!("len {}", vis.len()));
    out.push(format!("is_empty {}", vis.is_empty()));
    out.push(format!("iter {:?}", vis.iter().map(|(k, p)| (k.clone(), Some(*p))).collect::<Vec<_>>()));
    for k in KEYS {
        out.push(format!("get {k} {:?} {}", m.get(k), m.get(k).is_some()));
    }
    out.push(format!("get_values {:?}", vis.iter().map(|(k, p)| (k.clone(), Some(*p))).collect::<Vec<_>>()));
    match target {
        Target::Table | Target::Inline => out.push(format!("printed {:?}", vis.iter().map(|(k, p)| (k.clone(), Some(*p))).collect::<Vec<_>>())),
        _ => out.push("printed -".to_string()),
    }
    for k in KEYS {
        out.push(format!("item.get {k} {:?} {}", m.get(k), m.get(k).is_some()));
    }
    out
}

static KNOWN_F7: std::sync::atomic::AtomicBool = std::sync::atomic::AtomicBool::new(false);

fn prop_keyed(t: &mut Tape, st: &mut Stats, target: Target) -> Result<(), Failure> {
    let n = t.below(40);
    let mut counter = 0i64;
    let ops: Vec<KOp> = (0..n).map(|_| gen_kop(t, &mut counter)).collect();
    st.eval();
    let mut holder = match target {
        Target::Table | Target::LikeTable => Item::Table(Table::new()),
        _ => Item::Value(Value::InlineTable(InlineTable::new())),
    };
    let mut model = KM::default();
    let mut log: Vec<String> = vec![];
    let (mut collision, mut viv_then, mut rem_iter, mut sort_after) = (false, false, false, false);
    let mut seen_keys = [false; 4];
    let mut had_viv = false;
    let mut had_insert = false;
    for op in &ops {
        // InlineTable::entry on a placeholder slot first turns the slot into a value of its own
        // choosing (documented "ensure it is a Value"); the property is silent about it and the
        // payload model cannot express it: the history ends here
        if target == Target::Inline {
            if let KOp::EntryOrInsert(k, _) | KOp::EntryOrInsertWith(k, _) | KOp::EntryInsert(k, _) | KOp::EntryRemove(k) = op {
                if model.is_ph(KEYS[*k]) {
                    st.class("unspecified-on-placeholder");
                    break;
                }
            }
        }
        let m_before = model.clone();
        let (mret, unspecified) = apply_model(&mut model, target, op);
        let iret = if let KOp::Vivify(k) = op {
            // auto-vivification through Item indexing
            let _ = &mut holder[KEYS[*k]];
            Some(String::new())
        } else {
            apply_impl(&mut holder, target, op)
        };
        let Some(iret) = iret else {
            // op not available on this target: undo on the model
            model = m_before;
            continue;
        };
        log.push(format!("{op:?}"));
        st.class(&format!("op.{}", format!("{op:?}").split(['(', ' ']).next().unwrap_or("?")));
        if unspecified {
            st.class("unspecified-on-placeholder");
        }
        match op {
            KOp::Insert(k, _) | KOp::Assign(k, _) | KOp::InsertFormatted(k, _) | KOp::EntryInsert(k, _) => {
                if seen_keys[*k] {
                    collision = true;
                }
                seen_keys[*k] = true;
                had_insert = true;
            }
            KOp::Vivify(_) => had_viv = true,
            KOp::Remove(_) | KOp::Get(_) | KOp::RemoveEntry(_) if had_viv => viv_then = true,
            KOp::SortValues | KOp::SortValuesByRev | KOp::Retain(_) if had_insert => sort_after = true,
            _ => {}
        }
        if matches!(op, KOp::Remove(_) | KOp::RemoveEntry(_) | KOp::EntryRemove(_)) {
            rem_iter = true;
        }
        let case = || json!({"target": format!("{target:?}"), "ops": log});
        if let Some(mret) = &mret {
            if *mret != iret {
                // F7: placeholder visible through TableLike for InlineTable
                if target == Target::LikeInline && KNOWN_F7.load(std::sync::atomic::Ordering::Relaxed) && model.0.iter().chain(m_before.0.iter()).any(|(_, s)| *s == Slot::Ph) {
                    st.known("F7", F7_WHAT);
                    return Ok(());
                }
                return Err(Failure::new("return", format!("[{target:?}] after {:?}: call returned {iret:?}, the reference ordered map returns {mret:?}", log), case()));
            }
        }
        let (oi, om) = (observe(&holder, target), observe_model(&model, target));
        if oi != om {
            if target == Target::LikeInline && KNOWN_F7.load(std::sync::atomic::Ordering::Relaxed) && model.0.iter().any(|(_, s)| *s == Slot::Ph) {
                st.known("F7", F7_WHAT);
                return Ok(());
            }
            let d = oi.iter().zip(om.iter()).find(|(a, b)| a != b).map(|(a, b)| format!("container: {a}   reference: {b}")).unwrap_or_default();
            return Err(Failure::new("state", format!("[{target:?}] after {:?}: observable state differs from the reference ordered map: {d}", log), case()));
        }
    }
    if collision && (viv_then || rem_iter || sort_after) {
        st.nontrivial(fnv64(format!("{target:?}{log:?}").as_bytes()));
    }
    st.sample(|| json!({"target": format!("{target:?}"), "ops": log}));
    Ok(())
}

fn prop_table(t: &mut Tape, st: &mut Stats) -> Result<(), Failure> {
    prop_keyed(t, st, Target::Table)
}
fn prop_inline(t: &mut Tape, st: &mut Stats) -> Result<(), Failure> {
    prop_keyed(t, st, Target::Inline)
}
fn prop_like_table(t: &mut Tape, st: &mut Stats) -> Result<(), Failure> {
    prop_keyed(t, st, Target::LikeTable)
}
fn prop_like_inline(t: &mut Tape, st: &mut Stats) -> Result<(), Failure> {
    prop_keyed(t, st, Target::LikeInline)
}

// ------------------------------------------------------------------------------------------------
// sequences: Array and ArrayOfTables against Vec<i64>
// ------------------------------------------------------------------------------------------------

fn prop_array(t: &mut Tape, st: &mut Stats) -> Result<(), Failure> {
    let n = t.below(40);
    st.eval();
    let mut a = Array::new();
    let mut m: Vec<i64> = vec![];
    let mut log = vec![];
    let mut counter = 0i64;
    let mut interesting = false;
    for _ in 0..n {
        counter += 1;
        let p = counter;
        let len = m.len();
        let idx_in = if len > 0 { t.below(len) } else { 0 };
        let idx_ins = t.below(len + 1);
        let op = t.below(16);
        let (name, ri, rm): (String, String, String) = match op {
            0 | 1 => {
                a.push(p);
                m.push(p);
                ("push".into(), String::new(), String::new())
            }
            2 => {
                a.push_formatted(Value::from(p));
                m.push(p);
                ("push_formatted".into(), String::new(), String::new())
            }
            3 => {
                a.insert(idx_ins, p);
                m.insert(idx_ins, p);
                (format!("insert {idx_ins}"), String::new(), String::new())
            }
            4 => {
                a.insert_formatted(idx_ins, Value::from(p));
                m.insert(idx_ins, p);
                (format!("insert_formatted {idx_ins}"), String::new(), String::new())
            }
            5 if len > 0 => {
                let old = a.replace(idx_in, p).as_integer();
                let mo = std::mem::replace(&mut m[idx_in], p);
                (format!("replace {idx_in}"), format!("{old:?}"), format!("{:?}", Some(mo)))
            }
            6 if len > 0 => {
                let old = a.replace_formatted(idx_in, Value::from(p)).as_integer();
                let mo = std::mem::replace(&mut m[idx_in], p);
                (format!("replace_formatted {idx_in}"), format!("{old:?}"), format!("{:?}", Some(mo)))
            }
            7 | 8 if len > 0 => {
                interesting = true;
                let old = a.remove(idx_in).as_integer();
                let mo = m.remove(idx_in);
                (format!("remove {idx_in}"), format!("{old:?}"), format!("{:?}", Some(mo)))
            }
            9 => {
                let md = 2 + t.below(3) as i64;
                // a predicate with a memory: documented to be called once per element in the original order
                let (mut seen_a, mut seen_m) = (vec![], vec![]);
                a.retain(|v| {
                    let v = v.as_integer().unwrap();
                    seen_a.push(v);
                    v % md != 0 && seen_a.len() % 4 != 3
                });
                m.retain(|v| {
                    seen_m.push(*v);
                    v % md != 0 && seen_m.len() % 4 != 3
                });
                interesting = true;
                (format!("retain %{md} (stateful)"), format!("{seen_a:?}"), format!("{seen_m:?}"))
            }
            10 => {
                a.sort_by(|x, y| y.as_integer().cmp(&x.as_integer()));
                m.sort_by(|x, y| y.cmp(x));
                interesting = true;
                ("sort_by desc".into(), String::new(), String::new())
            }
            11 => {
                a.sort_by_key(|x| x.as_integer().unwrap() % 3);
                m.sort_by_key(|x| x % 3);
                interesting = true;
                ("sort_by_key %3 (stable)".into(), String::new(), String::new())
            }
            12 => {
                if t.chance(1, 4) {
                    a.clear();
                    m.clear();
                    ("clear".into(), String::new(), String::new())
                } else {
                    a.fmt();
                    ("fmt".into(), String::new(), String::new())
                }
            }
            13 => {
                let ext: Vec<i64> = (0..1 + t.below(3)).map(|i| p * 10 + i as i64).collect();
                a.extend(ext.iter().copied());
                m.extend(ext);
                ("extend".into(), String::new(), String::new())
            }
            14 => {
                a = Array::from_iter(a.iter().map(|v| v.as_integer().unwrap()));
                ("collect".into(), String::new(), String::new())
            }
            _ => {
                let g = a.get(idx_in).and_then(|v| v.as_integer());
                let gm = m.get(idx_in).copied();
                if let Some(v) = a.get_mut(idx_in) {
                    *v = Value::from(p);
                    m[idx_in] = p;
                }
                (format!("get/get_mut {idx_in}"), format!("{g:?}"), format!("{gm:?}"))
            }
        };
        log.push(name.clone());
        st.class(&format!("array.{}", name.split(' ').next().unwrap()));
        let case = || json!({"target": "Array", "ops": log});
        if ri != rm {
            return Err(Failure::new("return", format!("[Array] after {log:?}: returned {ri}, Vec returns {rm}"), case()));
        }
        let obs: Vec<Option<i64>> = a.iter().map(|v| v.as_integer()).collect();
        let into: Vec<Option<i64>> = a.clone().into_iter().map(|v| v.as_integer()).collect();
        let pr = printed(&format!("x = {a}\n"));
        let want: Vec<Option<i64>> = m.iter().map(|v| Some(*v)).collect();
        let pr_want = format!("{:?}", vec![("x".to_string(), None::<i64>)]);
        let _ = pr_want;
        let printed_vals: Option<Vec<Option<i64>>> = format!("x = {a}\n").parse::<toml_edit::DocumentMut>().ok().and_then(|d| d["x"].as_array().map(|arr| arr.iter().map(|v| v.as_integer()).collect()));
        if obs != want || into != want || a.len() != m.len() || a.is_empty() != m.is_empty() || printed_vals.as_ref() != Some(&want) {
            return Err(Failure::new("state", format!("[Array] after {log:?}: iter {obs:?} into_iter {into:?} len {} printed {pr}; Vec is {m:?}", a.len()), case()));
        }
    }
    if interesting && m.len() >= 2 {
        st.nontrivial(fnv64(format!("array{log:?}").as_bytes()));
    }
    Ok(())
}

fn marker_table(p: i64) -> Table {
    let mut t = Table::new();
    t.insert("m", toml_edit::value(p));
    t
}

fn prop_aot(t: &mut Tape, st: &mut Stats) -> Result<(), Failure> {
    let n = t.below(30);
    st.eval();
    let mut a = ArrayOfTables::new();
    let mut m: Vec<i64> = vec![];
    let mut log = vec![];
    let mut counter = 0;
    let mut interesting = false;
    for _ in 0..n {
        counter += 1;
        let p = counter;
        let len = m.len();
        let idx_in = if len > 0 { t.below(len) } else { 0 };
        let name: String = match t.below(8) {
            0 | 1 | 2 => {
                a.push(marker_table(p));
                m.push(p);
                "push".into()
            }
            3 if len > 0 => {
                a.remove(idx_in);
                m.remove(idx_in);
                interesting = true;
                format!("remove {idx_in}")
            }
            4 => {
                let md = 2 + t.below(2) as i64;
                let (mut na, mut nm) = (0, 0);
                a.retain(|t| {
                    na += 1;
                    t["m"].as_integer().unwrap() % md != 0 && na % 4 != 3
                });
                m.retain(|v| {
                    nm += 1;
                    v % md != 0 && nm % 4 != 3
                });
                interesting = true;
                format!("retain %{md} (stateful)")
            }
            5 => {
                if t.chance(1, 4) {
                    a.clear();
                    m.clear();
                    "clear".into()
                } else {
                    a.extend([marker_table(p * 10), marker_table(p * 10 + 1)]);
                    m.extend([p * 10, p * 10 + 1]);
                    "extend".into()
                }
            }
            6 => {
                if let Some(tb) = a.get_mut(idx_in) {
                    tb.insert("m", toml_edit::value(p));
                    m[idx_in] = p;
                }
                format!("get_mut {idx_in}")
            }
            _ => {
                a = ArrayOfTables::from_iter(a.iter().cloned());
                "collect".into()
            }
        };
        log.push(name.clone());
        st.class(&format!("aot.{}", name.split(' ').next().unwrap()));
        let case = || json!({"target": "ArrayOfTables", "ops": log});
        let obs: Vec<Option<i64>> = a.iter().map(|t| t.get("m").and_then(|i| i.as_integer())).collect();
        let into: Vec<Option<i64>> = a.clone().into_iter().map(|t| t.get("m").and_then(|i| i.as_integer())).collect();
        let via_get: Vec<Option<i64>> = (0..a.len()).map(|i| a.get(i).and_then(|t| t.get("m")).and_then(|i| i.as_integer())).collect();
        let want: Vec<Option<i64>> = m.iter().map(|v| Some(*v)).collect();
        // printed inside a document
        let mut doc = toml_edit::DocumentMut::new();
        doc.insert("x", Item::ArrayOfTables(a.clone()));
        let pr: Vec<Option<i64>> = doc.to_string().parse::<toml_edit::DocumentMut>().ok().map(|d| d.get("x").and_then(|i| i.as_array_of_tables()).map(|aa| aa.iter().map(|t| t.get("m").and_then(|i| i.as_integer())).collect()).unwrap_or_default()).unwrap_or(vec![None]);
        // into_array keeps order
        let arr: Vec<Option<i64>> = a.clone().into_array().iter().map(|v| v.as_inline_table().and_then(|t| t.get("m")).and_then(|v| v.as_integer())).collect();
        if obs != want || into != want || via_get != want || pr != want || arr != want || a.len() != m.len() || a.is_empty() != m.is_empty() {
            return Err(Failure::new("state", format!("[ArrayOfTables] after {log:?}: iter {obs:?} into_iter {into:?} get {via_get:?} printed {pr:?} into_array {arr:?}; Vec is {m:?}"), case()));
        }
    }
    if interesting && m.len() >= 2 {
        st.nontrivial(fnv64(format!("aot{log:?}").as_bytes()));
    }
    Ok(())
}

// ------------------------------------------------------------------------------------------------
// toml::Map (sorted, or insertion-ordered under preserve_order)
// ------------------------------------------------------------------------------------------------

fn prop_map(t: &mut Tape, st: &mut Stats) -> Result<(), Failure> {
    use toml::map::{Entry, Map};
    let n = t.below(40);
    st.eval();
    let po = cfg!(feature = "preserve_order");
    let mut a: Map<String, toml::Value> = Map::new();
    let mut m: Vec<(String, i64)> = vec![];
    let mut log = vec![];
    let mut counter = 0;
    let mut interesting = false;
    let mk = |p: i64| toml::Value::Integer(p);
    let put = |m: &mut Vec<(String, i64)>, k: &str, p: i64| -> Option<i64> {
        if let Some(e) = m.iter_mut().find(|(kk, _)| kk == k) {
            Some(std::mem::replace(&mut e.1, p))
        } else {
            m.push((k.to_string(), p));
            if !po {
                m.sort_by(|a, b| a.0.cmp(&b.0));
            }
            None
        }
    };
    let del = |m: &mut Vec<(String, i64)>, k: &str| -> Option<i64> { m.iter().position(|(kk, _)| kk == k).map(|i| m.remove(i).1) };
    for _ in 0..n {
        counter += 1;
        let p = counter;
        let k = KEYS[t.below(4)];
        let (name, ri, rm): (String, String, String) = match t.below(14) {
            0 | 1 | 2 => {
                let r = a.insert(k.to_string(), mk(p)).and_then(|v| v.as_integer());
                let rmm = put(&mut m, k, p);
                (format!("insert {k}"), format!("{r:?}"), format!("{rmm:?}"))
            }
            3 | 4 => {
                interesting = true;
                let r = a.remove(k).and_then(|v| v.as_integer());
                let rmm = del(&mut m, k);
                (format!("remove {k}"), format!("{r:?}"), format!("{rmm:?}"))
            }
            5 => {
                let r = a.get_key_value(k).map(|(kk, v)| (kk.clone(), v.as_integer()));
                let rmm = m.iter().find(|(kk, _)| kk == k).map(|e| (e.0.clone(), Some(e.1)));
                (format!("get_key_value {k}"), format!("{r:?}"), format!("{rmm:?}"))
            }
            6 => {
                let r = (a.get(k).and_then(|v| v.as_integer()), a.contains_key(k));
                let g = m.iter().find(|(kk, _)| kk == k).map(|e| e.1);
                (format!("get {k}"), format!("{r:?}"), format!("{:?}", (g, g.is_some())))
            }
            7 => {
                let r = a.get_mut(k).map(|v| {
                    let o = v.as_integer();
                    *v = mk(p);
                    o
                });
                let g = m.iter_mut().find(|(kk, _)| kk == k).map(|e| Some(std::mem::replace(&mut e.1, p)));
                (format!("get_mut {k}"), format!("{r:?}"), format!("{g:?}"))
            }
            8 => {
                let r = a.entry(k.to_string()).or_insert(mk(p)).as_integer();
                let g = match m.iter().find(|(kk, _)| kk == k) {
                    Some(e) => Some(e.1),
                    None => {
                        put(&mut m, k, p);
                        Some(p)
                    }
                };
                (format!("entry.or_insert {k}"), format!("{r:?}"), format!("{g:?}"))
            }
            9 => {
                let r = a.entry(k.to_string()).or_insert_with(|| mk(p)).as_integer();
                let g = match m.iter().find(|(kk, _)| kk == k) {
                    Some(e) => Some(e.1),
                    None => {
                        put(&mut m, k, p);
                        Some(p)
                    }
                };
                (format!("entry.or_insert_with {k}"), format!("{r:?}"), format!("{g:?}"))
            }
            10 => match a.entry(k.to_string()) {
                Entry::Occupied(mut e) => {
                    let r = if t.chance(1, 2) {
                        let o = e.insert(mk(p)).as_integer();
                        let g = put(&mut m, k, p);
                        (format!("occupied.insert {k}"), format!("{o:?}"), format!("{g:?}"))
                    } else {
                        interesting = true;
                        let o = e.remove().as_integer();
                        let g = del(&mut m, k);
                        (format!("occupied.remove {k}"), format!("{o:?}"), format!("{g:?}"))
                    };
                    r
                }
                Entry::Vacant(e) => {
                    let had = m.iter().any(|(kk, _)| kk == k);
                    e.insert(mk(p));
                    put(&mut m, k, p);
                    (format!("vacant.insert {k}"), format!("{}", false), format!("{had}"))
                }
            },
            11 => {
                let md = 2 + t.below(2) as i64;
                let (mut seen_a, mut seen_m) = (vec![], vec![]);
                a.retain(|_, v| {
                    let v = v.as_integer().unwrap();
                    seen_a.push(v);
                    v % md != 0 && seen_a.len() % 4 != 3
                });
                m.retain(|(_, v)| {
                    seen_m.push(*v);
                    v % md != 0 && seen_m.len() % 4 != 3
                });
                interesting = true;
                (format!("retain %{md} (stateful)"), format!("{seen_a:?}"), format!("{seen_m:?}"))
            }
            12 => {
                if t.chance(1, 4) {
                    a.clear();
                    m.clear();
                    ("clear".into(), String::new(), String::new())
                } else {
                    let ext: Vec<(String, i64)> = (0..1 + t.below(3)).map(|i| (KEYS[t.below(4)].to_string(), p * 10 + i as i64)).collect();
                    a.extend(ext.iter().map(|(k, v)| (k.clone(), mk(*v))));
                    for (k, v) in ext {
                        put(&mut m, &k, v);
                    }
                    ("extend".into(), String::new(), String::new())
                }
            }
            _ => {
                a = a.clone().into_iter().collect();
                ("collect".into(), String::new(), String::new())
            }
        };
        log.push(name.clone());
        st.class(&format!("map.{}", name.split(' ').next().unwrap()));
        let case = || json!({"target": format!("toml::Map preserve_order={po}"), "ops": log});
        if ri != rm {
            return Err(Failure::new("return", format!("[toml::Map po={po}] after {log:?}: returned {ri}, reference returns {rm}"), case()));
        }
        let it: Vec<(String, Option<i64>)> = a.iter().map(|(k, v)| (k.clone(), v.as_integer())).collect();
        let keys: Vec<String> = a.keys().cloned().collect();
        let vals: Vec<Option<i64>> = a.values().map(|v| v.as_integer()).collect();
        let into: Vec<(String, Option<i64>)> = a.clone().into_iter().map(|(k, v)| (k, v.as_integer())).collect();
        let want: Vec<(String, Option<i64>)> = m.iter().map(|(k, v)| (k.clone(), Some(*v))).collect();
        let printed_pairs = printed(&a.to_string());
        let want_printed = format!("{want:?}");
        // the iterators are double-ended and exact-sized: walked from the back they give the same
        // entries in the opposite order
        let mut want_rev = want.clone();
        want_rev.reverse();
        let it_rev: Vec<(String, Option<i64>)> = a.iter().rev().map(|(k, v)| (k.clone(), v.as_integer())).collect();
        let keys_rev: Vec<String> = a.keys().rev().cloned().collect();
        let vals_rev: Vec<Option<i64>> = a.values().rev().map(|v| v.as_integer()).collect();
        let into_rev: Vec<(String, Option<i64>)> = a.clone().into_iter().rev().map(|(k, v)| (k, v.as_integer())).collect();
        let last = a.iter().next_back().map(|(k, v)| (k.clone(), v.as_integer()));
        let mut ac = a.clone();
        let last_mut = ac.iter_mut().next_back().map(|(k, v)| (k.clone(), v.as_integer()));
        if it_rev != want_rev || into_rev != want_rev || keys_rev != want_rev.iter().map(|e| e.0.clone()).collect::<Vec<_>>() || vals_rev != want_rev.iter().map(|e| e.1).collect::<Vec<_>>() || last != want.last().cloned() || last_mut != want.last().cloned() || a.iter().len() != m.len() {
            return Err(Failure::new("state", format!("[toml::Map po={po}] after {log:?}: walked from the back the iterators give iter {it_rev:?} keys {keys_rev:?} values {vals_rev:?} into_iter {into_rev:?} next_back {last:?}; reference {want_rev:?}"), case()));
        }
        if it != want || into != want || keys != want.iter().map(|e| e.0.clone()).collect::<Vec<_>>() || vals != want.iter().map(|e| e.1).collect::<Vec<_>>() || a.len() != m.len() || a.is_empty() != m.is_empty() || printed_pairs != want_printed {
            return Err(Failure::new("state", format!("[toml::Map po={po}] after {log:?}: iter {it:?} printed {printed_pairs}; reference {want:?}"), case()));
        }
    }
    if interesting && m.len() >= 2 {
        st.nontrivial(fnv64(format!("map{po}{log:?}").as_bytes()));
    }
    Ok(())
}

pub fn run(args: Args) -> ! {
    let po = cfg!(feature = "preserve_order");
    let mut rep = Report::new("C16", args.tier, args.seed);
    rep.rule = "stateful: a generated list of up to 40 calls (insert, insert_formatted, remove, remove_entry, get, get_mut, get_key_value, contains_*, entry or_insert / or_insert_with / occupied insert / occupied remove, retain, sort_values, sort_values_by, clear, fmt, IndexMut assignment, auto-vivification through Item indexing, extend, collect, into_iter) over a 4-key alphabet is run on Table, InlineTable, dyn TableLike (both implementors), Array, ArrayOfTables and toml::Map (sorted and preserve_order builds) in lock step with a plain ordered map with explicit placeholders / Vec; after every call the return value and a full observation (len, is_empty, iter, get/contains for every key, get_values, printed text re-parsed) must agree. Calls made on a placeholder slot whose result the property leaves open are counted as unspecified-on-placeholder and their return value is not compared. non-trivial = a key collision and one of: vivification followed by removal/lookup, removal followed by iteration, sort/retain after inserts; distinct by call list".into();
    rep.assumptions = vec!["values under value containers only; indices within bounds (documented Vec-like panics otherwise)".into()];
    KNOWN_F7.store(rep.is_known("F7"), std::sync::atomic::Ordering::Relaxed);
    let props: Vec<(&str, &TapeProp)> = vec![("Table", &prop_table), ("InlineTable", &prop_inline), ("TableLike-Table", &prop_like_table), ("TableLike-InlineTable", &prop_like_inline), ("Array", &prop_array), ("ArrayOfTables", &prop_aot), ("Map", &prop_map)];
    if let Some(p) = &args.replay {
        let j = super::load_replay(p);
        let tape = super::replay_tape(&j);
        let sub = j["sub"].as_str().unwrap_or("Table").to_string();
        let mut st = Stats::new();
        if let Some((_, pr)) = props.iter().find(|(n, _)| sub.starts_with(n) && (sub.len() == n.len() || sub.as_bytes()[n.len()] == b'.')) {
            if let Err(f) = guarded(*pr, &tape, &mut st) {
                rep.violation("replay", Some(&tape), &f);
            }
        }
        rep.stats.merge(st);
        rep.stats.nontrivial.insert(1);
        rep.stats.nontrivial.insert(2);
        rep.finish();
    }
    let map_only = std::env::var("VCHECK_MAP_ONLY").is_ok();
    let cases = args.tier.pick(60_000, 1_500_000);
    for (name, pr) in &props {
        if map_only && *name != "Map" {
            continue;
        }
        let sub = if *name == "Map" { format!("Map.{}", if po { "preserve_order" } else { "sorted" }) } else { name.to_string() };
        let run = run_tape(&format!("C16.{sub}"), *pr, 300, cases, args.seed, workers());
        finish_run(&mut rep, &sub, run);
    }
    if map_only {
        // child of the main run: report through stdout only
        let nt = rep.stats.nontrivial.len();
        println!("MAP-PO-RESULT evaluations={} nontrivial={} violations={}", rep.stats.evaluations, nt, rep.violations.len());
        std::process::exit(if rep.violations.is_empty() { 0 } else { 1 });
    }
    // the preserve_order build of toml::Map runs in the second binary
    let po_bin = format!("{}/harness/target-po/chk/vcheck", VERIF_DIR);
    if !po {
        if !std::path::Path::new(&po_bin).exists() {
            fault(&format!("{po_bin} not built (the check script builds it)"));
        }
        let o = std::process::Command::new(&po_bin)
            .args(["C16", "--tier", args.tier.name()])
            .env("VCHECK_MAP_ONLY", "1")
            .env("VERIF_SEED", args.seed.to_string())
            .output()
            .unwrap_or_else(|e| fault(&format!("spawn {po_bin}: {e}")));
        let so = String::from_utf8_lossy(&o.stdout);
        for l in so.lines() {
            if l.starts_with("VIOLATION") || l.starts_with("  ") {
                println!("{l}");
            }
            if let Some(rest) = l.strip_prefix("MAP-PO-RESULT ") {
                let get = |k: &str| rest.split(' ').find_map(|kv| kv.strip_prefix(&format!("{k}="))).and_then(|v| v.parse::<u64>().ok()).unwrap_or(0);
                rep.stats.evaluations += get("evaluations");
                rep.stats.class_n("map.preserve_order.cases", get("evaluations"));
                rep.extra.insert("map_preserve_order".into(), json!({"evaluations": get("evaluations"), "distinct_nontrivial": get("nontrivial"), "violations": get("violations")}));
                for i in 0..get("violations") {
                    rep.violations.push(format!("(preserve_order child #{i}, see VIOLATION lines above)"));
                }
            }
        }
        if !so.contains("MAP-PO-RESULT") {
            fault(&format!("preserve_order child gave no result: {}", String::from_utf8_lossy(&o.stderr)));
        }
    }
    for c in ["op.Vivify", "op.Insert", "op.Remove", "op.Retain", "op.SortValues", "op.EntryOrInsert", "array.remove", "aot.remove", "map.remove", "map.preserve_order.cases", "unspecified-on-placeholder"] {
        rep.require_class(c);
    }
    rep.finish()
}
