//! C05 — nesting is bounded so no document can exhaust the stack.

use super::Args;
use crate::engine::*;
use crate::tape::{fnv64, SplitMix, Tape};
use serde_json::json;

#[derive(Clone, Debug, PartialEq)]
pub enum Level {
    Array,
    Inline { key: usize },
}

#[derive(Clone, Debug, PartialEq)]
pub struct Spec {
    /// header path length (0 = no header)
    pub header: usize,
    pub aot: bool,
    /// dotted key length of the body line (>= 1)
    pub key: usize,
    pub levels: Vec<Level>,
}

impl Spec {
    pub fn text(&self) -> String {
        let mut s = String::new();
        if self.header > 0 {
            let p = vec!["h"; self.header].join(".");
            s.push_str(&if self.aot { format!("[[{p}]]\n") } else { format!("[{p}]\n") });
        }
        s.push_str(&vec!["k"; self.key].join("."));
        s.push_str(" = ");
        let mut close = String::new();
        for l in &self.levels {
            match l {
                Level::Array => {
                    s.push('[');
                    close.insert(0, ']');
                }
                Level::Inline { key } => {
                    s.push('{');
                    s.push_str(&vec!["i"; *key].join("."));
                    s.push('=');
                    close.insert(0, '}');
                }
            }
        }
        s.push('1');
        s.push_str(&close);
        s.push('\n');
        s
    }
    /// the same document with a line break (and a comment) after every opening bracket and every value
    pub fn text_multiline(&self, style: usize) -> String {
        let mut s = String::new();
        if self.header > 0 {
            let p = vec!["h"; self.header].join(".");
            s.push_str(&if self.aot { format!("[[{p}]]\n") } else { format!("[{p}]\n") });
        }
        s.push_str(&vec!["k"; self.key].join("."));
        s.push_str(" = ");
        let mut close = String::new();
        for l in &self.levels {
            match l {
                Level::Array => {
                    // 0: break after every bracket; 1: break only after every value; 2: a comment
                    // after every value; 3: blank + break on both sides
                    // 4: one line, a trailing comma after every value
                    s.push_str(["[ # c\n", "[", "[", "[ \n ", "["][style % 5]);
                    close.insert_str(0, ["\n]", "\n]", " # c\n]", " \n ]", ",]"][style % 5]);
                }
                Level::Inline { key } => {
                    s.push('{');
                    s.push_str(&vec!["i"; *key].join("."));
                    s.push('=');
                    close.insert(0, '}');
                }
            }
        }
        s.push('1');
        s.push_str(&close);
        s.push('\n');
        s
    }
    pub fn total(&self) -> usize {
        self.header + self.key + self.levels.iter().map(|l| match l { Level::Array => 1, Level::Inline { key } => *key }).sum::<usize>()
    }
    pub fn constructs(&self) -> usize {
        let mut n = 0;
        if self.header > 1 {
            n += 1;
        }
        if self.key > 1 {
            n += 1;
        }
        if self.levels.iter().any(|l| *l == Level::Array) {
            n += 1;
        }
        if self.levels.iter().any(|l| matches!(l, Level::Inline { key } if *key == 1)) {
            n += 1;
        }
        if self.levels.iter().any(|l| matches!(l, Level::Inline { key } if *key > 1)) {
            n += 1;
        }
        n
    }
}

fn gen_depth(t: &mut Tape) -> usize {
    match t.weighted(&[4, 3, 4, 2, 1]) {
        0 => 1 + t.below(3),
        1 => 15 + t.below(10),
        2 => 77 + t.below(5),
        3 => 100 + t.below(200),
        _ => 1000 + t.below(3000),
    }
}

pub fn gen_spec(t: &mut Tape) -> Spec {
    let header = if t.chance(1, 2) { gen_depth(t) } else { 0 };
    let aot = t.chance(1, 3);
    let key = if t.chance(1, 2) { gen_depth(t) } else { 1 };
    let mut levels = vec![];
    let groups = t.below(4);
    for _ in 0..groups {
        let n = gen_depth(t);
        match t.below(4) {
            3 => {
                // a short unit of mixed levels repeated (arrays and inline tables alternating, ...)
                let unit: Vec<Level> = (0..1 + t.below(3)).map(|_| if t.chance(1, 2) { Level::Array } else { Level::Inline { key: 1 + t.below(2) } }).collect();
                for _ in 0..n.min(150) {
                    levels.extend(unit.iter().cloned());
                }
            }
            0 => levels.extend(std::iter::repeat(Level::Array).take(n)),
            1 => levels.extend(std::iter::repeat(Level::Inline { key: 1 }).take(n)),
            _ => {
                let k = gen_depth(t).min(120);
                let reps = n.min(100);
                levels.extend(std::iter::repeat(Level::Inline { key: k }).take(reps));
            }
        }
    }
    Spec { header, aot, key, levels }
}

#[derive(Debug, Clone)]
pub enum Outcome {
    Accept { depth: usize },
    Reject { recursion: bool, msg: String },
    Died,
    Panic,
}

fn worker_path(profile: &str) -> String {
    format!("{}/harness/target/{profile}/c05worker", VERIF_DIR)
}

/// run a batch through one worker build; a death is attributed to the input whose result line is missing
pub fn run_batch(profile: &str, texts: &[String]) -> Vec<Outcome> {
    let dir = format!("{}/harness/target/c05-tmp", VERIF_DIR);
    let _ = std::fs::create_dir_all(&dir);
    static SEQ: std::sync::atomic::AtomicUsize = std::sync::atomic::AtomicUsize::new(0);
    let file = format!("{dir}/inputs-{profile}-{}-{}.bin", std::process::id(), SEQ.fetch_add(1, std::sync::atomic::Ordering::Relaxed));
    let mut data = vec![];
    for t in texts {
        data.extend((t.len() as u32).to_le_bytes());
        data.extend(t.as_bytes());
    }
    std::fs::write(&file, data).unwrap_or_else(|e| fault(&format!("write inputs: {e}")));
    let mut out: Vec<Outcome> = vec![];
    let mut start = 0;
    while start < texts.len() {
        // the worker's output goes to a file so that a worker that does not come back can be
        // killed and the input it is stuck on named (a hang is inconclusive, never a violation)
        let outfile = format!("{file}.out");
        let of = std::fs::File::create(&outfile).unwrap_or_else(|e| fault(&format!("create {outfile}: {e}")));
        let mut childp = std::process::Command::new(worker_path(profile))
            .args([&file, &start.to_string()])
            .stdout(of)
            .stderr(std::process::Stdio::null())
            .spawn()
            .unwrap_or_else(|e| fault(&format!("cannot run {}: {e}", worker_path(profile))));
        static CHILDREN: std::sync::Mutex<Vec<u32>> = std::sync::Mutex::new(Vec::new());
        CHILDREN.lock().unwrap().push(childp.id());
        let t0 = std::time::Instant::now();
        let status = loop {
            match childp.try_wait() {
                Ok(Some(st)) => {
                    let id = childp.id();
                    CHILDREN.lock().unwrap().retain(|p| *p != id);
                    break st;
                }
                Ok(None) => {}
                Err(e) => fault(&format!("wait: {e}")),
            }
            if t0.elapsed().as_secs() > 240 {
                let _ = childp.kill();
                let _ = childp.wait();
                // the run ends here: no worker of a sibling thread is left behind
                for p in CHILDREN.lock().unwrap().iter() {
                    let _ = std::process::Command::new("kill").args(["-9", &p.to_string()]).status();
                }
                let done = std::fs::read_to_string(&outfile).map(|s| s.lines().count()).unwrap_or(0);
                let stuck = texts.get(start + done).map(|t| t.chars().take(200).collect::<String>()).unwrap_or_default();
                let _ = std::fs::remove_file(&file);
                let _ = std::fs::remove_file(&outfile);
                fault(&format!("[{profile}] the worker did not finish its batch within 240 s; it is stuck on input {} ({} bytes): {stuck:?}", start + done, texts.get(start + done).map(|t| t.len()).unwrap_or(0)));
            }
            std::thread::sleep(std::time::Duration::from_millis(20));
        };
        struct Out {
            stdout: Vec<u8>,
            status: std::process::ExitStatus,
        }
        let o = Out { stdout: std::fs::read(&outfile).unwrap_or_default(), status };
        let _ = std::fs::remove_file(&outfile);
        let so = String::from_utf8_lossy(&o.stdout);
        for line in so.lines() {
            let mut it = line.splitn(2, ' ');
            let idx: usize = it.next().and_then(|s| s.parse().ok()).unwrap_or(usize::MAX);
            let rest = it.next().unwrap_or("");
            if idx != out.len() {
                fault(&format!("worker protocol: got line for {idx}, expected {}", out.len()));
            }
            out.push(if rest.starts_with("accept") {
                let d = rest.split("depth=").nth(1).and_then(|s| s.split(' ').next()).and_then(|s| s.parse().ok()).unwrap_or(usize::MAX);
                Outcome::Accept { depth: d }
            } else if rest.starts_with("reject") {
                Outcome::Reject { recursion: rest.contains("recursion=true"), msg: rest.to_string() }
            } else {
                Outcome::Panic
            });
        }
        if o.status.success() {
            break;
        }
        // died on input number out.len()
        if out.len() >= texts.len() {
            break;
        }
        out.push(Outcome::Died);
        start = out.len();
    }
    let _ = std::fs::remove_file(&file);
    if out.len() != texts.len() {
        fault(&format!("worker returned {} results for {} inputs", out.len(), texts.len()));
    }
    out
}

pub const F9_WHAT: &str = "the recursion limit is applied per construct, so depths multiply: dotted keys of up to 79 segments inside nested inline tables build a tree thousands of levels deep from a few KiB and overflow a 2 MiB stack";

const DEPTH_BOUND: usize = 256;

fn judge(spec: &Spec, profile: &str, o: &Outcome) -> Result<(), Failure> {
    let case = || json!({"spec": format!("{spec:?}"), "text": spec.text(), "build": profile});
    let head: String = spec.text().chars().take(300).collect();
    match o {
        Outcome::Died => Err(Failure::new("stack", format!("[{profile}] the worker process died on a 2 MiB thread (total nesting {}): {head}…", spec.total()), case())),
        Outcome::Panic => Err(Failure::new("panic", format!("[{profile}] panic: {head}…"), case())),
        Outcome::Accept { depth } => {
            if *depth > DEPTH_BOUND {
                return Err(Failure::new("depth", format!("[{profile}] accepted with decoded nesting depth {depth} > {DEPTH_BOUND} (input {} bytes): {head}…", spec.text().len()), case()));
            }
            Ok(())
        }
        Outcome::Reject { recursion, msg } => {
            // (the limit may surface under another message, e.g. "invalid inline table" when the
            // over-long dotted key sits inside an inline table; the rejection is what matters)
            let plain = spec.key == 1 && spec.header <= 79 && spec.levels.iter().all(|l| matches!(l, Level::Array | Level::Inline { key: 1 }));
            if plain && !*recursion {
                // no dotted key anywhere and the header path below the limit: the only reason to refuse this
                // document is the nesting of its arrays / inline tables, and the error has to say so
                return Err(Failure::new("limit-message", format!("[{profile}] nesting of {} arrays / inline tables is refused, but not with a recursion-limit error: {msg}\n{head}…", spec.levels.len()), case()));
            }
            if spec.total() <= 40 {
                return Err(Failure::new("below-limit", format!("[{profile}] total nesting {} is rejected: {msg}\n{head}…", spec.total()), case()));
            }
            // the limit is kept per header path and per key/value expression (a dotted key nests
            // its value, a dotted key inside an inline table nests what follows): a document whose
            // header path is below the limit and whose expression is below the limit is accepted,
            // whatever the two add up to
            let expr = spec.key - 1 + spec.levels.iter().map(|l| match l { Level::Array => 1, Level::Inline { key } => *key }).sum::<usize>();
            if spec.header <= 79 && expr <= 78 {
                return Err(Failure::new("below-limit", format!("[{profile}] header path of {} segments and key/value nesting of {expr} - both below the limit of 80 - is rejected: {msg}\n{head}…", spec.header), case()));
            }
            Ok(())
        }
    }
}

/// F9's shape: some inline level carries a dotted key (the multiplicative combination) or a
/// dotted key / header path is combined with value nesting
fn f9_shape(spec: &Spec) -> bool {
    let dotted_inline = spec.levels.iter().filter(|l| matches!(l, Level::Inline { key } if *key > 1)).count();
    dotted_inline >= 1 && spec.total() > 160 || (spec.key > 1 || spec.header > 1) && spec.total() > 160
}

pub fn run(args: Args) -> ! {
    let mut rep = Report::new("C05", args.tier, args.seed);
    rep.rule = "documents from a nesting grammar: header path (table or array of tables) x dotted key x nested arrays / inline tables / inline tables with dotted keys, each depth drawn around 1, 20, 78-81, hundreds and thousands, combined multiplicatively; each input is handled by a worker process on a 2 MiB thread in a debug and a release build (parse, print, debug-print, clone, drop, from_document, toml::from_str). Oracle: the worker survives; accepted => decoded depth <= 256; rejected => never when the header path has <= 79 segments and the key/value expression nests <= 78 deep (the limit is kept per header path and per expression; whether the message names the recursion limit is recorded as a class); per single construct the smallest rejected depth exists and every smaller depth (in particular <= 79) is accepted; wide documents (79..600 shallow siblings of 14 kinds as lines, array elements and inline-table entries, optionally followed by a construct nested 40 or 70 deep; hundreds of headers and dotted keys) are accepted. non-trivial = >= 2 different constructs with total depth >= 60; distinct by text".into();
    rep.assumptions = vec!["the exact limit is recorded, not asserted (only: <= 79 accepted, some depth <= 200 rejected)".into()];
    let known_f9 = rep.is_known("F9");
    for p in ["debug", "release"] {
        if !std::path::Path::new(&worker_path(p)).exists() {
            fault(&format!("{} not built (the check script builds it)", worker_path(p)));
        }
    }
    if let Some(p) = &args.replay {
        let j = super::load_replay(p);
        let text = j["case"]["text"].as_str().unwrap_or_else(|| fault("replay: case.text")).to_string();
        for prof in ["debug", "release"] {
            let o = run_batch(prof, &[text.clone()]);
            rep.stats.eval();
            match &o[0] {
                Outcome::Died => rep.violation("replay", None, &Failure::new("stack", format!("[{prof}] worker died"), json!({"text": text}))),
                Outcome::Accept { depth } if *depth > DEPTH_BOUND => rep.violation("replay", None, &Failure::new("depth", format!("[{prof}] depth {depth}"), json!({"text": text}))),
                _ => {}
            }
        }
        rep.stats.nontrivial.insert(1);
        rep.stats.nontrivial.insert(2);
        rep.stats.samples.push(json!({"text": text}));
        rep.finish();
    }
    // ---- single constructs: find the limit, no holes
    let singles: Vec<(&str, Box<dyn Fn(usize) -> Spec>)> = vec![
        ("array", Box::new(|d| Spec { header: 0, aot: false, key: 1, levels: vec![Level::Array; d] })),
        ("inline-table", Box::new(|d| Spec { header: 0, aot: false, key: 1, levels: vec![Level::Inline { key: 1 }; d] })),
        ("dotted-key", Box::new(|d| Spec { header: 0, aot: false, key: d, levels: vec![] })),
        ("dotted-key-in-inline", Box::new(|d| Spec { header: 0, aot: false, key: 1, levels: vec![Level::Inline { key: d }] })),
        ("table-header", Box::new(|d| Spec { header: d, aot: false, key: 1, levels: vec![] })),
        ("aot-header", Box::new(|d| Spec { header: d, aot: true, key: 1, levels: vec![] })),
    ];
    let mut limits = serde_json::Map::new();
    for (name, mk) in &singles {
        let specs: Vec<Spec> = (1..=200).map(|d| mk(d)).collect();
        let texts: Vec<String> = specs.iter().map(|s| s.text()).collect();
        for prof in ["debug", "release"] {
            let outs = run_batch(prof, &texts);
            rep.stats.evals(outs.len() as u64);
            rep.stats.class_n(&format!("single.{name}"), outs.len() as u64);
            let mut first_reject = None;
            for (i, o) in outs.iter().enumerate() {
                if let Err(f) = judge(&specs[i], prof, o) {
                    rep.violation(&format!("single-{name}"), None, &f);
                    break;
                }
                match o {
                    Outcome::Reject { .. } if first_reject.is_none() => first_reject = Some(i + 1),
                    Outcome::Accept { .. } if first_reject.is_some() => {
                        let f = Failure::new("hole", format!("[{prof}] {name}: depth {} accepted although depth {} is rejected", i + 1, first_reject.unwrap()), json!({"text": texts[i]}));
                        rep.violation(&format!("single-{name}"), None, &f);
                        break;
                    }
                    _ => {}
                }
            }
            match first_reject {
                None => {
                    let f = Failure::new("no-limit", format!("[{prof}] {name}: no depth up to 200 is rejected"), json!({"text": texts[199]}));
                    rep.violation(&format!("single-{name}"), None, &f);
                }
                Some(d) => {
                    limits.insert(format!("{name}.{prof}"), json!(d));
                    if d <= 79 {
                        let f = Failure::new("limit-too-low", format!("[{prof}] {name}: depth {d} (<= 79, below the documented limit) is rejected"), json!({"text": texts[d - 1]}));
                        rep.violation(&format!("single-{name}"), None, &f);
                    }
                }
            }
        }
    }
    rep.extra.insert("smallest_rejected_depth".into(), serde_json::Value::Object(limits));

    // ---- layout: the same nesting written over several lines (a line break and a comment after
    // every opening bracket, a line break before every closing one) has the same outcome, and comes
    // back at all: the worker is under a deadline, a parse whose cost explodes with the depth ends
    // the run as inconclusive with the input named.
    {
        let mut specs: Vec<Spec> = vec![];
        for d in (1..=100).chain([120, 150, 200]) {
            specs.push(Spec { header: 0, aot: false, key: 1, levels: vec![Level::Array; d] });
            let mixed: Vec<Level> = (0..d).map(|i| if i % 2 == 0 { Level::Array } else { Level::Inline { key: 1 } }).collect();
            specs.push(Spec { header: 0, aot: false, key: 1, levels: mixed });
            if d <= 60 {
                specs.push(Spec { header: 10, aot: d % 2 == 0, key: 3, levels: vec![Level::Array; d] });
            }
        }
        let specs: Vec<Spec> = specs.into_iter().flat_map(|s| vec![s; 5]).collect();
        let texts: Vec<String> = specs.iter().enumerate().map(|(i, s)| s.text_multiline(i)).collect();
        let flat: Vec<String> = specs.iter().map(|s| s.text()).collect();
        let w = workers();
        let chunk = (texts.len() + w - 1) / w;
        for prof in ["debug", "release"] {
            let run = |ts: &Vec<String>| -> Vec<Outcome> {
                std::thread::scope(|sc| {
                    let hs: Vec<_> = ts.chunks(chunk).map(|c| sc.spawn(move || run_batch(prof, c))).collect();
                    hs.into_iter().flat_map(|h| h.join().unwrap()).collect()
                })
            };
            let outs = run(&texts);
            let outs_flat = run(&flat);
            rep.stats.evals(outs.len() as u64 * 2);
            rep.stats.class_n("layout.multiline", outs.len() as u64);
            for (i, o) in outs.iter().enumerate() {
                if let Err(f) = judge(&specs[i], prof, o) {
                    rep.violation("layout", None, &f);
                    break;
                }
                let same = matches!((o, &outs_flat[i]), (Outcome::Accept { depth: a }, Outcome::Accept { depth: b }) if a == b) || matches!((o, &outs_flat[i]), (Outcome::Reject { .. }, Outcome::Reject { .. }));
                if !same {
                    let f = Failure::new("layout", format!("[{prof}] the multi-line layout gives {o:?}, the one-line layout {:?}", outs_flat[i]), json!({"text": texts[i], "flat": flat[i]}));
                    rep.violation("layout", None, &f);
                    break;
                }
                if specs[i].total() >= 20 {
                    rep.stats.nontrivial.insert(1);
                }
            }
        }
    }

    // ---- wide, not deep: many shallow siblings (and then one construct nested below the limit).
    // The depth counter has to be balanced: nesting that was left does not count any more.
    {
        const UNITS: [&str; 14] = ["[]", "[ ]", "{}", "{ }", "[[]]", "[{}]", "{a={}}", "{a=[]}", "[[],[]]", "{a.b=1}", "[1,[2,[3]]]", "{a={b={c=1}}}", "[\n]", "\"\""];
        let mut texts: Vec<String> = vec![];
        let mut names: Vec<String> = vec![];
        for u in UNITS {
            for n in [79usize, 80, 81, 200, 600] {
                for tail in [0usize, 40, 70] {
                    let mut s = String::new();
                    for i in 0..n {
                        s.push_str(&format!("e{i} = {u}\n"));
                    }
                    // also as elements of one array and as entries of one inline table
                    s.push_str(&format!("arr = [{}]\n", vec![u; n].join(", ")));
                    s.push_str(&format!("inl = {{{}}}\n", (0..n).map(|i| format!("k{i} = {}", u.replace('\n', ""))).collect::<Vec<_>>().join(", ")));
                    if tail > 0 {
                        s.push_str(&format!("deep = {}1{}\n", "[".repeat(tail), "]".repeat(tail)));
                        s.push_str(&format!("deepi = {}1{}\n", "{a=".repeat(tail), "}".repeat(tail)));
                    }
                    names.push(format!("{n} x `{}` then depth {tail}", u.escape_debug()));
                    texts.push(s);
                }
            }
        }
        // headers and dotted keys leave nothing behind either
        for n in [100usize, 400] {
            let mut s = String::new();
            for i in 0..n {
                s.push_str(&format!("[t{i}.a.b.c]\nx.y.z = 1\n[[u.v{i}]]\n"));
            }
            s.push_str(&format!("deep = {}1{}\n", "[".repeat(70), "]".repeat(70)));
            names.push(format!("{n} headers and dotted keys then depth 70"));
            texts.push(s);
        }
        for prof in ["debug", "release"] {
            let outs = run_batch(prof, &texts);
            for (i, o) in outs.iter().enumerate() {
                rep.stats.eval();
                rep.stats.class("wide");
                rep.stats.nontrivial(fnv64(texts[i].as_bytes()));
                let bad = match o {
                    Outcome::Accept { depth } if *depth <= 80 => None,
                    Outcome::Accept { depth } => Some(format!("accepted with decoded depth {depth}")),
                    Outcome::Reject { msg, .. } => Some(format!("rejected: {}", msg.lines().last().unwrap_or(""))),
                    Outcome::Died => Some("the worker died".to_string()),
                    Outcome::Panic => Some("the worker panicked".to_string()),
                };
                if let Some(b) = bad {
                    let f = Failure::new("wide", format!("[{prof}] a wide, shallow document ({}; every construct nested at most 70 deep) is not handled: {b}", names[i]), json!({"text": texts[i], "build": prof}));
                    rep.violation("wide", None, &f);
                    break;
                }
            }
        }
    }

    // ---- combinations
    let n = args.tier.pick(1500usize, 40_000usize);
    let mut sm = SplitMix(args.seed ^ 0xC05);
    let mut specs: Vec<Spec> = vec![];
    // arrays and inline tables alternating (every pairing of the two value constructs)
    for pairs in [20usize, 39, 40, 41, 60, 79, 80, 100, 300] {
        for first_array in [true, false] {
            let mut levels = vec![];
            for _ in 0..pairs {
                if first_array {
                    levels.push(Level::Array);
                    levels.push(Level::Inline { key: 1 });
                } else {
                    levels.push(Level::Inline { key: 1 });
                    levels.push(Level::Array);
                }
            }
            specs.push(Spec { header: 0, aot: false, key: 1, levels });
        }
    }
    // the multiplicative corner cases first
    for k in [2usize, 10, 40, 78, 79] {
        for reps in [5usize, 30, 78, 79] {
            specs.push(Spec { header: 0, aot: false, key: 1, levels: vec![Level::Inline { key: k }; reps] });
            specs.push(Spec { header: k, aot: true, key: k, levels: vec![Level::Inline { key: k }; reps] });
        }
    }
    // additive edge: everything just below the limit at once must be accepted and survive
    for a in [1usize, 20, 40, 78] {
        for aot in [false, true] {
            specs.push(Spec { header: 79, aot, key: a, levels: vec![Level::Array; 79 - a] });
            specs.push(Spec { header: 79, aot, key: a, levels: vec![Level::Inline { key: 1 }; 79 - a] });
            specs.push(Spec { header: 40, aot, key: 1, levels: vec![Level::Inline { key: 2 }; 39] });
        }
    }
    while specs.len() < n {
        let tape: Vec<u32> = (0..64).map(|_| sm.next() as u32).collect();
        let mut t = Tape::new(&tape);
        let s = gen_spec(&mut t);
        if s.text().len() <= 64 * 1024 {
            specs.push(s);
        }
    }
    let texts: Vec<String> = specs.iter().map(|s| s.text()).collect();
    // split over workers
    let w = workers();
    let chunk = (texts.len() + w - 1) / w;
    let mut results: Vec<(String, Vec<Outcome>)> = vec![];
    for prof in ["debug", "release"] {
        let outs: Vec<Vec<Outcome>> = std::thread::scope(|sc| {
            let hs: Vec<_> = texts.chunks(chunk).map(|c| sc.spawn(move || run_batch(prof, c))).collect();
            hs.into_iter().map(|h| h.join().unwrap()).collect()
        });
        results.push((prof.to_string(), outs.into_iter().flatten().collect()));
    }
    let mut reported = 0;
    let mut max_accepted = 0usize;
    for (prof, outs) in &results {
        for (i, o) in outs.iter().enumerate() {
            let s = &specs[i];
            rep.stats.eval();
            if let Outcome::Accept { depth } = o {
                max_accepted = max_accepted.max(*depth);
            }
            rep.stats.class(match o {
                Outcome::Accept { .. } => "accepted",
                Outcome::Reject { recursion: true, .. } => "rejected-recursion",
                Outcome::Reject { .. } => "rejected-other-message",
                Outcome::Died => "died",
                Outcome::Panic => "panic",
            });
            if s.constructs() >= 2 && s.total() >= 60 {
                rep.stats.nontrivial(fnv64(texts[i].as_bytes()));
                rep.stats.class("multi-construct");
            }
            if rep.stats.samples.len() < 5 && i % 97 == 0 {
                rep.stats.samples.push(json!({"spec": format!("header={} aot={} key={} levels={}", s.header, s.aot, s.key, s.levels.len()), "total": s.total(), "bytes": texts[i].len(), "outcome": format!("{o:?}")}));
            }
            if let Err(f) = judge(s, prof, o) {
                if known_f9 && f9_shape(s) && matches!(f.sub.as_str(), "stack" | "depth") {
                    rep.stats.known("F9", F9_WHAT);
                    continue;
                }
                if reported < 3 {
                    // reduce: lower each parameter while the same oracle still fails
                    let red = reduce(s, prof, &f.sub);
                    let o2 = run_batch(prof, &[red.text()]);
                    let f2 = judge(&red, prof, &o2[0]).err().unwrap_or(f);
                    rep.violation("combination", None, &f2);
                    reported += 1;
                }
            }
        }
    }
    rep.extra.insert("max_accepted_depth".into(), json!(max_accepted));
    // committed regressions (texts)
    for p in super::regression_files("C05") {
        let j = super::load_replay(&p);
        if let Some(text) = j["case"]["text"].as_str() {
            for prof in ["debug", "release"] {
                let o = run_batch(prof, &[text.to_string()]);
                rep.stats.eval();
                let bad = match &o[0] {
                    Outcome::Died | Outcome::Panic => true,
                    Outcome::Accept { depth } => *depth > DEPTH_BOUND,
                    _ => false,
                };
                if bad {
                    rep.violation("regression", None, &Failure::new("stack", format!("[{prof}] regression {p}: {:?}", o[0]), json!({"text": text})));
                }
            }
        }
    }
    for c in ["accepted", "rejected-recursion", "multi-construct"] {
        rep.require_class(c);
    }
    rep.finish()
}

/// delta-reduce a failing spec (each step one worker run)
fn reduce(spec: &Spec, prof: &str, sub: &str) -> Spec {
    let fails = |s: &Spec| -> bool {
        let o = run_batch(prof, &[s.text()]);
        judge(s, prof, &o[0]).err().map(|f| f.sub == sub).unwrap_or(false)
    };
    let mut cur = spec.clone();
    let mut budget = 60;
    loop {
        let mut progress = false;
        let mut cands: Vec<Spec> = vec![];
        if cur.header > 0 {
            let mut c = cur.clone();
            c.header = 0;
            cands.push(c);
            let mut c = cur.clone();
            c.header = cur.header / 2;
            cands.push(c);
        }
        if cur.key > 1 {
            let mut c = cur.clone();
            c.key = 1;
            cands.push(c);
            let mut c = cur.clone();
            c.key = (cur.key / 2).max(1);
            cands.push(c);
        }
        if !cur.levels.is_empty() {
            let mut c = cur.clone();
            c.levels.truncate(cur.levels.len() / 2);
            cands.push(c);
            let mut c = cur.clone();
            c.levels.drain(..cur.levels.len() / 2);
            cands.push(c);
            let mut c = cur.clone();
            c.levels.pop();
            cands.push(c);
            let mut c = cur.clone();
            for l in c.levels.iter_mut() {
                if let Level::Inline { key } = l {
                    *key = (*key / 2).max(1);
                }
            }
            cands.push(c);
        }
        for c in cands {
            if budget == 0 {
                return cur;
            }
            budget -= 1;
            if c != cur && fails(&c) {
                cur = c;
                progress = true;
                break;
            }
        }
        if !progress {
            return cur;
        }
    }
}
