//! C10 — string and key quoting is exact for every string in every offered style.

use super::Args;
use crate::engine::*;
use crate::model::Node;
use crate::tape::{fnv64, Tape};
use crate::tomlref::{self, Verdict};
use serde_json::json;
use toml_write::{ToTomlKey, ToTomlValue, TomlKeyBuilder, TomlStringBuilder};

/// one representative per byte class the encoder distinguishes
pub const ALPHABET: [char; 14] = [
    '"', '\'', '\\', '\n', '\r', '\t', ' ', '\0', '\u{1b}', '\u{7f}', '#', 'a', 'é', '😀',
];

fn nontrivial(s: &str) -> bool {
    s.chars().any(|c| matches!(c, '"' | '\'' | '\\' | '\n' | '\r') || c.is_control())
}

fn fail(sub: &str, s: &str, style: &str, tok: &str, msg: String) -> Failure {
    Failure::new(
        sub,
        format!("string {s:?} style {style}: token {tok:?}: {msg}"),
        json!({"string": s, "style": style, "token": tok}),
    )
}

fn doc_single(text: &str, key: &str) -> Result<Node, String> {
    // library
    let doc = text.parse::<toml_edit::DocumentMut>().map_err(|e| format!("library rejects document {text:?}: {e}"))?;
    let t = crate::model::from_doc(&doc);
    if t.entries.len() != 1 || t.entries[0].0 != key {
        return Err(format!("document {text:?} decodes to keys {:?}, expected [{key:?}]", t.entries.iter().map(|e| &e.0).collect::<Vec<_>>()));
    }
    // reference
    match tomlref::decode(text).0 {
        Verdict::Valid(rt) => {
            crate::model::diff_tbl(&t, &rt, crate::model::Cmp::EXACT)
                .map_err(|e| format!("document {text:?}: library and reference trees differ: {e}"))?;
        }
        v => return Err(format!("reference does not accept {text:?}: {}", v.short())),
    }
    Ok(t.entries[0].1.clone())
}

fn expect_str(n: &Node, s: &str, ctx: &str) -> Result<(), String> {
    match n {
        Node::Str(x) if x == s => Ok(()),
        other => Err(format!("{ctx}: decoded {} instead of the original string", crate::model::show(other))),
    }
}

/// every oracle for one string; returns the number of tokens checked
pub fn check_string(s: &str, st: &mut Stats) -> Result<(), Failure> {
    st.eval();
    if nontrivial(s) {
        st.nontrivial(fnv64(s.as_bytes()));
    }
    let b = TomlStringBuilder::new(s);
    let styles: [(&str, Option<String>); 10] = [
        // the plain-string writers (what a caller gets without going through a builder)
        ("str", Some({
            let mut out = String::new();
            let _ = <str as toml_write::WriteTomlValue>::write_toml_value(s, &mut out);
            out
        })),
        ("String", Some(s.to_string().to_toml_value())),
        ("Cow", Some(std::borrow::Cow::Borrowed(s).to_toml_value())),
        ("default", Some(b.as_default().to_toml_value())),
        ("basic", Some(b.as_basic().to_toml_value())),
        ("ml_basic", Some(b.as_ml_basic().to_toml_value())),
        ("literal", b.as_literal().map(|t| t.to_toml_value())),
        ("ml_literal", b.as_ml_literal().map(|t| t.to_toml_value())),
        ("basic_pretty", b.as_basic_pretty().map(|t| t.to_toml_value())),
        ("ml_basic_pretty", b.as_ml_basic_pretty().map(|t| t.to_toml_value())),
    ];
    for (style, tok) in &styles {
        let Some(tok) = tok else {
            st.class(&format!("value.{style}.refused"));
            continue;
        };
        st.class(&format!("value.{style}.offered"));
        let f = |m: String| fail("value", s, style, tok, m);
        // alone
        let v = tok.parse::<toml_edit::Value>().map_err(|e| f(format!("Value::from_str rejects it: {e}")))?;
        expect_str(&crate::model::from_edit_value(&v), s, "Value::from_str").map_err(&f)?;
        match tomlref::decode_value(tok) {
            Ok(n) => expect_str(&n, s, "reference value decoder").map_err(&f)?,
            Err(e) => return Err(f(format!("reference rejects the token: {e}"))),
        }
        // inside a document, an array and an inline table
        let n = doc_single(&format!("k = {tok}\n"), "k").map_err(&f)?;
        expect_str(&n, s, "k = <tok>").map_err(&f)?;
        let n = doc_single(&format!("k = [{tok}, {tok}]\n"), "k").map_err(&f)?;
        match &n {
            Node::Array(a) if a.len() == 2 => {
                expect_str(&a[0], s, "array[0]").map_err(&f)?;
                expect_str(&a[1], s, "array[1]").map_err(&f)?;
            }
            _ => return Err(f("array shape".into())),
        }
        let n = doc_single(&format!("k = {{ a = {tok} }}\n"), "k").map_err(&f)?;
        match &n {
            Node::Table(t) if t.entries.len() == 1 && t.entries[0].0 == "a" => {
                expect_str(&t.entries[0].1, s, "inline table").map_err(&f)?
            }
            _ => return Err(f("inline table shape".into())),
        }
        // without the final newline
        let n = doc_single(&format!("k = {tok}"), "k").map_err(&f)?;
        expect_str(&n, s, "k = <tok> (no final newline)").map_err(&f)?;
    }
    // the construction API prints the default token
    let dv = toml_edit::Value::from(s).to_string();
    if Some(&dv) != styles[0].1.as_ref() {
        return Err(fail("value", s, "default", &dv, format!("Value::from(s).to_string() differs from as_default {:?}", styles[0].1)));
    }
    let tv = toml::Value::String(s.to_string()).to_string();
    let v = tv.parse::<toml_edit::Value>().map_err(|e| fail("value", s, "toml::Value", &tv, format!("rejected: {e}")))?;
    expect_str(&crate::model::from_edit_value(&v), s, "toml::Value Display").map_err(|m| fail("value", s, "toml::Value", &tv, m))?;

    // keys
    let kb = TomlKeyBuilder::new(s);
    let kstyles: [(&str, Option<String>); 8] = [
        ("str", Some({
            let mut out = String::new();
            let _ = <str as toml_write::WriteTomlKey>::write_toml_key(s, &mut out);
            out
        })),
        ("String", Some(s.to_string().to_toml_key())),
        ("Cow", Some(std::borrow::Cow::Borrowed(s).to_toml_key())),
        ("default", Some(kb.as_default().to_toml_key())),
        ("basic", Some(kb.as_basic().to_toml_key())),
        ("unquoted", kb.as_unquoted().map(|t| t.to_toml_key())),
        ("literal", kb.as_literal().map(|t| t.to_toml_key())),
        ("basic_pretty", kb.as_basic_pretty().map(|t| t.to_toml_key())),
    ];
    for (style, tok) in &kstyles {
        let Some(tok) = tok else {
            st.class(&format!("key.{style}.refused"));
            continue;
        };
        st.class(&format!("key.{style}.offered"));
        let f = |m: String| fail("key", s, style, tok, m);
        let k = tok.parse::<toml_edit::Key>().map_err(|e| f(format!("Key::from_str rejects it: {e}")))?;
        if k.get() != s {
            return Err(f(format!("Key::from_str decodes {:?}", k.get())));
        }
        let ks = toml_edit::Key::parse(tok).map_err(|e| f(format!("Key::parse rejects it: {e}")))?;
        if ks.len() != 1 || ks[0].get() != s {
            return Err(f(format!("Key::parse decodes {:?}", ks.iter().map(|k| k.get().to_string()).collect::<Vec<_>>())));
        }
        match tomlref::decode_key(tok) {
            Ok(p) if p.len() == 1 && p[0] == s => {}
            Ok(p) => return Err(f(format!("reference decodes key path {p:?}"))),
            Err(e) => return Err(f(format!("reference rejects the key token: {e}"))),
        }
        let n = doc_single(&format!("{tok} = 1\n"), s).map_err(&f)?;
        if !matches!(n, Node::Int(1)) {
            return Err(f("`<tok> = 1` value".into()));
        }
        let n = doc_single(&format!("[{tok}]\n"), s).map_err(&f)?;
        if !matches!(&n, Node::Table(t) if t.entries.is_empty()) {
            return Err(f("`[<tok>]` shape".into()));
        }
        let n = doc_single(&format!("[[{tok}]]"), s).map_err(&f)?;
        if !matches!(&n, Node::Aot(t) if t.len() == 1) {
            return Err(f("`[[<tok>]]` shape".into()));
        }
        let n = doc_single(&format!("k = {{ {tok} = 1 }}\n"), "k").map_err(&f)?;
        match &n {
            Node::Table(t) if t.entries.len() == 1 && t.entries[0].0 == s => {}
            _ => return Err(f("inline table key".into())),
        }
        // dotted position
        let n = doc_single(&format!("k.{tok}.z = 1\n"), "k").map_err(&f)?;
        match &n {
            Node::Table(t) if t.entries.len() == 1 && t.entries[0].0 == s => {}
            _ => return Err(f("dotted key position".into())),
        }
    }
    let dk = toml_edit::Key::new(s).to_string();
    if Some(&dk) != kstyles[0].1.as_ref() {
        return Err(fail("key", s, "default", &dk, format!("Key::new(s).to_string() differs from as_default {:?}", kstyles[0].1)));
    }
    st.sample(|| json!({"string": s, "value_tokens": styles.iter().map(|(n, t)| json!({*n: t})).collect::<Vec<_>>(), "key_tokens": kstyles.iter().map(|(n, t)| json!({*n: t})).collect::<Vec<_>>()}));
    Ok(())
}

fn nth_string(mut i: u64, len: usize) -> String {
    let mut s = String::new();
    for _ in 0..len {
        s.push(ALPHABET[(i % 14) as usize]);
        i /= 14;
    }
    s
}

/// random long strings with runs of quotes / apostrophes and leading / trailing newlines
fn gen_random(t: &mut Tape) -> String {
    let mut s = String::new();
    let pieces = t.small(40);
    const EXTRA: [char; 12] = ['\u{8}', '\u{c}', '\u{feff}', '\u{85}', '\u{2028}', 'Z', '0', '-', '_', '.', '=', '\u{10ffff}'];
    for _ in 0..=pieces {
        match t.weighted(&[4, 3, 3, 2, 2, 2, 2]) {
            0 => s.push(ALPHABET[t.below(14)]),
            1 => {
                for _ in 0..=t.small(7) {
                    s.push('"');
                }
            }
            2 => {
                for _ in 0..=t.small(7) {
                    s.push('\'');
                }
            }
            3 => s.push('\n'),
            4 => s.push(*t.pick(&EXTRA)),
            5 => {
                for _ in 0..=t.small(20) {
                    s.push(*t.pick(&['a', 'b', ' ', 'é', '1']));
                }
            }
            _ => {
                if let Some(c) = char::from_u32(t.below(0x11_0000) as u32) {
                    s.push(c)
                }
            }
        }
    }
    s
}

fn prop_random(t: &mut Tape, st: &mut Stats) -> Result<(), Failure> {
    let s = gen_random(t);
    st.class("random");
    if s.len() > 40 {
        st.class("random.long");
    }
    check_string(&s, st)
}

pub fn run(args: Args) -> ! {
    let mut rep = Report::new("C10", args.tier, args.seed);
    rep.rule = "exhaustive: every string of length <= L over a 14-class alphabet (\" ' \\ LF CR TAB space NUL ESC DEL # a é 😀), L=5 quick / 6 thorough, each pushed through all 7 value styles and 5 key styles of the builders and the plain str / String / Cow writers (alone, in `k = tok`, array, inline table, header, dotted position; library and reference decoder); plus every code point below U+3000, the plane / encoding boundaries and a stride of 251 through the rest (all 1,112,064 in the thorough tier) alone and in five small contexts, plus runs of each alphabet character of 30 lengths up to 1025 around the powers of two (alone, with a prefix, a suffix, a newline or quotes around), plus proptest-driven random long strings with quote runs. non-trivial = contains a quote, apostrophe, backslash, newline or control character; distinct by string".into();
    rep.assumptions = vec![
        "the reference decoder (tomlref), calibrated on the 562 toml-test 1.0.0 fixtures".into(),
    ];
    if let Some(p) = &args.replay {
        let j = super::load_replay(p);
        let s = j["case"]["string"].as_str().unwrap_or_else(|| fault("replay: no case.string")).to_string();
        let mut st = Stats::new();
        if let Err(f) = guard(|| check_string(&s, &mut st)) {
            rep.violation("replay", None, &f);
        }
        rep.stats.merge(st);
        rep.stats.nontrivial.insert(1);
        rep.stats.nontrivial.insert(2);
        rep.finish();
    }
    for p in super::regression_files("C10") {
        let j = super::load_replay(&p);
        if let Some(s) = j["case"]["string"].as_str() {
            let mut st = Stats::new();
            if let Err(f) = guard(|| check_string(s, &mut st)) {
                rep.violation("regression", None, &f);
            }
            rep.stats.merge(st);
        }
    }
    let maxlen = args.tier.pick(5usize, 6usize);
    let mut total = 0u64;
    for len in 0..=maxlen {
        let n = 14u64.pow(len as u32);
        total += n;
        let (st, fail) = par_enumerate(n, workers(), |i, st| {
            let s = nth_string(i, len);
            st.class(&format!("exhaustive.len{len}"));
            check_string(&s, st)
        });
        rep.stats.merge(st);
        if let Some((_, f)) = fail {
            rep.violation("exhaustive", None, &f);
            break;
        }
    }
    // every character on its own: the alphabet has one representative per class of the grammar, and
    // a writer can get a single member of a class wrong (every code point below U+3000, the
    // boundaries of the planes and encodings, and a stride through the rest; all of them in the
    // thorough tier)
    if rep.violations.is_empty() {
        let all = args.tier == Tier::Thorough;
        let mut cps: Vec<char> = vec![];
        for cp in 0u32..=0x10FFFF {
            let near_edge = [0x7Fu32, 0x80, 0x7FF, 0x800, 0xD7FF, 0xE000, 0xFEFF, 0xFFFD, 0xFFFE, 0xFFFF, 0x10000, 0x1FFFF, 0x10FFFF].iter().any(|e| cp.abs_diff(*e) <= 2);
            if all || cp < 0x3000 || near_edge || cp % 251 == 0 {
                if let Some(c) = char::from_u32(cp) {
                    cps.push(c);
                }
            }
        }
        let (st, fail) = par_enumerate(cps.len() as u64, workers(), |i, st| {
            let c = cps[i as usize];
            st.class("single-code-point");
            for s in [c.to_string(), format!("a{c}"), format!("{c}a"), format!("{c}{c}"), format!("\"{c}'"), format!("{c}\n{c}")] {
                check_string(&s, st)?;
            }
            Ok(())
        });
        rep.stats.merge(st);
        if let Some((_, f)) = fail {
            rep.violation("code-points", None, &f);
        }
    }
    // long runs of one character, at the lengths where a narrow counter would wrap or saturate
    if rep.violations.is_empty() {
        const LENS: [usize; 30] = [3, 4, 5, 6, 7, 8, 9, 15, 16, 17, 31, 32, 33, 63, 64, 65, 127, 128, 129, 254, 255, 256, 257, 258, 511, 512, 513, 1023, 1024, 1025];
        let mut cases: Vec<String> = vec![];
        for c in ALPHABET {
            for n in LENS {
                let run: String = std::iter::repeat(c).take(n).collect();
                cases.push(run.clone());
                cases.push(format!("x{run}"));
                cases.push(format!("{run}x"));
                cases.push(format!("{run}\n{run}"));
                cases.push(format!("\"{run}'"));
            }
        }
        let (st, fail) = par_enumerate(cases.len() as u64, workers(), |i, st| {
            st.class("runs");
            check_string(&cases[i as usize], st)
        });
        rep.stats.merge(st);
        if let Some((_, f)) = fail {
            rep.violation("runs", None, &f);
        }
    }
    rep.exhaustive = Some(true);
    rep.extra.insert("exhaustive_scope".into(), json!(format!("all {total} strings of length <= {maxlen} over the 14-class alphabet")));
    if rep.violations.is_empty() {
        let cases = args.tier.pick(100_000, 2_000_000);
        let run = run_tape("C10.random", &prop_random, 200, cases, args.seed, workers());
        rep.absorb("random", run);
    }
    for c in ["value.literal.offered", "value.ml_literal.offered", "value.basic_pretty.offered", "value.ml_basic_pretty.offered", "value.literal.refused", "value.ml_literal.refused", "key.unquoted.offered", "key.literal.offered", "key.literal.refused", "random.long", "runs", "single-code-point"] {
        rep.require_class(c);
    }
    rep.finish()
}
