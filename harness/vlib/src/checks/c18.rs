//! C18 — cargo feature choices change performance or ordering only, never results.

use super::Args;
use crate::engine::*;
use crate::gen::{gen_doc, GenCfg};
use crate::model::{Node, Tbl, TblKind};
use crate::mutate::mutate;
use crate::scalars::*;
use crate::tape::{fnv64, SplitMix, Tape};
use serde_json::json;
use std::collections::BTreeMap;

fn hex(s: &str) -> String {
    s.bytes().map(|b| format!("{b:02x}")).collect()
}
fn unhex(s: &str) -> String {
    let b: Vec<u8> = (0..s.len() / 2).map(|i| u8::from_str_radix(&s[2 * i..2 * i + 2], 16).unwrap_or(b'?')).collect();
    String::from_utf8_lossy(&b).to_string()
}

/// readable form of a battery output field (`ok <hex>`, `differs <hex>`, `<hex>`, `same`, `err`)
fn show(v: &str) -> String {
    v.split(' ').map(|w| if w.len() >= 2 && w.len() % 2 == 0 && w.bytes().all(|b| b.is_ascii_hexdigit()) { unhex(w) } else { w.to_string() }).collect::<Vec<_>>().join(" ")
}

/// the canonical dump the battery prints, computed from the model (toml_edit flavour: in order)
fn dump(n: &Node, sorted: bool, out: &mut String) {
    match n {
        Node::Str(s) => out.push_str(&format!("s{s:?}")),
        Node::Int(i) => out.push_str(&format!("i{i}")),
        Node::Float(b) => out.push_str(&format!("f{:016x}", if f64::from_bits(*b).is_nan() { 0x7ff8_0000_0000_0000 } else { *b })),
        Node::Bool(b) => out.push_str(&format!("b{}", *b as u8)),
        Node::Dt(d) => out.push_str(&format!("d{}", d.to_lib())),
        Node::Array(a) => {
            out.push('[');
            for e in a {
                dump(e, sorted, out);
                out.push(',');
            }
            out.push(']');
        }
        Node::Aot(a) => {
            out.push('[');
            for t in a {
                dump_tbl(t, sorted, out);
                out.push(',');
            }
            out.push(']');
        }
        Node::Table(t) => dump_tbl(t, sorted, out),
    }
}
fn dump_tbl(t: &Tbl, sorted: bool, out: &mut String) {
    out.push('{');
    let mut es: Vec<&(String, Node)> = t.entries.iter().collect();
    if sorted {
        es.sort_by(|a, b| a.0.cmp(&b.0));
    }
    for (k, v) in es {
        out.push_str(&format!("{k:?}:"));
        dump(v, sorted, out);
        out.push(',');
    }
    out.push('}');
}

fn spec(n: &Node, out: &mut String) {
    match n {
        Node::Str(s) => out.push_str(&format!("s{};", hex(s))),
        Node::Int(i) => out.push_str(&format!("i{i};")),
        Node::Float(b) => out.push_str(&format!("f{b:x};")),
        Node::Bool(b) => out.push_str(&format!("b{};", *b as u8)),
        Node::Dt(d) => out.push_str(&format!("d{};", hex(&d.canonical()))),
        Node::Array(a) => {
            out.push_str("a[");
            for e in a {
                spec(e, out);
            }
            out.push(']');
        }
        Node::Aot(a) => {
            out.push_str("A[");
            for t in a {
                spec_tbl(t, 'T', out);
            }
            out.push(']');
        }
        Node::Table(t) => spec_tbl(t, if t.kind == TblKind::Inline { 't' } else { 'T' }, out),
    }
}
fn spec_tbl(t: &Tbl, tag: char, out: &mut String) {
    out.push(tag);
    out.push('{');
    for (k, v) in &t.entries {
        out.push_str(&format!("k{}=", hex(k)));
        spec(v, out);
    }
    out.push('}');
}

// tree generator for the display side (std tables, arrays of tables, inline tables, arrays)
fn g_scalar(t: &mut Tape) -> Node {
    match t.weighted(&[4, 4, 2, 3, 2]) {
        0 => Node::Int(gen_int(t)),
        1 => Node::Str(gen_string(t)),
        2 => Node::Bool(t.chance(1, 2)),
        3 => Node::float(gen_float(t)),
        _ => Node::Dt(gen_dt(t)),
    }
}
fn g_value(t: &mut Tape, d: usize) -> Node {
    if d >= 4 {
        return g_scalar(t);
    }
    match t.weighted(&[7, 2, 2]) {
        0 => g_scalar(t),
        1 => Node::Array((0..t.small(4)).map(|_| g_value(t, d + 1)).collect()),
        _ => {
            let mut tb = Tbl::new(TblKind::Inline);
            for _ in 0..t.small(3) {
                let k = g_key(t);
                if tb.get(&k).is_none() {
                    let v = g_value(t, d + 1);
                    tb.entries.push((k, v));
                }
            }
            Node::Table(tb)
        }
    }
}
fn g_key(t: &mut Tape) -> String {
    // keys around kstring's 15-byte inline capacity, repeated keys, odd keys
    match t.below(4) {
        0 => t.pick(&["a", "b", "c", "k"]).to_string(),
        1 => t.pick(&["exactly-15-bytes", "sixteen-bytes-xx", "a-key-that-is-much-longer-than-the-inline-capacity", "fifteen-bytes-x"]).to_string(),
        _ => {
            let k = gen_key(t);
            if k.starts_with("$__") {
                "k".into()
            } else {
                k
            }
        }
    }
}
fn g_table(t: &mut Tape, d: usize) -> Tbl {
    let mut tb = Tbl::new(TblKind::Std);
    for _ in 0..t.small(5) {
        let k = g_key(t);
        if tb.get(&k).is_some() {
            continue;
        }
        let v = if d >= 3 {
            g_scalar(t)
        } else {
            match t.weighted(&[7, 2, 1]) {
                0 => g_value(t, d + 1),
                1 => Node::Table(g_table(t, d + 1)),
                _ => Node::Aot((0..1 + t.small(2)).map(|_| g_table(t, d + 1)).collect()),
            }
        };
        tb.entries.push((k, v));
    }
    tb
}

#[derive(Clone)]
struct Cfg {
    name: &'static str,
    features: &'static str,
    quick: bool,
}

const CONFIGS: [Cfg; 14] = [
    Cfg { name: "default", features: "te_parse,te_display,t_parse,t_display", quick: true },
    Cfg { name: "perf", features: "te_parse,te_display,te_perf,t_parse,t_display", quick: true },
    Cfg { name: "preserve_order", features: "te_parse,te_display,t_parse,t_display,t_po", quick: true },
    Cfg { name: "edit-parse-only", features: "te_parse", quick: true },
    Cfg { name: "edit-display-only", features: "te_display", quick: true },
    Cfg { name: "all-unbounded", features: "te_parse,te_display,te_perf,te_unbounded,t_parse,t_display,t_po", quick: true },
    Cfg { name: "toml-parse-only", features: "t_parse", quick: false },
    Cfg { name: "toml-display-only", features: "t_display", quick: true },
    Cfg { name: "edit-parse-serde", features: "te_parse,te_serde", quick: false },
    Cfg { name: "edit-display-serde", features: "te_display,te_serde", quick: false },
    Cfg { name: "edit-parse-perf", features: "te_parse,te_perf", quick: false },
    Cfg { name: "edit-display-perf", features: "te_display,te_perf", quick: false },
    Cfg { name: "toml-parse-po", features: "t_parse,t_po", quick: false },
    Cfg { name: "toml-display-po-perf", features: "t_display,t_po,te_perf", quick: false },
];

pub fn run(args: Args) -> ! {
    let mut rep = Report::new("C18", args.tier, args.seed);
    rep.rule = "a battery crate is compiled against /repo once per feature configuration (7 quick / 14 thorough: default, perf, preserve_order, toml_edit parse-only / display-only, serde on/off, everything + unbounded, toml parse-only / display-only, with perf and preserve_order crossed in), each in its own target directory; every configuration must build. The battery is a seeded list of generated documents (valid in every lexical variant, mutants, long and repeated keys, over-limit nesting) of generated structures built through the API, of call histories on toml::Table, and of edit histories (new tables, pushed array-of-tables elements, new values, sort_values, removals) on larger parsed documents whose header order differs from their tree order. Per item and capability the binary prints a canonical dump (decoded tree; the span of every key and item of a parsed document; printed text; ...); the outcome and message() of conversions of a built toml::Value into types it does not fit; ...); the harness requires: dumps equal across all configurations that have the capability and, for by-construction documents, equal to the harness' own expectation; toml's key order is insertion order under preserve_order and sorted without; over-limit nesting flips from reject to accept under unbounded only. non-trivial = the item has a key longer than 15 bytes or a repeated key (perf path) or >= 2 keys out of sorted order (preserve_order path); distinct by item".into();
    rep.assumptions = vec!["configurations are built with the repository's lock file offline; the battery program shares no code with the harness".into()];
    let n_items = args.tier.pick(2000usize, 8000usize);
    // ---- battery (seeded, feature independent)
    let mut sm = SplitMix(args.seed ^ 0xC18);
    let mut lines: Vec<String> = vec![];
    enum Expect {
        Doc { text: String, expected: Option<Tbl>, ambiguous: bool, overlimit: bool },
        Tree(Tbl),
        /// a call history on toml::Table with the key order expected under preserve_order and without
        Ops { insertion: String, sorted: String },
        /// an edit history on a parsed toml_edit document (printed text, tree and read-back verdict compared
        /// across configurations)
        Edit { text: String, sections: usize },
    }
    let mut expects: Vec<Expect> = vec![];
    let fx = crate::corpus::load();
    for i in 0..n_items {
        let tape: Vec<u32> = (0..3000).map(|_| sm.next() as u32).collect();
        let mut t = Tape::new(&tape);
        match i % 10 {
            0..=3 => {
                let mut cfg = GenCfg::default();
                cfg.f11_safe = false;
                cfg.adjacent = t.chance(1, 2);
                cfg.budget = 6 + t.below(40);
                cfg.allow_bom = false;
                let r = gen_doc(&mut t, &cfg);
                let amb = any_ambiguous(&r.expected);
                lines.push(format!("DOC {}", hex(&r.text)));
                expects.push(Expect::Doc { text: r.text, expected: Some(r.expected), ambiguous: amb, overlimit: false });
            }
            4 => {
                // mutants: verdict and tree only compared across configurations
                let mut cfg = GenCfg::default();
                cfg.budget = 6 + t.below(20);
                let r = gen_doc(&mut t, &cfg);
                let other = t.pick(&fx).bytes.clone();
                let (m, _) = mutate(r.text.as_bytes(), &other, &mut t);
                let text = String::from_utf8_lossy(&m).to_string();
                if text.contains("$__") {
                    lines.push("DOC ".to_string());
                    expects.push(Expect::Doc { text: String::new(), expected: None, ambiguous: true, overlimit: false });
                } else {
                    lines.push(format!("DOC {}", hex(&text)));
                    expects.push(Expect::Doc { text, expected: None, ambiguous: true, overlimit: false });
                }
            }
            6 => {
                // a call history on toml::Table (insert / remove / entry-remove over a small key pool)
                let keys = ["b", "a", "d", "c", "e", "exactly-15-bytes", "sixteen-bytes-xx"];
                let n = 3 + t.below(12);
                let mut line = String::from("OPS ");
                let mut model: Vec<(String, i64)> = vec![];
                for j in 0..n {
                    let k = t.pick(&keys).to_string();
                    let val = j as i64 + 1;
                    match t.weighted(&[5, 2, 2]) {
                        0 => {
                            line.push_str(&format!("i{};", hex(&k)));
                            if let Some(e) = model.iter_mut().find(|e| e.0 == k) {
                                e.1 = val;
                            } else {
                                model.push((k, val));
                            }
                        }
                        1 => {
                            line.push_str(&format!("r{};", hex(&k)));
                            model.retain(|e| e.0 != k);
                        }
                        _ => {
                            line.push_str(&format!("e{};", hex(&k)));
                            model.retain(|e| e.0 != k);
                        }
                    }
                }
                let fmt = |m: &Vec<(String, i64)>| m.iter().map(|(k, v)| format!("{k:?}={v}")).collect::<Vec<_>>().join(",");
                let insertion = fmt(&model);
                model.sort_by(|a, b| a.0.cmp(&b.0));
                lines.push(line);
                expects.push(Expect::Ops { insertion, sorted: fmt(&model) });
            }
            7 => {
                // an edit history on a larger parsed document whose header order differs from its tree order
                let mut cfg = GenCfg::default();
                cfg.f11_safe = true;
                cfg.allow_bom = false;
                cfg.reorder = true;
                cfg.sub_before_super = true;
                cfg.budget = 40 + t.below(120);
                if t.chance(1, 2) {
                    // dozens of tables: beyond the small-slice thresholds of the sorting code
                    cfg.many_sections = true;
                    cfg.budget = 250 + t.below(250);
                }
                let r = gen_doc(&mut t, &cfg);
                let mut tpaths: Vec<Vec<String>> = vec![vec![]];
                let mut apaths: Vec<Vec<String>> = vec![];
                fn walk(tb: &Tbl, base: &Vec<String>, tp: &mut Vec<Vec<String>>, ap: &mut Vec<Vec<String>>) {
                    for (k, n) in &tb.entries {
                        let mut p = base.clone();
                        p.push(k.clone());
                        match n {
                            Node::Table(s) if s.kind != TblKind::Inline => {
                                tp.push(p.clone());
                                walk(s, &p, tp, ap);
                            }
                            Node::Aot(a) => {
                                ap.push(p.clone());
                                if let Some(l) = a.last() {
                                    tp.push(p.clone());
                                    walk(l, &p, tp, ap);
                                }
                            }
                            _ => {}
                        }
                    }
                }
                walk(&r.expected, &vec![], &mut tpaths, &mut apaths);
                let enc = |p: &Vec<String>| p.iter().map(|k| if k.is_empty() { "00".to_string() } else { hex(k) }).collect::<Vec<_>>().join(".");
                // (keys are never empty after hex unless the key is the empty string: those paths are skipped)
                tpaths.retain(|p| p.iter().all(|k| !k.is_empty()));
                apaths.retain(|p| p.iter().all(|k| !k.is_empty()));
                let mut ops = String::new();
                for _ in 0..3 + t.below(14) {
                    match t.weighted(&[4, 4, 2, 1, 2]) {
                        4 => ops.push_str(&format!("S{};", enc(t.pick(&tpaths)))),
                        0 => ops.push_str(&format!("T{};", enc(t.pick(&tpaths)))),
                        1 => {
                            if !apaths.is_empty() && t.chance(3, 4) {
                                ops.push_str(&format!("A{};", enc(t.pick(&apaths))));
                            } else {
                                let mut p = t.pick(&tpaths).clone();
                                p.push("fresh".into());
                                ops.push_str(&format!("A{};", enc(&p)));
                            }
                        }
                        2 => ops.push_str(&format!("V{};", enc(t.pick(&tpaths)))),
                        _ => {
                            let p = t.pick(&tpaths);
                            if !p.is_empty() {
                                ops.push_str(&format!("X{};", enc(p)));
                            }
                        }
                    }
                }
                let sections = r.map.sections.len();
                lines.push(format!("EDIT {} {ops}", hex(&r.text)));
                expects.push(Expect::Edit { text: r.text, sections });
            }
            5 => {
                // nesting beyond the limit: accepted under `unbounded` only
                let d = 90 + t.below(60);
                let text = match t.below(3) {
                    0 => format!("k = {}1{}\n", "[".repeat(d), "]".repeat(d)),
                    1 => format!("k = {}1{}\n", "{a=".repeat(d), "}".repeat(d)),
                    _ => format!("{} = 1\n", vec!["k"; d].join(".")),
                };
                lines.push(format!("DOC {}", hex(&text)));
                expects.push(Expect::Doc { text, expected: None, ambiguous: true, overlimit: true });
            }
            _ => {
                let tree = g_table(&mut t, 0);
                let mut s = String::new();
                spec_tbl(&tree, 'T', &mut s);
                lines.push(format!("TREE {s}"));
                expects.push(Expect::Tree(tree));
            }
        }
    }
    let dir = format!("{}/harness/target-c18", VERIF_DIR);
    let _ = std::fs::create_dir_all(&dir);
    let battery = format!("{dir}/battery-{}.txt", args.seed);
    std::fs::write(&battery, lines.join("\n")).unwrap_or_else(|e| fault(&format!("write battery: {e}")));

    // ---- build every configuration (4 at a time) and run it
    let configs: Vec<&Cfg> = CONFIGS.iter().filter(|c| c.quick || args.tier == Tier::Thorough).collect();
    let bat_dir = format!("{}/harness/c18bat", VERIF_DIR);
    let _ = std::fs::copy(format!("{}/harness/Cargo.lock", VERIF_DIR), format!("{bat_dir}/Cargo.lock"));
    let mut outputs: BTreeMap<&str, Result<String, String>> = BTreeMap::new();
    for chunk in configs.chunks(4) {
        let res: Vec<(&str, Result<String, String>)> = std::thread::scope(|sc| {
            let hs: Vec<_> = chunk
                .iter()
                .map(|c| {
                    let battery = battery.clone();
                    let dir = dir.clone();
                    let bat_dir = bat_dir.clone();
                    sc.spawn(move || {
                        let tdir = format!("{dir}/{}", c.name);
                        let b = std::process::Command::new("cargo")
                            .args(["build", "--release", "--offline", "--no-default-features", "--features", c.features, "--target-dir", &tdir, "-j", "4"])
                            .current_dir(&bat_dir)
                            .env("CARGO_NET_OFFLINE", "true")
                            .output();
                        let b = match b {
                            Ok(b) => b,
                            Err(e) => return (c.name, Err(format!("cannot run cargo: {e}"))),
                        };
                        if !b.status.success() {
                            let err = String::from_utf8_lossy(&b.stderr);
                            let tail: String = err.lines().filter(|l| l.starts_with("error")).take(5).collect::<Vec<_>>().join("\n");
                            return (c.name, Err(format!("BUILD FAILED: {tail}")));
                        }
                        let r = std::process::Command::new(format!("{tdir}/release/c18bat")).arg(&battery).output();
                        match r {
                            Ok(o) if o.status.success() => (c.name, Ok(String::from_utf8_lossy(&o.stdout).to_string())),
                            Ok(o) => (c.name, Err(format!("battery run failed ({}): {}", o.status, String::from_utf8_lossy(&o.stderr).chars().take(400).collect::<String>()))),
                            Err(e) => (c.name, Err(format!("cannot run battery: {e}"))),
                        }
                    })
                })
                .collect();
            hs.into_iter().map(|h| h.join().unwrap()).collect()
        });
        for (n, r) in res {
            outputs.insert(n, r);
        }
    }
    // ---- compare
    let mut tables: BTreeMap<&str, BTreeMap<(usize, String), String>> = BTreeMap::new();
    for c in &configs {
        match &outputs[c.name] {
            Err(e) if e.starts_with("BUILD FAILED") => {
                let f = Failure::new("build", format!("configuration `{}` (features {}) does not build: {e}", c.name, c.features), json!({"config": c.name, "features": c.features}));
                rep.violation("build", None, &f);
            }
            Err(e) if e.starts_with("battery run failed") => {
                let f = Failure::new("crash", format!("configuration `{}` (features {}) crashes on the battery: {e}", c.name, c.features), json!({"config": c.name, "features": c.features}));
                rep.violation("crash", None, &f);
            }
            Err(e) => fault(&format!("configuration {}: {e}", c.name)),
            Ok(out) => {
                let mut m = BTreeMap::new();
                for l in out.lines() {
                    let mut it = l.splitn(3, ' ');
                    let i: usize = it.next().and_then(|s| s.parse().ok()).unwrap_or(usize::MAX);
                    let tag = it.next().unwrap_or("").to_string();
                    m.insert((i, tag), it.next().unwrap_or("").to_string());
                }
                rep.stats.class_n(&format!("config.{}", c.name), m.len() as u64);
                tables.insert(c.name, m);
            }
        }
    }
    let is_po = |name: &str| CONFIGS.iter().find(|c| c.name == name).map(|c| c.features.contains("t_po")).unwrap_or(false);
    let is_unbounded = |name: &str| CONFIGS.iter().find(|c| c.name == name).map(|c| c.features.contains("te_unbounded")).unwrap_or(false);
    let mut reported = 0;
    for (i, e) in expects.iter().enumerate() {
        rep.stats.eval();
        let nontrivial = match e {
            Expect::Doc { text, .. } => text.len() > 0 && (text.contains("long") || text.contains("bytes") || text.matches("a").count() > 3),
            Expect::Tree(t) => t.entries.len() >= 2,
            Expect::Ops { insertion, sorted } => insertion != sorted,
            Expect::Edit { sections, .. } => *sections > 20,
        };
        if nontrivial {
            rep.stats.nontrivial(fnv64(lines[i].as_bytes()));
        }
        let mut fail = |rep: &mut Report, msg: String| {
            if reported < 5 {
                let f = Failure::new("digest", msg, json!({"item": i, "line": lines[i].chars().take(2000).collect::<String>()}));
                rep.violation("battery", None, &f);
            } else {
                rep.violations.push(String::new());
            }
            reported += 1;
        };
        // tags compared for equality across configurations of the same class
        for tag in ["P", "S", "R", "TP", "D", "DD", "B", "TD", "TB", "TO", "TR", "TM", "TQ", "TE", "E", "EB", "EP"] {
            let mut groups: BTreeMap<String, Vec<(&str, &String)>> = BTreeMap::new();
            for (name, m) in &tables {
                if let Some(v) = m.get(&(i, tag.to_string())) {
                    // documented exceptions define the comparison class
                    let class = match tag {
                        "TO" | "TR" | "TD" | "TB" | "TM" | "TE" => format!("po={}", is_po(name)),
                        "P" | "S" | "TP" | "R" if matches!(e, Expect::Doc { overlimit: true, .. }) => format!("unbounded={}", is_unbounded(name)),
                        _ => String::new(),
                    };
                    groups.entry(class).or_default().push((name, v));
                }
            }
            for (class, vs) in &groups {
                if let Some((n0, v0)) = vs.first() {
                    for (n, v) in &vs[1..] {
                        if v != v0 {
                            fail(&mut rep, format!("item {i} tag {tag} [{class}]: configuration `{n0}` gives {:?} but `{n}` gives {:?}\nitem: {}", show(v0).chars().take(300).collect::<String>(), show(v).chars().take(300).collect::<String>(), match e { Expect::Doc { text, .. } => text.chars().take(400).collect::<String>(), _ => lines[i].chars().take(200).collect() }));
                            break;
                        }
                    }
                }
            }
        }
        // by-construction expectations
        match e {
            Expect::Doc { expected: Some(exp), ambiguous, text, .. } => {
                let mut want = String::new();
                dump_tbl(exp, false, &mut want);
                let mut want_sorted = String::new();
                dump_tbl(exp, true, &mut want_sorted);
                for (name, m) in &tables {
                    if let Some(v) = m.get(&(i, "P".to_string())) {
                        if !*ambiguous && *v != format!("ok {}", hex(&want)) {
                            fail(&mut rep, format!("item {i}: configuration `{name}` decodes a generated document differently from its by-construction tree\n{text}\ngot  {}\nwant {want}", unhex(v.trim_start_matches("ok "))));
                        }
                    }
                    if let Some(v) = m.get(&(i, "TP".to_string())) {
                        if *v != format!("ok {}", hex(&want_sorted)) {
                            fail(&mut rep, format!("item {i}: configuration `{name}`: toml::Value differs from the by-construction tree\n{text}"));
                        }
                    }
                    if let Some(v) = m.get(&(i, "TO".to_string())) {
                        // the documented difference: insertion order under preserve_order, sorted without
                        let w = if is_po(name) { &want } else { &want_sorted };
                        if !(*ambiguous && is_po(name)) && *v != hex(w) {
                            fail(&mut rep, format!("item {i}: configuration `{name}`: toml::Table key order is not {} order\n{text}\ngot {}", if is_po(name) { "insertion" } else { "sorted" }, unhex(v)));
                        }
                        rep.stats.class(if is_po(name) { "order.insertion-checked" } else { "order.sorted-checked" });
                    }
                }
            }
            Expect::Doc { overlimit: true, text, .. } => {
                for (name, m) in &tables {
                    if let Some(v) = m.get(&(i, "P".to_string())) {
                        let accepted = v.starts_with("ok");
                        if accepted != is_unbounded(name) {
                            fail(&mut rep, format!("item {i}: over-limit nesting is {} by configuration `{name}` (unbounded={})\n{}", if accepted { "accepted" } else { "rejected" }, is_unbounded(name), text.chars().take(120).collect::<String>()));
                        }
                        rep.stats.class(if accepted { "overlimit.accepted-unbounded" } else { "overlimit.rejected-bounded" });
                    }
                }
            }
            Expect::Ops { insertion, sorted } => {
                for (name, m) in &tables {
                    if let Some(v) = m.get(&(i, "TM".to_string())) {
                        let w = if is_po(name) { insertion } else { sorted };
                        if *v != hex(w) {
                            fail(&mut rep, format!("item {i}: configuration `{name}`: after the call history {} toml::Table iterates as [{}], expected {} order [{w}]", lines[i], unhex(v), if is_po(name) { "insertion" } else { "sorted" }));
                        }
                        rep.stats.class("map-history-checked");
                    }
                }
            }
            Expect::Edit { sections, .. } => {
                for (name, m) in &tables {
                    // (whether the text reads back as the edited tree is C08's business — F18 / F21 are known
                    // there; here the read-back verdict only has to be the same in every configuration)
                    if m.get(&(i, "EP".to_string())).is_some() {
                        rep.stats.class("edit-history-checked");
                        if *sections > 20 {
                            rep.stats.class("edit-history.sections>20");
                        }
                    }
                }
            }
            Expect::Tree(_) if tables.iter().any(|(_, m)| m.get(&(i, "TQ".to_string())).map(|v| v == "false").unwrap_or(false)) => {
                let (name, _) = tables.iter().find(|(_, m)| m.get(&(i, "TQ".to_string())).map(|v| v == "false").unwrap_or(false)).unwrap();
                fail(&mut rep, format!("item {i}: configuration `{name}`: two toml::Value trees with the same entries, filled in opposite orders, do not compare equal\n{}", lines[i].chars().take(300).collect::<String>()));
            }
            Expect::Tree(tree) => {
                // the decorated print-out is valid TOML with the tree's content (checked once, on
                // the default configuration's output; the others must print the same bytes)
                if let Some(v) = tables.get("default").and_then(|m| m.get(&(i, "DD".to_string()))) {
                    let text = unhex(v);
                    match text.parse::<toml_edit::DocumentMut>() {
                        Ok(d) => {
                            if let Err(e) = crate::model::diff_tbl(&crate::model::from_doc(&d), &super::c06::printed_model(tree), crate::model::Cmp::EXACT) {
                                fail(&mut rep, format!("item {i}: the decorated print-out decodes to a different tree: {e}\n{text}"));
                            }
                            rep.stats.class("decorated-print-checked");
                        }
                        Err(e) => fail(&mut rep, format!("item {i}: the decorated print-out (CRLF decoration supplied through the API) is not valid TOML: {e}\n{text:?}")),
                    }
                }
                let mut want = String::new();
                dump_tbl(tree, false, &mut want);
                for (name, m) in &tables {
                    if let Some(v) = m.get(&(i, "B".to_string())) {
                        if *v != hex(&want) {
                            fail(&mut rep, format!("item {i}: configuration `{name}`: the structure built through the API reads back differently\ngot  {}\nwant {want}", unhex(v)));
                        }
                    }
                }
            }
            _ => {}
        }
        if rep.stats.samples.len() < 4 && i % 333 == 0 {
            rep.stats.samples.push(json!({"item": i, "line": lines[i].chars().take(300).collect::<String>()}));
        }
    }
    rep.extra.insert("configurations".into(), json!(configs.iter().map(|c| json!({"name": c.name, "features": c.features})).collect::<Vec<_>>()));
    for c in ["config.default", "config.perf", "config.preserve_order", "config.edit-parse-only", "config.edit-display-only", "config.all-unbounded", "order.insertion-checked", "order.sorted-checked", "map-history-checked", "decorated-print-checked", "edit-history-checked", "edit-history.sections>20", "overlimit.accepted-unbounded", "overlimit.rejected-bounded"] {
        rep.require_class(c);
    }
    rep.finish()
}

fn any_ambiguous(t: &Tbl) -> bool {
    t.order_ambiguous
        || !t.floating.is_empty()
        || t.entries.iter().any(|(_, n)| match n {
            Node::Table(s) => any_ambiguous(s),
            Node::Aot(a) => a.iter().any(any_ambiguous),
            _ => false,
        })
}
