//! C04 — no input makes the library panic, abort or hang.
//!
//! The property body runs in a child process (the parent re-executes itself): a panic is caught
//! in-process and shrunk; an abort / stack overflow / hang kills only the child, and the parent
//! then bisects the per-thread "current input" files to the single input that does it.

use super::c02::finish_run;
use super::Args;
use crate::engine::*;
use crate::gen::{gen_doc, GenCfg};
use crate::mutate::mutate;
use crate::tape::{fnv64, Tape};
use serde::Deserialize;
use serde_json::json;
use std::collections::BTreeMap;
use std::str::FromStr;

#[derive(Deserialize, Debug)]
#[allow(dead_code)]
enum En {
    Unit,
    New(i64),
    Tup(i64, String),
    St { a: i64 },
}

#[derive(Deserialize, Debug)]
#[allow(dead_code)]
struct Typed {
    a: Option<i8>,
    b: Option<String>,
    c: Option<Vec<u64>>,
    d: Option<toml::value::Datetime>,
    e: Option<BTreeMap<String, f32>>,
    k: Option<En>,
    x: Option<(i32, String)>,
    y: Option<serde_spanned::Spanned<bool>>,
}

fn use_err<E: std::fmt::Display + std::fmt::Debug>(e: &E) -> usize {
    format!("{e}").len() + format!("{e:?}").len()
}

/// every entry point on one input; returns a small digest so nothing is optimised away
pub fn exercise(bytes: &[u8]) -> usize {
    let mut acc = 0usize;
    match toml_edit::de::from_slice::<toml::Value>(bytes) {
        Ok(v) => acc += v.to_string().len(),
        Err(e) => acc += use_err(&e) + e.message().len() + e.span().map(|s| s.start).unwrap_or(0),
    }
    let Ok(text) = std::str::from_utf8(bytes) else { return acc };
    match text.parse::<toml_edit::DocumentMut>() {
        Ok(doc) => {
            let s = doc.to_string();
            acc += s.len();
            acc += format!("{doc:?}").len();
            let c = doc.clone();
            acc += c.to_string().len();
            drop(c);
            match toml_edit::de::from_document::<toml::Value>(doc) {
                Ok(v) => {
                    acc += toml::to_string(&v).map(|s| s.len()).unwrap_or(0);
                    acc += toml::to_string_pretty(&v).map(|s| s.len()).unwrap_or(0);
                    acc += format!("{v:?}").len();
                }
                Err(e) => acc += use_err(&e),
            }
        }
        Err(e) => acc += use_err(&e) + e.message().len() + e.span().map(|s| s.end).unwrap_or(0),
    }
    match toml_edit::ImDocument::parse(text) {
        Ok(im) => {
            acc += im.to_string().len();
            acc += format!("{im:?}").len();
            let m = im.into_mut();
            acc += m.to_string().len();
        }
        Err(e) => acc += use_err(&e),
    }
    match text.parse::<toml_edit::Value>() {
        Ok(v) => acc += v.to_string().len() + format!("{v:?}").len(),
        Err(e) => acc += use_err(&e),
    }
    match text.parse::<toml_edit::Item>() {
        Ok(v) => acc += v.to_string().len() + format!("{v:?}").len(),
        Err(e) => acc += use_err(&e),
    }
    match text.parse::<toml_edit::Key>() {
        Ok(v) => acc += v.to_string().len() + format!("{v:?}").len(),
        Err(e) => acc += use_err(&e),
    }
    match toml_edit::Key::parse(text) {
        Ok(v) => acc += v.len(),
        Err(e) => acc += use_err(&e),
    }
    match toml::from_str::<toml::Value>(text) {
        Ok(v) => acc += v.to_string().len(),
        Err(e) => acc += use_err(&e) + e.message().len() + e.span().map(|s| s.start).unwrap_or(0),
    }
    match toml::from_str::<toml::Table>(text) {
        Ok(v) => acc += v.to_string().len() + v.len(),
        Err(e) => acc += use_err(&e),
    }
    match toml::Table::from_str(text) {
        Ok(v) => acc += v.len(),
        Err(e) => acc += use_err(&e),
    }
    match toml::from_str::<Typed>(text) {
        Ok(v) => acc += format!("{v:?}").len(),
        Err(e) => acc += use_err(&e),
    }
    match toml_edit::de::from_str::<Typed>(text) {
        Ok(v) => acc += format!("{v:?}").len(),
        Err(e) => acc += use_err(&e),
    }
    match toml::Value::deserialize(toml::de::Deserializer::new(text)) {
        Ok(v) => acc += v.to_string().len(),
        Err(e) => acc += use_err(&e),
    }
    match toml::Value::deserialize(toml::de::ValueDeserializer::new(text)) {
        Ok(v) => acc += v.to_string().len(),
        Err(e) => acc += use_err(&e),
    }
    match toml_edit::de::ValueDeserializer::from_str(text) {
        Ok(d) => match toml::Value::deserialize(d) {
            Ok(v) => acc += v.to_string().len(),
            Err(e) => acc += use_err(&e),
        },
        Err(e) => acc += use_err(&e),
    }
    match text.parse::<toml_edit::de::Deserializer>() {
        Ok(d) => match Typed::deserialize(d) {
            Ok(v) => acc += format!("{v:?}").len(),
            Err(e) => acc += use_err(&e),
        },
        Err(e) => acc += use_err(&e),
    }
    match text.parse::<toml_datetime::Datetime>() {
        Ok(d) => acc += d.to_string().len() + format!("{d:?}").len(),
        Err(e) => acc += use_err(&e),
    }
    acc
}

thread_local! {
    static CUR: std::cell::RefCell<Option<std::fs::File>> = const { std::cell::RefCell::new(None) };
}
static NEXT_SLOT: std::sync::atomic::AtomicUsize = std::sync::atomic::AtomicUsize::new(0);

fn cur_dir() -> String {
    format!("{}/harness/target/c04-cur", VERIF_DIR)
}

/// remember the input this thread is about to process (survives the death of the process)
fn note_current(bytes: &[u8]) {
    use std::os::unix::fs::FileExt;
    CUR.with(|c| {
        let mut c = c.borrow_mut();
        if c.is_none() {
            let slot = NEXT_SLOT.fetch_add(1, std::sync::atomic::Ordering::Relaxed);
            let _ = std::fs::create_dir_all(cur_dir());
            *c = std::fs::OpenOptions::new().create(true).write(true).truncate(true).open(format!("{}/{slot}.bin", cur_dir())).ok();
        }
        if let Some(f) = c.as_ref() {
            let _ = f.set_len(0);
            let _ = f.write_all_at(bytes, 0);
        }
    });
}

const SLOW_MS_BASE: u128 = 3000;

pub fn run_one(bytes: &[u8], st: &mut Stats) -> Result<(), Failure> {
    note_current(bytes);
    st.eval();
    let t0 = std::time::Instant::now();
    let r = std::panic::catch_unwind(|| exercise(bytes));
    let ms = t0.elapsed().as_millis();
    match r {
        Err(p) => {
            let msg = if let Some(s) = p.downcast_ref::<&str>() { s.to_string() } else if let Some(s) = p.downcast_ref::<String>() { s.clone() } else { "panic".into() };
            return Err(Failure::new("panic", format!("panic: {msg}\ninput: {:?}", String::from_utf8_lossy(bytes)), json!({"bytes": bytes, "text": String::from_utf8_lossy(bytes)})));
        }
        Ok(acc) => {
            if acc == usize::MAX {
                st.class("impossible");
            }
        }
    }
    if ms > SLOW_MS_BASE + bytes.len() as u128 {
        // not a violation: a time budget hit means inconclusive
        return Err(Failure::new("slow", format!("input of {} bytes took {ms} ms", bytes.len()), json!({"bytes": bytes})));
    }
    // non-trivial: accepted, or not rejected within its first 4 bytes
    let nt = match std::str::from_utf8(bytes) {
        Ok(t) => match t.parse::<toml_edit::DocumentMut>() {
            Ok(_) => true,
            Err(e) => e.span().map(|s| s.start >= 4).unwrap_or(false),
        },
        Err(e) => e.valid_up_to() >= 4,
    };
    if nt {
        st.nontrivial(fnv64(bytes));
    }
    Ok(())
}

static CORPUS: std::sync::OnceLock<Vec<Vec<u8>>> = std::sync::OnceLock::new();

const EXTREMES: [&str; 60] = [
    // blanks before / after a quoted key or a value with multi-byte characters (the stand-alone
    // key and value parsers see the whole input)
    "{ }'é'", "{\t}\"日本\"", "{ }\"€\"  ", "{ }'é' = 1", "{ }\"日本語\"", "'é'{ }",
    // valid documents with long runs of one character (counters, buffers, quoting decisions)
    "a = \"{'}\"", "a = '{\"}'", "a = \"{\\\"}\"", "a = \"\"\"{'}\"\"\"", "a = \'\'\'{\"}\'\'\'", "\"{'}\" = 1", "'{\"}' = 1",
    "a = \"{\\n}\"", "a = \"\"\"{\n}\"\"\"", "a = [{\"'\",}]", "a = \"{\\\\}\"", "a = '{\\}'", "a = \"{\\u0000}\"", "{a = 1\n}",
    "a = 1e999999999", "a = -1e-999999999", "a = 0.{Z}1", "a = {9}", "a = -{9}", "a = 0x{F}", "a = 0b{1}", "a = 0o{7}",
    "a = 9999-12-31T23:59:60.{9}+23:59", "a = 0000-01-01", "a = 9999-99-99", "a = 00:00:00.{0}", "a = 1{_1}", "a = \"{\\u0000}",
    "a = \"\\U{F}\"", "a = '''{'}", "a = \"\"\"{\"}", "a = [{[}", "a = {{a=}", "{a.}b = 1", "[{a.}b]", "[[{a.}b]]", "a = [{1,}]",
    "a = {{}", "a = \"{é}", "a = 1979-05-27T07:32:00.{9}Z", "a = 1979-05-27 07:32:00-{9}:00", "{#\n}", "a = \"\"\"\\\n{ \n}\"\"\"",
    "\u{feff}{\u{feff}}", "a = +{+}1", "a = 1e{+}1", "a = inf{f}", "a = nan{n}", "a = tru{e}", "{\"}=1", "{'}=1", "a = [\n{#x\n}]", "a.{\"\".}b = 1", "a = {a=1,{b=1,}}",
];

/// expand `{X}` into X repeated n times
fn expand(t: &str, n: usize) -> String {
    if let (Some(a), Some(b)) = (t.find('{'), t.rfind('}')) {
        if a < b {
            let unit = &t[a + 1..b];
            return format!("{}{}{}", &t[..a], unit.repeat(n), &t[b + 1..]);
        }
    }
    t.to_string()
}

fn prop(t: &mut Tape, st: &mut Stats) -> Result<(), Failure> {
    let corpus = CORPUS.get().unwrap();
    let bytes: Vec<u8> = match t.weighted(&[2, 5, 4, 3, 2, 2]) {
        5 => {
            // nesting combinations around the recursion limit (arrays x inline tables x dotted keys x headers)
            st.class("nesting-combo");
            let sp = super::c05::gen_spec(t);
            let mut sp = sp;
            // keep the decoded depth small enough for this process' own stack: cap every part
            sp.header = sp.header.min(120);
            sp.key = sp.key.min(120);
            sp.levels.truncate(120);
            sp.text().into_bytes()
        }
        0 => {
            // raw random bytes, biased towards TOML's punctuation
            let n = t.small(200);
            (0..n)
                .map(|_| {
                    if t.chance(2, 3) {
                        *t.pick(b"=[]{}\"'#.,\n\r\t -+_:0123456789abcdefxoTZeinftrul\\")
                    } else {
                        t.below(256) as u8
                    }
                })
                .collect()
        }
        1 => {
            let mut cfg = GenCfg::default();
            cfg.f11_safe = false;
            cfg.decor = t.weighted(&[2, 5, 3]) as u8;
            cfg.budget = 6 + t.below(40);
            let d = gen_doc(t, &cfg).text.into_bytes();
            let other = t.pick(corpus).clone();
            st.class("mutant.generated");
            mutate(&d, &other, t).0
        }
        2 => {
            let d = t.pick(corpus).clone();
            let other = t.pick(corpus).clone();
            st.class("mutant.corpus");
            mutate(&d, &other, t).0
        }
        3 => {
            let e = *t.pick(&EXTREMES);
            let n = match t.weighted(&[3, 2, 1]) {
                0 => t.small(20),
                1 => 50 + t.below(400),
                _ => 1000 + t.below(3000),
            };
            st.class("extreme");
            expand(e, n).into_bytes()
        }
        _ => {
            // generated valid document, untouched (exercise the success paths)
            let mut cfg = GenCfg::default();
            cfg.f11_safe = false;
            cfg.budget = 6 + t.below(60);
            st.class("valid");
            gen_doc(t, &cfg).text.into_bytes()
        }
    };
    if bytes.len() > 8192 {
        st.skip("too-long");
        return Ok(());
    }
    if std::str::from_utf8(&bytes).is_err() {
        st.class("non-utf8");
    }
    st.sample(|| json!({"input": String::from_utf8_lossy(&bytes)}));
    run_one(&bytes, st)
}

fn child(args: &Args, rep: &mut Report) {
    let fx = crate::corpus::load();
    let mut corpus: Vec<Vec<u8>> = fx.iter().map(|f| f.bytes.clone()).collect();
    if let Ok(rd) = std::fs::read_dir("/repo/crates/toml_edit_fuzz/seeds") {
        let mut ps: Vec<_> = rd.filter_map(|e| e.ok()).map(|e| e.path()).collect();
        ps.sort();
        for p in ps {
            if let Ok(b) = std::fs::read(&p) {
                if b.len() < 8192 {
                    corpus.push(b);
                }
            }
        }
    }
    let _ = CORPUS.set(corpus.clone());
    for p in super::regression_files("C04") {
        let j = super::load_replay(&p);
        if let Some(b) = j["case"]["bytes"].as_array() {
            let bytes: Vec<u8> = b.iter().map(|v| v.as_u64().unwrap_or(0) as u8).collect();
            let mut st = Stats::new();
            if let Err(f) = run_one(&bytes, &mut st) {
                rep.violation("regression", None, &f);
            }
            rep.stats.merge(st);
        }
    }
    // every truncation of every small corpus document
    let small: Vec<&Vec<u8>> = corpus.iter().filter(|b| b.len() <= 400).collect();
    let (stt, fail) = par_enumerate(small.len() as u64, workers(), |i, st| {
        let b = small[i as usize];
        for cut in 0..=b.len() {
            st.class("truncation");
            run_one(&b[..cut], st)?;
        }
        Ok(())
    });
    rep.stats.merge(stt);
    if let Some((_, f)) = fail {
        if f.sub == "slow" {
            fault(&format!("inconclusive: {}", f.msg));
        }
        rep.violation("truncation", None, &f);
    }
    // nesting + dotted key sums around the limit, in every split
    for total in [78usize, 79, 80, 81, 82] {
        for a in [0usize, 1, 2, 20, 40, 77, 78, 79] {
            if a > total {
                continue;
            }
            for inline in [false, true] {
                let k = total - a;
                let open = if inline { "{x=".repeat(a) } else { "[".repeat(a) };
                let close = if inline { "}".repeat(a) } else { "]".repeat(a) };
                let key = vec!["k"; k.max(1)].join(".");
                for text in [format!("v = {open}{{ {key} = 1 }}{close}\n"), format!("{key} = {open}1{close}\n"), format!("[{key}]\nv = {open}1{close}\n")] {
                    rep.stats.class("nesting-sum");
                    if let Err(f) = run_one(text.as_bytes(), &mut rep.stats) {
                        if f.sub == "slow" {
                            fault(&format!("inconclusive: {}", f.msg));
                        }
                        rep.violation("nesting-sum", None, &f);
                    }
                }
            }
        }
    }
    // the extremes at fixed sizes
    for e in EXTREMES {
        for n in [0usize, 1, 2, 3, 79, 80, 81, 127, 128, 129, 255, 256, 257, 400, 1023, 1024, 1025, 4000] {
            let b = expand(e, n).into_bytes();
            if b.len() <= 8192 {
                rep.stats.class("extreme");
                if let Err(f) = run_one(&b, &mut rep.stats) {
                    if f.sub == "slow" {
                        fault(&format!("inconclusive: {}", f.msg));
                    }
                    rep.violation("extreme", None, &f);
                }
            }
        }
    }
    // closed nests below the recursion limit, with and without a trailing comma / blanks after every
    // value: valid input whose handling must stay linear in the depth (a parser that retries an array
    // after a failed fast path doubles its work per level)
    for (open, close, per) in [("[", "]", 1usize), ("[", ",]", 1), ("[ ", " , ]", 1), ("[\n", ",\n]", 1), ("{a=", "}", 1), ("[{a=", "},]", 2), ("[[", ",],]", 2)] {
        for n in [1usize, 2, 3, 5, 8, 12, 16, 20, 24, 28, 32, 40, 50, 60, 70, 78] {
            if n * per > 78 {
                continue;
            }
            let b = format!("a = {}1{}\n", open.repeat(n), close.repeat(n)).into_bytes();
            rep.stats.class("extreme.closed-nest");
            if let Err(f) = run_one(&b, &mut rep.stats) {
                if f.sub == "slow" {
                    fault(&format!("inconclusive: {}", f.msg));
                }
                rep.violation("extreme", None, &f);
            }
        }
    }
    let run = run_tape("C04.inputs", &prop, 1500, args.tier.pick(800_000, 20_000_000), args.seed, workers());
    if let Some((_, f)) = &run.failure {
        if f.sub == "slow" {
            fault(&format!("inconclusive: {}", f.msg));
        }
    }
    finish_run(rep, "inputs", run);
    if args.tier == Tier::Thorough && rep.violations.is_empty() {
        // ASan build, every entry point, C15's error oracle inside the target
        let seeds: Vec<Vec<u8>> = corpus.iter().filter(|b| b.len() <= 4096).cloned().collect();
        // (the campaign runs in other processes: tell the parent's watchdog not to expect progress marks)
        let _ = std::fs::create_dir_all(cur_dir());
        let _ = std::fs::write(format!("{}/phase-unwatched", cur_dir()), b"");
        fuzz_campaign(rep, "fuzz_c04", &seeds, 500_000, 8192, workers());
    }
    for c in ["nesting-combo", "nesting-sum", "non-utf8", "extreme", "truncation", "mutant.corpus", "mutant.generated", "valid"] {
        rep.require_class(c);
    }
}

pub fn run(args: Args) -> ! {
    let mut rep = Report::new("C04", args.tier, args.seed);
    rep.rule = "byte strings <= 8 KiB: raw random bytes biased to TOML punctuation, byte/line/digit mutants of generated and corpus documents (incl. invalid UTF-8), every truncation of every corpus document <= 400 bytes, 54 structure-aware extreme templates (400-digit numbers, huge exponents, long fractions, unterminated constructs, nesting) at generated sizes, untouched valid documents. Each input goes through 20 entry points (document/value/item/key parsers, serde deserializers from text, bytes and documents, value deserializers, the standalone date-time parser) and then Display, Debug, Clone, drop, into_mut, from_document, to_string / to_string_pretty and error rendering, in a build with debug assertions and overflow checks. Oracle: no panic (caught and shrunk), no death of the worker process (bisected), per-input time within 3 s + 1 ms/byte, and the worker marks a new input at least every 150 s (else the run ends inconclusive, exit 2, naming the inputs in flight). non-trivial = accepted or not rejected within the first 4 bytes; distinct by bytes".into();
    rep.assumptions = vec!["termination is only observed through a generous wall-clock budget; exceeding it is reported as inconclusive (exit 2), never as a violation".into()];
    if let Some(p) = &args.replay {
        let j = super::load_replay_any(p);
        let bytes: Vec<u8> = j["case"]["bytes"].as_array().map(|b| b.iter().map(|v| v.as_u64().unwrap_or(0) as u8).collect()).unwrap_or_default();
        let mut st = Stats::new();
        if let Err(f) = run_one(&bytes, &mut st) {
            rep.violation("replay", None, &f);
        }
        rep.stats.merge(st);
        rep.stats.nontrivial.insert(1);
        rep.stats.nontrivial.insert(2);
        rep.finish();
    }
    if std::env::var("VCHECK_CHILD").is_ok() {
        child(&args, &mut rep);
        rep.finish();
    }
    // parent: run the body in a child process
    let _ = std::fs::remove_dir_all(cur_dir());
    let exe = std::env::current_exe().unwrap_or_else(|e| fault(&format!("current_exe: {e}")));
    let mut childp = std::process::Command::new(&exe)
        .args(["C04", "--tier", args.tier.name()])
        .env("VCHECK_CHILD", "1")
        .env("VERIF_SEED", args.seed.to_string())
        .spawn()
        .unwrap_or_else(|e| fault(&format!("spawn: {e}")));
    // watchdog: every worker records its current input before touching it; when nothing has been
    // recorded for a long time the worker is stuck on those inputs (a hang is reported as
    // inconclusive with the inputs named, never as a violation)
    const STALL_SECS: u64 = 150;
    let mut last_progress = std::time::Instant::now();
    let mut last_stamp = std::time::SystemTime::UNIX_EPOCH;
    let status = loop {
        match childp.try_wait() {
            Ok(Some(st)) => break st,
            Ok(None) => {}
            Err(e) => fault(&format!("wait: {e}")),
        }
        std::thread::sleep(std::time::Duration::from_millis(500));
        let mut newest = std::time::SystemTime::UNIX_EPOCH;
        let mut no_watch = false;
        if let Ok(rd) = std::fs::read_dir(cur_dir()) {
            for e in rd.filter_map(|e| e.ok()) {
                if e.file_name().to_string_lossy() == "phase-unwatched" {
                    no_watch = true;
                }
                if let Ok(m) = e.metadata().and_then(|m| m.modified()) {
                    if m > newest {
                        newest = m;
                    }
                }
            }
        }
        if newest > last_stamp || no_watch {
            last_stamp = newest;
            last_progress = std::time::Instant::now();
        }
        if last_progress.elapsed().as_secs() > STALL_SECS {
            let _ = childp.kill();
            let _ = childp.wait();
            let mut inputs = vec![];
            if let Ok(rd) = std::fs::read_dir(cur_dir()) {
                for e in rd.filter_map(|e| e.ok()) {
                    if let Ok(b) = std::fs::read(e.path()) {
                        inputs.push(String::from_utf8_lossy(&b).chars().take(160).collect::<String>());
                    }
                }
            }
            inputs.sort();
            inputs.dedup();
            fault(&format!("no input finished for {STALL_SECS} s: the worker is stuck (a hang is reported as inconclusive). Inputs in flight: {inputs:?}"));
        }
    };
    if let Some(code) = status.code() {
        let _ = std::fs::remove_dir_all(cur_dir());
        std::process::exit(code);
    }
    // the child died from a signal: find the input
    println!("C04: worker process died ({status}); bisecting the inputs in flight");
    let mut culprits = vec![];
    if let Ok(rd) = std::fs::read_dir(cur_dir()) {
        for e in rd.filter_map(|e| e.ok()) {
            if let Ok(bytes) = std::fs::read(e.path()) {
                let tmp = format!("{}/probe.json", cur_dir());
                std::fs::write(&tmp, serde_json::to_string(&json!({"case": {"bytes": bytes}})).unwrap()).unwrap();
                let st = std::process::Command::new(&exe).args(["C04", "--replay", &tmp]).stdout(std::process::Stdio::null()).status();
                if st.map(|s| s.code().is_none()).unwrap_or(false) {
                    culprits.push(bytes);
                }
            }
        }
    }
    if culprits.is_empty() {
        fault("worker died but no single in-flight input reproduces it");
    }
    for b in culprits {
        let f = Failure::new("abort", format!("the process dies (abort / stack overflow) on input {:?}", String::from_utf8_lossy(&b)), json!({"bytes": b, "text": String::from_utf8_lossy(&b)}));
        rep.violation("abort", None, &f);
    }
    rep.stats.evaluations = 1;
    rep.stats.nontrivial.insert(1);
    rep.stats.nontrivial.insert(2);
    rep.stats.samples.push(json!("see violations"));
    rep.finish()
}
