//! C06 — anything built through the API encodes to valid TOML that decodes back.

use super::c02::finish_run;
use super::Args;
use crate::engine::*;
use crate::model::{self, Cmp, Node, Tbl, TblKind};
use crate::scalars::*;
use crate::tape::{fnv64, Tape};
use crate::tomlref::{self, Verdict};
use serde_json::json;
use toml_edit::{Array, ArrayOfTables, DocumentMut, InlineTable, Item, Key, Table, Value};

// ---- model generation: value-ish nodes and table-ish nodes ------------------------------------

fn gen_scalar(t: &mut Tape) -> Node {
    match t.weighted(&[4, 4, 2, 3, 2]) {
        0 => Node::Int(gen_int(t)),
        1 => Node::Str(gen_string(t)),
        2 => Node::Bool(t.chance(1, 2)),
        3 => Node::float(gen_float(t)),
        _ => Node::Dt(gen_dt(t)),
    }
}

fn gen_keys(t: &mut Tape, n: usize) -> Vec<String> {
    let mut ks: Vec<String> = vec![];
    for _ in 0..n {
        let k = gen_key(t);
        if !ks.contains(&k) && !k.starts_with("$__") {
            ks.push(k);
        }
    }
    ks
}

fn gen_value(t: &mut Tape, depth: usize, budget: &mut isize) -> Node {
    *budget -= 1;
    if depth >= 5 || *budget <= 0 {
        return gen_scalar(t);
    }
    match t.weighted(&[7, 2, 2]) {
        0 => gen_scalar(t),
        1 => {
            let n = t.small(5);
            Node::Array((0..n).map(|_| gen_value(t, depth + 1, budget)).collect())
        }
        _ => {
            let mut tb = Tbl::new(TblKind::Inline);
            let nk = t.small(4);
            for k in gen_keys(t, nk) {
                let v = gen_value(t, depth + 1, budget);
                tb.entries.push((k, v));
            }
            Node::Table(tb)
        }
    }
}

fn gen_table(t: &mut Tape, depth: usize, budget: &mut isize, root: bool) -> Tbl {
    *budget -= 1;
    let mut tb = Tbl::new(TblKind::Std);
    let n = if root { 1 + t.small(7) } else { t.small(5) };
    for k in gen_keys(t, n) {
        let node = if depth >= 5 || *budget <= 0 {
            gen_scalar(t)
        } else {
            match t.weighted(&[8, 3, 2]) {
                0 => gen_value(t, depth + 1, budget),
                1 => Node::Table(gen_table(t, depth + 1, budget, false)),
                _ => {
                    let m = t.small(3);
                    Node::Aot((0..m).map(|_| gen_table(t, depth + 1, budget, false)).collect())
                }
            }
        };
        tb.entries.push((k, node));
    }
    tb
}

// ---- building through generated API routes ------------------------------------------------------

fn build_scalar(n: &Node, t: &mut Tape) -> Value {
    match n {
        Node::Str(s) => {
            if t.chance(1, 2) {
                Value::from(s.as_str())
            } else {
                Value::from(s.clone())
            }
        }
        Node::Int(i) => Value::from(*i),
        Node::Float(b) => Value::from(f64::from_bits(*b)),
        Node::Bool(b) => Value::from(*b),
        Node::Dt(d) => {
            let lib = d.to_lib();
            match (t.below(3), lib.date, lib.time, lib.offset) {
                (0, Some(date), None, None) => Value::from(date),
                (0, None, Some(time), None) => Value::from(time),
                _ => Value::from(lib),
            }
        }
        _ => unreachable!(),
    }
}

fn build_value(n: &Node, t: &mut Tape, st: &mut Stats) -> Value {
    match n {
        Node::Array(a) => {
            let route = t.below(4);
            st.class(["array.push", "array.from_iter", "array.push_formatted", "array.insert"][route]);
            let vals: Vec<Value> = a.iter().map(|e| build_value(e, t, st)).collect();
            let arr = match route {
                0 => {
                    let mut arr = Array::new();
                    for v in vals {
                        arr.push(v);
                    }
                    arr
                }
                1 => Array::from_iter(vals),
                2 => {
                    let mut arr = Array::new();
                    for v in vals {
                        arr.push_formatted(v);
                    }
                    arr
                }
                _ => {
                    // insert in reverse at the front
                    let mut arr = Array::new();
                    for v in vals.into_iter().rev() {
                        arr.insert(0, v);
                    }
                    arr
                }
            };
            let mut arr = arr;
            // a style flag a builder may set on any array, the empty one included
            if t.chance(1, 6) {
                arr.set_trailing_comma(true);
                st.class(if arr.is_empty() { "array.trailing-comma.empty" } else { "array.trailing-comma" });
            }
            Value::Array(arr)
        }
        Node::Table(tb) => {
            let route = t.below(4);
            st.class(["inline.insert", "inline.from_iter", "inline.get_or_insert", "inline.insert_formatted"][route]);
            let pairs: Vec<(String, Value)> = tb.entries.iter().map(|(k, v)| (k.clone(), build_value(v, t, st))).collect();
            let it = match route {
                0 => {
                    let mut it = InlineTable::new();
                    // a builder that looks an entry up through mutable indexing (`item["k"]`) leaves
                    // an invisible placeholder behind: it is no part of the structure
                    let ghost_at = if t.chance(1, 4) && !pairs.iter().any(|(k, _)| k == "ghost-entry") { Some(t.below(pairs.len() + 1)) } else { None };
                    for (i, (k, v)) in pairs.into_iter().enumerate() {
                        if ghost_at == Some(i) {
                            let mut holder = Item::Value(Value::InlineTable(std::mem::take(&mut it)));
                            let _ = &mut holder["ghost-entry"];
                            st.class("inline.placeholder");
                            if let Item::Value(Value::InlineTable(back)) = holder {
                                it = back;
                            }
                        }
                        it.insert(k, v);
                    }
                    it
                }
                1 => InlineTable::from_iter(pairs),
                2 => {
                    let mut it = InlineTable::new();
                    for (k, v) in pairs {
                        it.get_or_insert(k, v);
                    }
                    it
                }
                _ => {
                    let mut it = InlineTable::new();
                    for (k, v) in pairs {
                        it.insert_formatted(&Key::new(k), v);
                    }
                    it
                }
            };
            Value::InlineTable(it)
        }
        other => build_scalar(other, t),
    }
}

fn build_item(n: &Node, t: &mut Tape, st: &mut Stats) -> Item {
    match n {
        Node::Table(tb) if tb.kind == TblKind::Std => Item::Table(build_table(tb, t, st)),
        Node::Aot(a) => {
            let mut aot = ArrayOfTables::new();
            if t.chance(1, 2) {
                for e in a {
                    aot.push(build_table(e, t, st));
                }
            } else {
                let tables: Vec<Table> = a.iter().map(|e| build_table(e, t, st)).collect();
                aot = ArrayOfTables::from_iter(tables);
            }
            Item::ArrayOfTables(aot)
        }
        other => {
            let v = build_value(other, t, st);
            if t.chance(1, 2) {
                toml_edit::value(v)
            } else {
                Item::Value(v)
            }
        }
    }
}

fn build_table(tb: &Tbl, t: &mut Tape, st: &mut Stats) -> Table {
    let all_values = tb.entries.iter().all(|(_, n)| !matches!(n, Node::Aot(_)) && !matches!(n, Node::Table(x) if x.kind == TblKind::Std));
    let route = if all_values && t.chance(1, 5) { 4 } else { t.below(4) };
    st.class(["table.insert", "table.index_mut", "table.entry", "table.insert_formatted", "table.from_iter"][route]);
    if route == 4 {
        let pairs: Vec<(String, Value)> = tb.entries.iter().map(|(k, v)| (k.clone(), build_value(v, t, st))).collect();
        return Table::from_iter(pairs);
    }
    let mut out = Table::new();
    for (k, n) in &tb.entries {
        let item = build_item(n, t, st);
        match route {
            0 => {
                out.insert(k, item);
            }
            1 => {
                out[k.as_str()] = item;
            }
            2 => {
                out.entry(k).or_insert(item);
            }
            _ => {
                out.insert_formatted(&Key::new(k.as_str()), item);
            }
        }
    }
    out
}

// ---- expected model under U2.f / U2.g -------------------------------------------------------------

/// what the printed text must decode to: values before tables (stable partition), empty arrays
/// of tables absent
pub fn printed_model(tb: &Tbl) -> Tbl {
    let mut out = Tbl::new(tb.kind);
    // (a table flagged as dotted is written as `key.sub = v` lines in its parent's body)
    let is_tbl = |n: &Node| matches!(n, Node::Aot(_)) || matches!(n, Node::Table(x) if x.kind != TblKind::Inline && x.kind != TblKind::Dotted);
    for pass in [false, true] {
        for (k, n) in &tb.entries {
            if is_tbl(n) != pass {
                continue;
            }
            let m = match n {
                Node::Aot(a) if a.is_empty() => continue,
                Node::Aot(a) => Node::Aot(a.iter().map(printed_model).collect()),
                Node::Table(x) if x.kind != TblKind::Inline => Node::Table(printed_model(x)),
                other => other.clone(),
            };
            out.entries.push((k.clone(), m));
        }
    }
    out
}

fn nontrivial(tb: &Tbl) -> bool {
    fn needs_quote(s: &str) -> bool {
        s.chars().any(|c| c == '"' || c == '\\' || c == '\'' || c.is_control())
    }
    fn leaf_quote(n: &Node) -> bool {
        match n {
            Node::Str(s) => needs_quote(s),
            Node::Array(a) => a.iter().any(leaf_quote),
            Node::Table(t) => t.entries.iter().any(|(k, n)| needs_quote(k) || !is_bare_key(k) || leaf_quote(n)),
            Node::Aot(a) => a.iter().any(|t| t.entries.iter().any(|(k, n)| !is_bare_key(k) || leaf_quote(n))),
            _ => false,
        }
    }
    fn only_subtables(t: &Tbl) -> bool {
        (!t.entries.is_empty() && t.entries.iter().all(|(_, n)| matches!(n, Node::Table(x) if x.kind == TblKind::Std)))
            || t.entries.iter().any(|(_, n)| match n {
                Node::Table(x) if x.kind == TblKind::Std => only_subtables(x),
                Node::Aot(a) => a.iter().any(only_subtables),
                _ => false,
            })
    }
    fn aot_in_aot(t: &Tbl, inside: bool) -> bool {
        t.entries.iter().any(|(_, n)| match n {
            Node::Aot(a) => inside || a.iter().any(|e| aot_in_aot(e, true)),
            Node::Table(x) if x.kind == TblKind::Std => aot_in_aot(x, inside),
            _ => false,
        })
    }
    let n = Node::Table(tb.clone());
    (n.depth() >= 2 && leaf_quote(&n)) || only_subtables(tb) || aot_in_aot(tb, false)
}

/// a wide tree: 22..60 tables and array-of-tables elements below the root, few entries each
fn gen_wide(t: &mut Tape) -> Tbl {
    let mut root = Tbl::new(TblKind::Std);
    for _ in 0..t.small(3) {
        root.entries.push((format!("v{}", root.entries.len()), gen_scalar(t)));
    }
    let n = 10 + t.small(20);
    let mut count = 0;
    while count < 22 || root.entries.len() < n {
        let mut k = if t.chance(1, 2) { format!("t{}", root.entries.len()) } else { gen_key(t) };
        if root.get(&k).is_some() || k.starts_with("$__") {
            // (an exhausted tape yields the same key again and again)
            k = format!("t{}", root.entries.len());
        }
        let mut budget = 6isize;
        let node = if t.chance(1, 2) {
            count += 1;
            Node::Table(gen_table(t, 4, &mut budget, false))
        } else {
            let m = 1 + t.small(6);
            count += m;
            Node::Aot((0..m).map(|_| gen_table(t, 4, &mut budget, false)).collect())
        };
        root.entries.push((k, node));
    }
    root
}

fn prop(t: &mut Tape, st: &mut Stats) -> Result<(), Failure> {
    let mut budget = 8 + t.below(40) as isize;
    let tree = if t.chance(1, 12) {
        st.class("wide-tree");
        gen_wide(t)
    } else {
        gen_table(t, 0, &mut budget, true)
    };
    st.eval();
    if nontrivial(&tree) {
        st.nontrivial(model::digest(&Node::Table(tree.clone())));
    }
    let case = || json!({"tree": model::tbl_to_json(&tree)});
    // --- toml_edit construction API
    let mut doc = DocumentMut::new();
    match t.below(3) {
        0 => {
            st.class("doc.as_table_mut");
            *doc.as_table_mut() = build_table(&tree, t, st);
        }
        1 => {
            st.class("doc.index_mut");
            for (k, n) in &tree.entries {
                doc[k.as_str()] = build_item(n, t, st);
            }
        }
        _ => {
            st.class("doc.insert");
            for (k, n) in &tree.entries {
                doc.insert(k, build_item(n, t, st));
            }
        }
    }
    // layout flags a builder can set: a sub-table of plain values written through dotted keys, a
    // table without values of its own left implicit (both are layout: the data stays the same)
    let mut ftree = tree.clone();
    if t.chance(1, 4) {
        fn flag(tb: &mut Table, m: &mut Tbl, root: bool, t: &mut Tape, st: &mut Stats) {
            for (k, n) in m.entries.iter_mut() {
                let Some(item) = tb.get_mut(k) else { continue };
                match (n, item) {
                    (Node::Table(x), Item::Table(c)) if x.kind == TblKind::Std => {
                        let plain = !x.entries.is_empty() && x.entries.iter().all(|(_, v)| !matches!(v, Node::Aot(_)) && !matches!(v, Node::Table(y) if y.kind != TblKind::Inline));
                        if plain && t.chance(1, 2) {
                            c.set_dotted(true);
                            x.kind = TblKind::Dotted;
                            st.class("flag.dotted");
                        } else {
                            flag(c, x, false, t, st);
                        }
                    }
                    (Node::Table(x), Item::Value(toml_edit::Value::InlineTable(c))) if x.kind == TblKind::Inline => {
                        // an inline table that is a direct entry of a standard table, written through dotted keys
                        let plain = !x.entries.is_empty() && x.entries.iter().all(|(_, v)| !matches!(v, Node::Aot(_)) && !matches!(v, Node::Table(y) if y.kind != TblKind::Inline));
                        if plain && t.chance(1, 2) {
                            c.set_dotted(true);
                            x.kind = TblKind::Dotted;
                            st.class("flag.dotted-inline");
                        }
                    }
                    (Node::Aot(a), Item::ArrayOfTables(ca)) => {
                        for (x, c) in a.iter_mut().zip(ca.iter_mut()) {
                            flag(c, x, true, t, st);
                        }
                    }
                    _ => {}
                }
            }
            let own_values = m.entries.iter().any(|(_, v)| !matches!(v, Node::Aot(_)) && !matches!(v, Node::Table(y) if y.kind == TblKind::Std || y.kind == TblKind::Dotted));
            let has_children = m.entries.iter().any(|(_, v)| matches!(v, Node::Table(y) if y.kind == TblKind::Std || y.kind == TblKind::Dotted) || matches!(v, Node::Aot(a) if !a.is_empty()));
            if !root && !own_values && has_children && t.chance(1, 2) {
                tb.set_implicit(true);
                st.class("flag.implicit");
            }
        }
        flag(doc.as_table_mut(), &mut ftree, true, t, st);
    }
    let text = doc.to_string();
    st.sample(|| json!({"printed": text}));
    if doc.to_string() != text || doc.clone().to_string() != text {
        return Err(Failure::new("pure", format!("printing the same structure twice (or its clone) gives different text\n{text}"), case()));
    }
    let want = printed_model(&ftree);
    let re = text.parse::<DocumentMut>().map_err(|e| Failure::new("valid", format!("printed text does not parse: {e}\n---\n{text}\n---"), case()))?;
    match tomlref::decode(&text).0 {
        Verdict::Valid(_) | Verdict::Limit(_) => {}
        v => return Err(Failure::new("valid", format!("printed text is not valid TOML per the reference: {}\n---\n{text}\n---", v.short()), case())),
    }
    model::diff_tbl(&model::from_doc(&re), &want, Cmp::EXACT)
        .map_err(|e| Failure::new("roundtrip", format!("printed text decodes to a different tree: {e}\n---\n{text}\n---"), case()))?;
    // the built structure itself reads as the tree (through public accessors)
    model::diff_tbl(&model::from_doc(&doc), &tree, Cmp { hide_empty: false, ..Cmp::EXACT })
        .map_err(|e| Failure::new("build", format!("the structure built through the API does not read back as what was inserted: {e}"), case()))?;

    // --- stand-alone Display of parts, in the position they belong to
    for (k, n) in tree.entries.iter().take(4) {
        let key = Key::new(k.as_str());
        let ktext = format!("{key} = 1\n");
        let kd = ktext.parse::<DocumentMut>().map_err(|e| Failure::new("key-display", format!("Key::new({k:?}) displays as {:?}, not usable as a key: {e}", key.to_string()), case()))?;
        if kd.as_table().len() != 1 || kd.as_table().iter().next().map(|(kk, _)| kk != k).unwrap_or(true) {
            return Err(Failure::new("key-display", format!("Key::new({k:?}) displays as {:?}, which decodes to another key", key.to_string()), case()));
        }
        if let Node::Table(x) = n {
            if x.kind == TblKind::Std {
                continue;
            }
        }
        if matches!(n, Node::Aot(_)) {
            continue;
        }
        let v = build_value(n, t, st);
        let vtext = format!("k = {v}\n");
        let vd = vtext.parse::<DocumentMut>().map_err(|e| Failure::new("value-display", format!("Value displays as {:?}, not usable as a value: {e}", v.to_string()), case()))?;
        let got = vd.get("k").and_then(model::from_edit_item);
        match got {
            Some(g) => model::diff(&g, n, Cmp::EXACT).map_err(|e| Failure::new("value-display", format!("Value display {:?} decodes differently: {e}", v.to_string()), case()))?,
            None => return Err(Failure::new("value-display", "value lost".to_string(), case())),
        }
    }

    // --- conversions between the standard and the inline form carry the whole content over
    {
        let std_tb = build_table(&tree, t, st);
        let route = t.below(3);
        st.class(["convert.into_inline_table", "convert.item.into_value", "convert.item.make_value"][route]);
        let v: Value = match route {
            0 => Value::InlineTable(std_tb.clone().into_inline_table()),
            1 => Item::Table(std_tb.clone()).into_value().map_err(|_| Failure::new("convert", "Item::Table(..).into_value() refused a table".to_string(), case()))?,
            _ => {
                let mut it = Item::Table(std_tb.clone());
                it.make_value();
                match it {
                    Item::Value(v) => v,
                    other => return Err(Failure::new("convert", format!("Item::make_value left a {}", other.type_name()), case())),
                }
            }
        };
        let as_value = |v: Value, what: &str, want: &Node| -> Result<(), Failure> {
            let mut d2 = DocumentMut::new();
            d2["k"] = Item::Value(v);
            let text2 = d2.to_string();
            let re2 = text2.parse::<DocumentMut>().map_err(|e| Failure::new("convert-valid", format!("{what}: printed text does not parse: {e}\n---\n{text2}\n---"), case()))?;
            match re2.get("k").and_then(model::from_edit_item) {
                Some(g) => model::diff(&g, want, Cmp::EXACT).map_err(|e| Failure::new("convert-roundtrip", format!("{what}: the converted structure prints to text that decodes differently: {e}\n---\n{text2}\n---"), case())),
                None => Err(Failure::new("convert-roundtrip", format!("{what}: value lost\n{text2}"), case())),
            }
        };
        as_value(v.clone(), "table -> inline table", &Node::Table(tree.clone()))?;
        // and back: only the top level becomes a standard table again, the content is the same
        if let Ok(back) = Item::Value(v).into_table() {
            st.class("convert.into_table");
            let mut d3 = DocumentMut::new();
            *d3.as_table_mut() = back;
            let text3 = d3.to_string();
            let re3 = text3.parse::<DocumentMut>().map_err(|e| Failure::new("convert-valid", format!("inline table -> table: printed text does not parse: {e}\n---\n{text3}\n---"), case()))?;
            model::diff_tbl(&model::from_doc(&re3), &tree, Cmp::EXACT)
                .map_err(|e| Failure::new("convert-roundtrip", format!("inline table -> table: decodes differently: {e}\n---\n{text3}\n---"), case()))?;
        }
        // arrays of tables <-> arrays of inline tables
        for (k, n) in &tree.entries {
            let (Node::Aot(_), Some(Item::ArrayOfTables(aot))) = (n, std_tb.get(k)) else { continue };
            st.class("convert.aot.into_array");
            let arr = aot.clone().into_array();
            as_value(Value::Array(arr.clone()), "array of tables -> array", n)?;
            if !arr.is_empty() {
                if let Ok(a2) = Item::Value(Value::Array(arr)).into_array_of_tables() {
                    st.class("convert.into_array_of_tables");
                    let mut d4 = DocumentMut::new();
                    d4.insert(k, Item::ArrayOfTables(a2));
                    let text4 = d4.to_string();
                    let re4 = text4.parse::<DocumentMut>().map_err(|e| Failure::new("convert-valid", format!("array -> array of tables: printed text does not parse: {e}\n---\n{text4}\n---"), case()))?;
                    match re4.get(k).and_then(model::from_edit_item) {
                        Some(g) => model::diff(&g, n, Cmp::EXACT).map_err(|e| Failure::new("convert-roundtrip", format!("array -> array of tables: decodes differently: {e}\n---\n{text4}\n---"), case()))?,
                        None => return Err(Failure::new("convert-roundtrip", format!("array -> array of tables: entry lost\n{text4}"), case())),
                    }
                }
            }
        }
    }

    // --- toml::Value / toml::Table Display
    let tt = model::to_toml_table(&tree);
    let ttext = tt.to_string();
    if tt.to_string() != ttext {
        return Err(Failure::new("pure", "toml::Table prints differently the second time".to_string(), case()));
    }
    let tre = ttext.parse::<DocumentMut>().map_err(|e| Failure::new("toml-valid", format!("toml::Table Display does not parse: {e}\n---\n{ttext}\n---"), case()))?;
    let cmp = if cfg!(feature = "preserve_order") { Cmp::SERDE_ORDERED } else { Cmp::SERDE };
    // through toml::Table an empty array of tables is an empty array `[]` and survives
    let want_t = toml_printed_model(&tree);
    model::diff_tbl(&model::from_doc(&tre), &want_t, cmp)
        .map_err(|e| Failure::new("toml-roundtrip", format!("toml::Table Display decodes to a different tree: {e}\n---\n{ttext}\n---"), case()))?;
    let vtext = toml::Value::Table(tt).to_string();
    let vre = format!("k = {vtext}\n").parse::<DocumentMut>().map_err(|e| Failure::new("toml-valid", format!("toml::Value Display does not parse as a value: {e}\n---\n{vtext}\n---"), case()))?;
    if let Some(g) = vre.get("k").and_then(model::from_edit_item) {
        model::diff(&g, &Node::Table(tree.clone()), Cmp::SERDE).map_err(|e| Failure::new("toml-roundtrip", format!("toml::Value Display decodes differently: {e}\n{vtext}"), case()))?;
    }
    Ok(())
}

/// for the toml::Table route: same partition, but empty arrays of tables are plain empty arrays
fn toml_printed_model(tb: &Tbl) -> Tbl {
    let mut out = Tbl::new(tb.kind);
    for (k, n) in &tb.entries {
        let m = match n {
            Node::Aot(a) => Node::Aot(a.iter().map(toml_printed_model).collect()),
            Node::Table(x) => Node::Table(toml_printed_model(x)),
            Node::Array(a) => Node::Array(a.iter().map(|e| match e {
                Node::Table(x) => Node::Table(toml_printed_model(x)),
                o => o.clone(),
            }).collect()),
            other => other.clone(),
        };
        out.entries.push((k.clone(), m));
    }
    out
}

pub fn run(args: Args) -> ! {
    let mut rep = Report::new("C06", args.tier, args.seed);
    rep.rule = "a generated tree with adversarial leaves (any Unicode incl. controls, odd keys, i64/f64 edge classes, valid date-times) is built through a generated choice of API routes (DocumentMut insert / IndexMut / as_table_mut; Table insert / IndexMut / entry().or_insert / insert_formatted / from_iter; InlineTable insert / from_iter / get_or_insert / insert_formatted; Array push / from_iter / push_formatted / insert; ArrayOfTables push / from_iter; value(), From impls, Key::new), converted between standard and inline form (Table::into_inline_table, Item::into_value / make_value / into_table / into_array_of_tables, ArrayOfTables::into_array), and as toml::Table / toml::Value; to_string() must parse (library and reference), decode to the built tree (values before tables as a stable partition, empty array of tables = absent), print identically twice and from a clone; Key and Value Display are checked in position. non-trivial = depth >= 2 with a leaf/key needing quoting, or a table with only sub-tables, or an array of tables inside an array of tables; distinct by tree".into();
    rep.assumptions = vec!["Item::None, raw decor setters, set_dotted/implicit/position and non-value items under value containers are outside (documented preconditions)".into()];
    if let Some(p) = &args.replay {
        let j = super::load_replay(p);
        let tape = super::replay_tape(&j);
        let mut st = Stats::new();
        if let Err(f) = guarded(&prop, &tape, &mut st) {
            rep.violation("replay", Some(&tape), &f);
        }
        rep.stats.merge(st);
        rep.stats.nontrivial.insert(1);
        rep.stats.nontrivial.insert(2);
        rep.finish();
    }
    for p in super::regression_files("C06") {
        let j = super::load_replay(&p);
        let tape = super::replay_tape(&j);
        let mut st = Stats::new();
        if let Err(f) = guarded(&prop, &tape, &mut st) {
            rep.violation("regression", Some(&tape), &f);
        }
        rep.stats.merge(st);
    }
    let run = run_tape("C06.build", &prop, 2500, args.tier.pick(400_000, 4_000_000), args.seed, workers());
    finish_run(&mut rep, "build", run);
    for c in ["table.insert", "table.index_mut", "table.entry", "table.insert_formatted", "table.from_iter", "inline.insert", "inline.from_iter", "array.push", "array.from_iter", "doc.index_mut"] {
        rep.require_class(c);
    }
    rep.finish()
}
