//! C02 — decoded data is exactly what the document says.

use super::Args;
use crate::engine::*;
use crate::gen::{gen_doc, GenCfg};
use crate::model::{self, Cmp, Tbl};
use crate::tape::{fnv64, Tape};
use crate::tomlref::{self, Verdict};
use serde_json::json;

pub fn toml_cmp() -> Cmp {
    if cfg!(feature = "preserve_order") {
        Cmp::EXACT
    } else {
        Cmp::UNORDERED
    }
}

/// every decoding front end must yield `expected`
pub fn check_decode(text: &str, expected: &Tbl, sub: &str) -> Result<(), Failure> {
    let case = || json!({"text": text, "expected": model::tbl_to_json(expected)});
    let im = toml_edit::ImDocument::parse(text)
        .map_err(|e| Failure::new(sub, format!("ImDocument::parse rejects a valid document: {e}\n---\n{text}\n---"), case()))?;
    let m = model::from_imdoc(&im);
    model::diff_tbl(&m, expected, Cmp::EXACT)
        .map_err(|e| Failure::new(sub, format!("ImDocument tree differs from the document's meaning: {e}\n---\n{text}\n---"), case()))?;
    let dm = text.parse::<toml_edit::DocumentMut>()
        .map_err(|e| Failure::new(sub, format!("DocumentMut::from_str rejects: {e}"), case()))?;
    let m = model::from_doc(&dm);
    model::diff_tbl(&m, expected, Cmp::EXACT)
        .map_err(|e| Failure::new(sub, format!("DocumentMut tree differs: {e}\n---\n{text}\n---"), case()))?;
    let v = toml::from_str::<toml::Value>(text)
        .map_err(|e| Failure::new(sub, format!("toml::from_str::<Value> rejects: {e}"), case()))?;
    let m = match model::from_toml_value(&v) {
        model::Node::Table(t) => t,
        _ => return Err(Failure::new(sub, "toml::from_str::<Value> is not a table", case())),
    };
    model::diff_tbl(&m, expected, toml_cmp())
        .map_err(|e| Failure::new(sub, format!("toml::Value tree differs: {e}\n---\n{text}\n---"), case()))?;
    let t = toml::from_str::<toml::Table>(text)
        .map_err(|e| Failure::new(sub, format!("toml::from_str::<Table> rejects: {e}"), case()))?;
    model::diff_tbl(&model::from_toml_table(&t), expected, toml_cmp())
        .map_err(|e| Failure::new(sub, format!("toml::Table tree differs: {e}"), case()))?;
    let v2 = toml_edit::de::from_str::<toml::Value>(text)
        .map_err(|e| Failure::new(sub, format!("toml_edit::de::from_str::<Value> rejects: {e}"), case()))?;
    model::diff(&model::from_toml_value(&v2), &model::Node::Table(expected.clone()), toml_cmp())
        .map_err(|e| Failure::new(sub, format!("toml_edit::de::from_str tree differs: {e}"), case()))?;
    let v3 = toml_edit::de::from_slice::<toml::Value>(text.as_bytes())
        .map_err(|e| Failure::new(sub, format!("toml_edit::de::from_slice::<Value> rejects: {e}"), case()))?;
    model::diff(&model::from_toml_value(&v3), &model::Node::Table(expected.clone()), toml_cmp())
        .map_err(|e| Failure::new(sub, format!("toml_edit::de::from_slice tree differs: {e}"), case()))?;
    Ok(())
}

pub fn harness_fault(msg: String) -> Failure {
    Failure::new("harness", msg, json!({}))
}

fn prop_generated(t: &mut Tape, st: &mut Stats) -> Result<(), Failure> {
    let mut cfg = GenCfg::default();
    cfg.adjacent = t.chance(1, 2);
    cfg.f11_safe = false;
    cfg.decor = t.weighted(&[2, 5, 3]) as u8;
    cfg.budget = 10 + t.below(50);
    if t.chance(1, 12) {
        // wide documents (dozens of tables)
        cfg.many_sections = true;
        cfg.budget = 250 + t.below(250);
    }
    let r = gen_doc(t, &cfg);
    st.eval();
    for c in &r.classes {
        st.class(c);
    }
    if r.noncanonical {
        st.nontrivial(fnv64(r.text.as_bytes()));
    }
    st.sample(|| json!({"text": r.text}));
    // by-construction cross-check of the reference (harness self-test)
    match tomlref::decode(&r.text).0 {
        Verdict::Valid(rt) => {
            if let Err(e) = model::diff_tbl(&rt, &r.expected, Cmp::EXACT) {
                return Err(harness_fault(format!("reference decoder disagrees with the renderer: {e}\n---\n{}\n---", r.text)));
            }
        }
        Verdict::Limit(_) => {
            st.skip("limit");
            return Ok(());
        }
        v => return Err(harness_fault(format!("reference decoder does not accept a generated document: {}\n---\n{}\n---", v.short(), r.text))),
    }
    check_decode(&r.text, &r.expected, "generated")
}

pub fn finish_run(rep: &mut Report, sub: &str, run: TapeRun) {
    if let Some((_, f)) = &run.failure {
        if f.sub == "harness" {
            fault(&format!("{sub}: {}", f.msg));
        }
    }
    rep.absorb(sub, run);
}

pub fn run(args: Args) -> ! {
    let mut rep = Report::new("C02", args.tier, args.seed);
    rep.rule = "tree-first documents: a generated tree of TOML values rendered in a generated spelling (string kinds/escapes, bases, underscores, exponent forms, date-time delimiters, header/dotted/inline/array-of-tables layouts, section orders, whitespace/comments); expected tree known by construction and compared exactly (float bits, key order) with ImDocument, DocumentMut, toml::Value, toml::Table, toml_edit::de::{from_str,from_slice}; plus the 191 valid toml-test fixtures against their expected JSON. non-trivial = the document has at least one non-canonical spelling; distinct by text".into();
    rep.assumptions = vec![
        "expected trees are built by the harness' renderer; the reference decoder must agree with it (exit 2 otherwise)".into(),
        "float spellings are exact decimal re-spellings of std's shortest round-trip digits".into(),
        "toml::Value keys compared as a set unless built with preserve_order".into(),
    ];
    if let Some(p) = &args.replay {
        let j = super::load_replay(p);
        let tape = super::replay_tape(&j);
        let mut st = Stats::new();
        if let Err(f) = guarded(&prop_generated, &tape, &mut st) {
            rep.violation("replay", Some(&tape), &f);
        }
        rep.stats.merge(st);
        rep.stats.nontrivial.insert(1);
        rep.stats.nontrivial.insert(2);
        rep.finish();
    }
    for p in super::regression_files("C02") {
        let j = super::load_replay(&p);
        let tape = super::replay_tape(&j);
        let mut st = Stats::new();
        if let Err(f) = guarded(&prop_generated, &tape, &mut st) {
            rep.violation("regression", Some(&tape), &f);
        }
        rep.stats.merge(st);
    }
    // fixtures
    let fx = crate::corpus::load();
    let bad = crate::corpus::calibrate(&fx);
    if !bad.is_empty() {
        fault(&format!("reference calibration failed: {bad:?}"));
    }
    for f in fx.iter().filter(|f| f.valid) {
        let text = std::str::from_utf8(&f.bytes).unwrap();
        rep.stats.eval();
        rep.stats.class("fixture");
        if let (Verdict::Valid(t), _) = tomlref::decode(text) {
            rep.stats.nontrivial(fnv64(text.as_bytes()));
            if let Err(fl) = check_decode(text, &t, "fixture") {
                rep.violation("fixture", None, &fl);
            }
        }
    }
    let cases = args.tier.pick(250_000, 3_000_000);
    let run = run_tape("C02.generated", &prop_generated, 3000, cases, args.seed, workers());
    finish_run(&mut rep, "generated", run);
    for c in ["str-basic", "str-literal", "str-ml-basic", "str-ml-literal", "str-escape", "line-continuation", "int-hex", "int-oct", "int-bin", "underscore", "float-sci", "float-plain", "float-nan", "float-inf", "dt-offset", "dt-local", "date", "time", "dotted-key", "inline-table", "aot-header", "std-header", "sub-before-super", "quoted-key", "crlf", "crlf-in-ml-string"] {
        rep.require_class(c);
    }
    rep.finish()
}
