//! C02 — decoded data is exactly what the document says.

use super::Args;
use crate::engine::*;
use crate::gen::{gen_doc, GenCfg};
use crate::model::{self, Cmp, Tbl};
use crate::tape::{fnv64, Tape};
use crate::tomlref::{self, Verdict};
use serde_json::json;

pub fn toml_cmp() -> Cmp {
    if cfg!(feature = "preserve_order") {
        Cmp::EXACT
    } else {
        Cmp::UNORDERED
    }
}

/// every decoding front end must yield `expected`
pub fn check_decode(text: &str, expected: &Tbl, sub: &str) -> Result<(), Failure> {
    let case = || json!({"text": text, "expected": model::tbl_to_json(expected)});
    let im = toml_edit::ImDocument::parse(text)
        .map_err(|e| Failure::new(sub, format!("ImDocument::parse rejects a valid document: {e}\n---\n{text}\n---"), case()))?;
    let m = model::from_imdoc(&im);
    model::diff_tbl(&m, expected, Cmp::EXACT)
        .map_err(|e| Failure::new(sub, format!("ImDocument tree differs from the document's meaning: {e}\n---\n{text}\n---"), case()))?;
    let dm = text.parse::<toml_edit::DocumentMut>()
        .map_err(|e| Failure::new(sub, format!("DocumentMut::from_str rejects: {e}"), case()))?;
    let m = model::from_doc(&dm);
    model::diff_tbl(&m, expected, Cmp::EXACT)
        .map_err(|e| Failure::new(sub, format!("DocumentMut tree differs: {e}\n---\n{text}\n---"), case()))?;
    let v = toml::from_str::<toml::Value>(text)
        .map_err(|e| Failure::new(sub, format!("toml::from_str::<Value> rejects: {e}"), case()))?;
    let m = match model::from_toml_value(&v) {
        model::Node::Table(t) => t,
        _ => return Err(Failure::new(sub, "toml::from_str::<Value> is not a table", case())),
    };
    model::diff_tbl(&m, expected, toml_cmp())
        .map_err(|e| Failure::new(sub, format!("toml::Value tree differs: {e}\n---\n{text}\n---"), case()))?;
    let t = toml::from_str::<toml::Table>(text)
        .map_err(|e| Failure::new(sub, format!("toml::from_str::<Table> rejects: {e}"), case()))?;
    model::diff_tbl(&model::from_toml_table(&t), expected, toml_cmp())
        .map_err(|e| Failure::new(sub, format!("toml::Table tree differs: {e}"), case()))?;
    let v2 = toml_edit::de::from_str::<toml::Value>(text)
        .map_err(|e| Failure::new(sub, format!("toml_edit::de::from_str::<Value> rejects: {e}"), case()))?;
    model::diff(&model::from_toml_value(&v2), &model::Node::Table(expected.clone()), toml_cmp())
        .map_err(|e| Failure::new(sub, format!("toml_edit::de::from_str tree differs: {e}"), case()))?;
    let v3 = toml_edit::de::from_slice::<toml::Value>(text.as_bytes())
        .map_err(|e| Failure::new(sub, format!("toml_edit::de::from_slice::<Value> rejects: {e}"), case()))?;
    model::diff(&model::from_toml_value(&v3), &model::Node::Table(expected.clone()), toml_cmp())
        .map_err(|e| Failure::new(sub, format!("toml_edit::de::from_slice tree differs: {e}"), case()))?;
    Ok(())
}

pub fn harness_fault(msg: String) -> Failure {
    Failure::new("harness", msg, json!({}))
}

fn prop_generated(t: &mut Tape, st: &mut Stats) -> Result<(), Failure> {
    let mut cfg = GenCfg::default();
    cfg.adjacent = t.chance(1, 2);
    cfg.f11_safe = false;
    cfg.decor = t.weighted(&[2, 5, 3]) as u8;
    cfg.budget = 10 + t.below(50);
    if t.chance(1, 12) {
        // wide documents (dozens of tables)
        cfg.many_sections = true;
        cfg.budget = 250 + t.below(250);
    }
    let r = gen_doc(t, &cfg);
    st.eval();
    for c in &r.classes {
        st.class(c);
    }
    if r.noncanonical {
        st.nontrivial(fnv64(r.text.as_bytes()));
    }
    st.sample(|| json!({"text": r.text}));
    // by-construction cross-check of the reference (harness self-test)
    match tomlref::decode(&r.text).0 {
        Verdict::Valid(rt) => {
            if let Err(e) = model::diff_tbl(&rt, &r.expected, Cmp::EXACT) {
                return Err(harness_fault(format!("reference decoder disagrees with the renderer: {e}\n---\n{}\n---", r.text)));
            }
        }
        Verdict::Limit(_) => {
            st.skip("limit");
            return Ok(());
        }
        v => return Err(harness_fault(format!("reference decoder does not accept a generated document: {}\n---\n{}\n---", v.short(), r.text))),
    }
    check_decode(&r.text, &r.expected, "generated")?;
    // a number the document says but no i64 / f64 can hold: whatever would be decoded for it is not
    // what the document says, so such a document must not be accepted at all
    if t.chance(1, 8) {
        let lit = out_of_range_literal(t);
        let text = format!("zz-out-of-range = {lit}\n{}", r.text);
        st.class("out-of-range-literal");
        for (who, accepted) in [
            ("DocumentMut", text.parse::<toml_edit::DocumentMut>().is_ok()),
            ("ImDocument", toml_edit::ImDocument::parse(text.as_str()).is_ok()),
            ("toml::Table", text.parse::<toml::Table>().is_ok()),
            ("toml_edit::de::from_str", toml_edit::de::from_str::<toml::Value>(&text).is_ok()),
        ] {
            if accepted {
                let shown = text.parse::<toml::Table>().ok().and_then(|tb| tb.get("zz-out-of-range").map(|v| v.to_string())).unwrap_or_default();
                return Err(Failure::new("out-of-range", format!("{who} accepts the literal {lit}, which no 64-bit integer / double holds (decoded as {shown})"), json!({"text": text, "literal": lit})));
            }
        }
    }
    Ok(())
}

/// an integer literal beyond the signed 64-bit range (any base, signs, underscores, leading zeros
/// where the grammar allows them) or a decimal float beyond the range of a double
fn out_of_range_literal(t: &mut Tape) -> String {
    fn digits(mut v: u128, base: u32) -> String {
        let mut s = String::new();
        loop {
            s.push(std::char::from_digit((v % base as u128) as u32, base).unwrap());
            v /= base as u128;
            if v == 0 {
                break;
            }
        }
        s.chars().rev().collect()
    }
    fn group(d: &str, t: &mut Tape) -> String {
        // underscores between digits
        let mut out = String::new();
        for (i, c) in d.chars().enumerate() {
            if i > 0 && t.chance(1, 6) {
                out.push('_');
            }
            out.push(c);
        }
        out
    }
    let two63 = 1u128 << 63;
    let mag: u128 = match t.below(6) {
        0 => two63 + t.below(4) as u128,
        1 => (1u128 << 64) - 1 - t.below(4) as u128,
        2 => (1u128 << 64) + t.below(4) as u128,
        3 => two63 + (t.u64() as u128 % two63),
        4 => u128::MAX - t.below(4) as u128,
        _ => 10u128.pow(19 + t.below(15) as u32) + t.below(10) as u128,
    };
    match t.below(5) {
        0 => {
            let d = digits(mag, 10);
            format!("{}{}", ["", "+"][t.below(2)], if t.chance(1, 2) { group(&d, t) } else { d })
        }
        1 => {
            // negative: anything below -2^63
            let d = digits(mag.max(two63 + 1), 10);
            format!("-{}", if t.chance(1, 2) { group(&d, t) } else { d })
        }
        2 | 3 => {
            let (pre, base) = *t.pick(&[("0x", 16u32), ("0o", 8), ("0b", 2)]);
            let mut d = digits(mag, base);
            if base == 16 && t.chance(1, 2) {
                d = d.to_uppercase();
            }
            let pad = "0".repeat(t.below(4));
            let d = format!("{pad}{d}");
            format!("{pre}{}", if t.chance(1, 2) { group(&d, t) } else { d })
        }
        _ => {
            let f = *t.pick(&["1e309", "1.7976931348623159e308", "2e308", "1e400", "9e99999", "1_0e3_08", "0.1e310", "17976931348623159e292"]);
            format!("{}{f}", ["", "+", "-"][t.below(3)])
        }
    }
}

pub fn finish_run(rep: &mut Report, sub: &str, run: TapeRun) {
    if let Some((_, f)) = &run.failure {
        if f.sub == "harness" {
            fault(&format!("{sub}: {}", f.msg));
        }
    }
    rep.absorb(sub, run);
}

pub fn run(args: Args) -> ! {
    let mut rep = Report::new("C02", args.tier, args.seed);
    rep.rule = "tree-first documents: a generated tree of TOML values rendered in a generated spelling (string kinds/escapes, bases, underscores, exponent forms, date-time delimiters, header/dotted/inline/array-of-tables layouts, section orders, whitespace/comments); expected tree known by construction and compared exactly (float bits, key order) with ImDocument, DocumentMut, toml::Value, toml::Table, toml_edit::de::{from_str,from_slice}; plus the 191 valid toml-test fixtures against their expected JSON; one generated document in eight also gets a number no i64 / f64 holds (four bases, signs, underscores, padding; overflowing decimal floats) and must then be refused by every entry point. non-trivial = the document has at least one non-canonical spelling; distinct by text".into();
    rep.assumptions = vec![
        "expected trees are built by the harness' renderer; the reference decoder must agree with it (exit 2 otherwise)".into(),
        "float spellings are exact decimal re-spellings of std's shortest round-trip digits".into(),
        "toml::Value keys compared as a set unless built with preserve_order".into(),
    ];
    if let Some(p) = &args.replay {
        let j = super::load_replay(p);
        let tape = super::replay_tape(&j);
        let mut st = Stats::new();
        if let Err(f) = guarded(&prop_generated, &tape, &mut st) {
            rep.violation("replay", Some(&tape), &f);
        }
        rep.stats.merge(st);
        rep.stats.nontrivial.insert(1);
        rep.stats.nontrivial.insert(2);
        rep.finish();
    }
    for p in super::regression_files("C02") {
        let j = super::load_replay(&p);
        let tape = super::replay_tape(&j);
        let mut st = Stats::new();
        if let Err(f) = guarded(&prop_generated, &tape, &mut st) {
            rep.violation("regression", Some(&tape), &f);
        }
        rep.stats.merge(st);
    }
    // fixtures
    let fx = crate::corpus::load();
    let bad = crate::corpus::calibrate(&fx);
    if !bad.is_empty() {
        fault(&format!("reference calibration failed: {bad:?}"));
    }
    for f in fx.iter().filter(|f| f.valid) {
        let text = std::str::from_utf8(&f.bytes).unwrap();
        rep.stats.eval();
        rep.stats.class("fixture");
        if let (Verdict::Valid(t), _) = tomlref::decode(text) {
            rep.stats.nontrivial(fnv64(text.as_bytes()));
            if let Err(fl) = check_decode(text, &t, "fixture") {
                rep.violation("fixture", None, &fl);
            }
        }
    }
    let cases = args.tier.pick(250_000, 3_000_000);
    let run = run_tape("C02.generated", &prop_generated, 3000, cases, args.seed, workers());
    finish_run(&mut rep, "generated", run);
    for c in ["str-basic", "str-literal", "str-ml-basic", "str-ml-literal", "str-escape", "line-continuation", "int-hex", "int-oct", "int-bin", "underscore", "float-sci", "float-plain", "float-nan", "float-inf", "dt-offset", "dt-local", "date", "time", "dotted-key", "inline-table", "aot-header", "std-header", "sub-before-super", "quoted-key", "crlf", "crlf-in-ml-string"] {
        rep.require_class(c);
    }
    rep.finish()
}
