//! C01 — the parser accepts exactly the valid TOML 1.0.0 documents.

use super::c02::{finish_run, harness_fault};
use super::Args;
use crate::engine::*;
use crate::gen::{gen_doc, GenCfg};
use crate::model::{self, Cmp};
use crate::mutate::{mutate, INVALID_HEADERS, INVALID_LINES};
use crate::tape::{fnv64, Tape};
use crate::tomlref::{self, Verdict};
use serde_json::json;
use std::sync::OnceLock;

pub struct LibVerdicts {
    pub doc_mut: Result<toml_edit::DocumentMut, String>,
    pub im: bool,
    pub toml_table: Result<toml::Table, String>,
    pub slice: bool,
}

pub fn lib_verdicts(text: &str) -> LibVerdicts {
    LibVerdicts {
        doc_mut: text.parse::<toml_edit::DocumentMut>().map_err(|e| e.to_string()),
        im: toml_edit::ImDocument::parse(text).is_ok(),
        toml_table: toml::from_str::<toml::Table>(text).map_err(|e| e.to_string()),
        slice: toml_edit::de::from_slice::<toml::Value>(text.as_bytes()).is_ok(),
    }
}

/// The differential on one UTF-8 text. `Ok(class)` tells how the case was classified.
pub fn differential(text: &str, sub: &str) -> Result<&'static str, Failure> {
    if text.contains("$__") {
        return Ok("skip-reserved-key");
    }
    let (v, info) = tomlref::decode(text);
    let lv = lib_verdicts(text);
    let case = || json!({"text": text, "reference": v.short()});
    let a = lv.doc_mut.is_ok();
    if lv.im != a || lv.toml_table.is_ok() != a || lv.slice != a {
        return Err(Failure::new(
            sub,
            format!(
                "front ends disagree: DocumentMut={} ImDocument={} toml::from_str::<Table>={} from_slice={} (reference: {})\n---\n{text}\n---\n{:?} {:?}",
                a, lv.im, lv.toml_table.is_ok(), lv.slice, v.short(), lv.doc_mut.as_ref().err(), lv.toml_table.as_ref().err()
            ),
            case(),
        ));
    }
    if info.bom {
        return Ok("skip-U1.a-bom");
    }
    match &v {
        Verdict::U1(_) => Ok("skip-U1.b"),
        // beyond a documented limit the document *may* be refused; a number no i64 / f64 holds can
        // however not be accepted without decoding something the document does not say (C02, C11)
        Verdict::Limit(l @ ("int" | "float")) => {
            if a {
                Err(Failure::new("tree", format!("a document with a number beyond the range of {} is accepted: whatever is decoded for it is not what the document says\n---\n{text}\n---", if *l == "int" { "a signed 64-bit integer" } else { "a double" }), case()))
            } else if *l == "int" {
                Ok("skip-limit-int")
            } else {
                Ok("skip-limit-float")
            }
        }
        Verdict::Limit(_) => Ok("skip-limit-depth"),
        Verdict::Invalid(reason) => {
            if a {
                Err(Failure::new(sub, format!("false accept: the reference says invalid ({reason}) but the library accepts\n---\n{text}\n---"), case()))
            } else {
                Ok("invalid-rejected")
            }
        }
        Verdict::Valid(tree) => match &lv.doc_mut {
            Err(e) => Err(Failure::new(sub, format!("false reject: valid document rejected: {e}\n---\n{text}\n---"), case())),
            Ok(d) => {
                // C02 on non-tree-first text
                model::diff_tbl(&model::from_doc(d), tree, Cmp::EXACT).map_err(|e| {
                    Failure::new("tree", format!("accepted document decodes differently from the reference: {e}\n---\n{text}\n---"), case())
                })?;
                model::diff_tbl(&model::from_toml_table(lv.toml_table.as_ref().unwrap()), tree, super::c02::toml_cmp()).map_err(|e| {
                    Failure::new("tree", format!("toml::Table decodes differently from the reference: {e}\n---\n{text}\n---"), case())
                })?;
                Ok("valid-accepted")
            }
        },
    }
}

pub fn bytes_check(bytes: &[u8], sub: &str) -> Result<&'static str, Failure> {
    match std::str::from_utf8(bytes) {
        Ok(t) => differential(t, sub),
        Err(_) => {
            if toml_edit::de::from_slice::<toml::Value>(bytes).is_ok() {
                return Err(Failure::new(sub, "from_slice accepts invalid UTF-8", json!({"bytes": bytes})));
            }
            Ok("non-utf8-rejected")
        }
    }
}

fn base_cfg(t: &mut Tape) -> GenCfg {
    let mut cfg = GenCfg::default();
    cfg.adjacent = t.chance(1, 2);
    cfg.f11_safe = false;
    cfg.decor = t.weighted(&[2, 5, 3]) as u8;
    cfg.budget = 6 + t.below(30);
    if t.chance(1, 12) {
        // wide documents (dozens of tables)
        cfg.many_sections = true;
        cfg.budget = 250 + t.below(250);
    }
    cfg
}

fn prop_valid(t: &mut Tape, st: &mut Stats) -> Result<(), Failure> {
    let cfg = base_cfg(t);
    let r = gen_doc(t, &cfg);
    st.eval();
    for c in &r.classes {
        st.class(c);
    }
    if r.statements.len() >= 2 {
        st.nontrivial(fnv64(r.text.as_bytes()));
    }
    let cl = differential(&r.text, "valid")?;
    st.class(cl);
    match cl {
        "valid-accepted" | "skip-U1.a-bom" | "skip-limit-int" | "skip-limit-float" | "skip-limit-depth" => Ok(()),
        other => Err(harness_fault(format!("generated valid document classified {other}\n{}", r.text))),
    }
}

/// documents nested below the limit, however the nesting is composed (arrays, inline tables, dotted
/// keys inside and outside them, header paths): valid, so they must be accepted by every front end.
/// The reference classes cumulative nesting from 64 up as L; everything generated here stays below.
fn nesting_spec(t: &mut Tape) -> super::c05::Spec {
    use super::c05::{Level, Spec};
    let budget = match t.weighted(&[1, 3, 3]) {
        0 => 1 + t.below(20),
        1 => 20 + t.below(30),
        _ => 50 + t.below(14),
    };
    let header = if t.chance(1, 3) { 1 + t.below(63) } else { 0 };
    let aot = t.chance(1, 3);
    let mut used = 0usize;
    let key = if t.chance(1, 3) { 1 + t.below(budget.min(30)) } else { 1 };
    used += key - 1;
    let mut levels = vec![];
    let mode = t.below(4);
    while used < budget {
        let lv = match mode {
            0 => Level::Array,
            1 => Level::Inline { key: 1 },
            2 => {
                if levels.len() % 2 == 0 {
                    Level::Array
                } else {
                    Level::Inline { key: 1 }
                }
            }
            _ => match t.weighted(&[3, 3, 2]) {
                0 => Level::Array,
                1 => Level::Inline { key: 1 },
                _ => Level::Inline { key: 2 + t.below(4) },
            },
        };
        let cost = match &lv {
            Level::Array => 1,
            Level::Inline { key } => *key,
        };
        if used + cost > budget {
            break;
        }
        used += cost;
        levels.push(lv);
    }
    Spec { header, aot, key, levels }
}

fn prop_nesting(t: &mut Tape, st: &mut Stats) -> Result<(), Failure> {
    let sp = nesting_spec(t);
    let mut text = String::new();
    // shallow siblings first: nesting that was left must not count any more
    if t.chance(1, 2) {
        const UNITS: [&str; 10] = ["[]", "{}", "[ ]", "[[]]", "[{}]", "{a={}}", "{a.b=1}", "[1,[2]]", "{ }", "[\n]"];
        let n = match t.below(3) {
            0 => t.below(20),
            1 => 60 + t.below(40),
            _ => 100 + t.below(200),
        };
        let u = *t.pick(&UNITS);
        let mixed = t.chance(1, 3);
        for i in 0..n {
            let u = if mixed { *t.pick(&UNITS) } else { u };
            text.push_str(&format!("p{i} = {u}\n"));
        }
        if n >= 60 {
            st.class("nesting.after>=60-siblings");
        }
    }
    // the nested part goes last only if it has no header (a header would capture what follows)
    text.push_str(&sp.text());
    st.eval();
    let cl = differential(&text, "nesting")?;
    st.class(&format!("nesting.{cl}"));
    let depth = sp.key - 1 + sp.levels.iter().map(|l| match l { super::c05::Level::Array => 1, super::c05::Level::Inline { key } => *key }).sum::<usize>();
    if depth >= 40 && cl == "valid-accepted" {
        st.class("nesting.accepted-depth>=40");
        st.nontrivial(fnv64(text.as_bytes()));
    }
    st.sample(|| json!({"text": text, "depth": depth}));
    match cl {
        "valid-accepted" | "skip-limit-depth" => Ok(()),
        other => Err(harness_fault(format!("nesting document classified {other}\n{text}"))),
    }
}

fn prop_faults(t: &mut Tape, st: &mut Stats) -> Result<(), Failure> {
    let mut cfg = base_cfg(t);
    cfg.allow_bom = false;
    let r = gen_doc(t, &cfg);
    let mut text = r.text.clone();
    let kind;
    match t.weighted(&[6, 2, 2, 2, 1]) {
        0 => {
            if !text.is_empty() && !text.ends_with('\n') {
                text.push('\n');
            }
            let (k, line) = *t.pick(&INVALID_LINES);
            let idx = INVALID_LINES.iter().position(|(kk, _)| *kk == k).unwrap();
            let line = if idx < 55 && !line.contains('\n') && line.starts_with("zz9 = ") {
                let v = &line[6..];
                match t.below(4) {
                    0 => format!("zz9 = [{v}]"),
                    1 => format!("zz9 = {{ q = {v} }}"),
                    2 => format!("zz9 = [1, {{ q = [{v}] }}]"),
                    _ => line.to_string(),
                }
            } else {
                line.to_string()
            };
            text.push_str(&line);
            if t.chance(1, 2) {
                text.push('\n');
            }
            kind = k;
        }
        1 => {
            if !text.is_empty() && !text.ends_with('\n') {
                text.push('\n');
            }
            let (k, line) = *t.pick(&INVALID_HEADERS);
            text.push_str(line);
            text.push('\n');
            kind = k;
        }
        2 => {
            // duplicate a body line right after itself
            let lines: Vec<&crate::gen::EntryFrag> = r.map.entries.iter().filter(|e| !e.in_inline).collect();
            if lines.is_empty() {
                st.skip("no-line-to-duplicate");
                return Ok(());
            }
            let e = *t.pick(&lines);
            let frag = r.text[e.kv.clone()].to_string();
            // insert after the end of the line
            let eol = r.text[e.line.end..].find('\n').map(|i| e.line.end + i + 1);
            match eol {
                Some(p) => text.insert_str(p, &format!("{frag}\n")),
                None => text.push_str(&format!("\n{frag}\n")),
            }
            kind = "duplicate-key";
        }
        3 => {
            // repeat a [table] header at the end
            let secs: Vec<&(crate::gen::Path, std::ops::Range<usize>, std::ops::Range<usize>)> =
                r.map.sections.iter().filter(|s| !s.0.iter().any(|g| matches!(g, crate::gen::Seg::Idx(_)))).collect();
            if secs.is_empty() {
                st.skip("no-header-to-repeat");
                return Ok(());
            }
            let s = *t.pick(&secs);
            let h = r.text[s.1.clone()].to_string();
            if !text.ends_with('\n') {
                text.push('\n');
            }
            text.push_str(&h);
            text.push('\n');
            kind = "repeated-header";
        }
        _ => {
            // forbidden control character inside a comment
            match text.find("#m") {
                Some(p) => {
                    let c = *t.pick(&['\u{0}', '\u{1}', '\u{8}', '\u{b}', '\u{c}', '\u{1f}', '\u{7f}', '\r']);
                    text.insert(p + 1, c);
                    kind = "control-in-comment";
                }
                None => {
                    st.skip("no-comment");
                    return Ok(());
                }
            }
        }
    }
    st.eval();
    st.class(&format!("fault.{kind}"));
    st.nontrivial(fnv64(text.as_bytes()));
    st.sample(|| json!({"fault": kind, "text": text}));
    match tomlref::decode(&text).0 {
        Verdict::Invalid(_) => {}
        v => return Err(harness_fault(format!("labelled fault {kind} but reference says {}\n{text}", v.short()))),
    }
    let cl = differential(&text, "fault")?;
    st.class(cl);
    Ok(())
}

static CORPUS: OnceLock<Vec<Vec<u8>>> = OnceLock::new();

fn prop_mutants(t: &mut Tape, st: &mut Stats) -> Result<(), Failure> {
    let corpus = CORPUS.get().unwrap();
    let from_corpus = t.chance(1, 3);
    let base: Vec<u8> = if from_corpus {
        t.pick(corpus).clone()
    } else {
        let cfg = base_cfg(t);
        gen_doc(t, &cfg).text.into_bytes()
    };
    let other = t.pick(corpus).clone();
    let (m, kinds) = mutate(&base, &other, t);
    st.eval();
    st.class(if from_corpus { "mutant.corpus" } else { "mutant.generated" });
    for k in &kinds {
        st.class(&format!("mutation.{k}"));
    }
    st.nontrivial(fnv64(&m));
    st.sample(|| json!({"mutations": kinds, "text": String::from_utf8_lossy(&m)}));
    let cl = bytes_check(&m, "mutant")?;
    st.class(cl);
    Ok(())
}

pub fn run(args: Args) -> ! {
    let mut rep = Report::new("C01", args.tier, args.seed);
    rep.rule = "four sources: (i) tree-first valid documents in every lexical variant -> must be accepted, plus documents nested 1..63 deep through any composition of arrays, inline tables, dotted keys and header paths (below the limit: must be accepted); (ii) labelled faults (70 invalid line/header shapes in plain, array and inline-table position, duplicated lines, repeated headers, control characters in comments) -> must be rejected; (iii) byte/line/digit-level mutants of generated and corpus documents, judged by the independent reference decoder; (iv) all 562 toml-test fixtures. All four front ends (DocumentMut, ImDocument, toml::from_str::<Table>, toml_edit::de::from_slice) must agree. U1 (BOM, dotted key through header-implicit table) and limit classes are skipped and counted. non-trivial = >= 2 statements (valid) or any mutant/fault; distinct by text".into();
    rep.assumptions = vec![
        "reference decoder tomlref (calibrated on all 562 fixtures at the start of every run; by-construction labels must agree with it)".into(),
        "texts containing `$__` (reserved serde tunnelling key prefix) are skipped".into(),
    ];
    let fx = crate::corpus::load();
    let bad = crate::corpus::calibrate(&fx);
    if !bad.is_empty() {
        fault(&format!("reference calibration failed: {bad:?}"));
    }
    let mut corpus: Vec<Vec<u8>> = fx.iter().map(|f| f.bytes.clone()).collect();
    if let Ok(rd) = std::fs::read_dir("/repo/crates/toml_edit_fuzz/seeds") {
        let mut ps: Vec<_> = rd.filter_map(|e| e.ok()).map(|e| e.path()).collect();
        ps.sort();
        for p in ps {
            if let Ok(b) = std::fs::read(&p) {
                if b.len() < 8192 {
                    corpus.push(b);
                }
            }
        }
    }
    let _ = CORPUS.set(corpus);

    let replay_one = |rep: &mut Report, p: &str, sub: &str| {
        let j = super::load_replay_any(p);
        let mut st = Stats::new();
        // direct text / bytes replay bypasses the generator entirely
        let r = if j["raw"] == true {
            guard(|| bytes_check(&super::case_bytes(&j).unwrap_or_default(), "replay").map(|_| ()))
        } else if let Some(text) = j["case"]["text"].as_str() {
            guard(|| differential(text, "replay").map(|_| ()))
        } else {
            let tape = super::replay_tape(&j);
            match j["sub"].as_str().unwrap_or("") {
                "valid" => guarded(&prop_valid, &tape, &mut st),
                "faults" => guarded(&prop_faults, &tape, &mut st),
                _ => guarded(&prop_mutants, &tape, &mut st),
            }
        };
        if let Err(f) = r {
            rep.violation(sub, None, &f);
        }
        rep.stats.merge(st);
    };
    if let Some(p) = &args.replay {
        replay_one(&mut rep, p, "replay");
        rep.stats.evaluations += 1;
        rep.stats.nontrivial.insert(1);
        rep.stats.nontrivial.insert(2);
        rep.finish();
    }
    for p in super::regression_files("C01") {
        replay_one(&mut rep, &p, "regression");
    }
    // (iv) fixtures, directly
    for f in &fx {
        rep.stats.eval();
        rep.stats.class("fixture");
        rep.stats.nontrivial(fnv64(&f.bytes));
        match guard(|| bytes_check(&f.bytes, "fixture")) {
            Ok(cl) => {
                rep.stats.class(cl);
                let ok = if f.valid { cl == "valid-accepted" } else { matches!(cl, "invalid-rejected" | "non-utf8-rejected" | "skip-limit-int" | "skip-limit-float" | "skip-U1.a-bom") };
                if !ok {
                    fault(&format!("fixture {} classified {cl}", f.name));
                }
            }
            Err(fl) => rep.violation("fixture", None, &fl),
        }
    }
    let w = workers();
    let run = run_tape("C01.valid", &prop_valid, 2500, args.tier.pick(100_000, 2_000_000), args.seed, w);
    finish_run(&mut rep, "valid", run);
    let run = run_tape("C01.nesting", &prop_nesting, 200, args.tier.pick(30_000, 300_000), args.seed, w);
    finish_run(&mut rep, "nesting", run);
    let run = run_tape("C01.faults", &prop_faults, 2500, args.tier.pick(100_000, 2_000_000), args.seed, w);
    finish_run(&mut rep, "faults", run);
    let run = run_tape("C01.mutants", &prop_mutants, 2500, args.tier.pick(1_000_000, 20_000_000), args.seed, w);
    finish_run(&mut rep, "mutants", run);
    if args.tier == Tier::Thorough && rep.violations.is_empty() {
        // coverage-guided campaign with the same differential inside the target
        let seeds: Vec<Vec<u8>> = CORPUS.get().unwrap().iter().filter(|b| b.len() <= 4096).cloned().collect();
        fuzz_campaign(&mut rep, "fuzz_c01", &seeds, 1_500_000, 4096, w);
    }
    for c in ["valid-accepted", "invalid-rejected", "non-utf8-rejected", "fault.duplicate-key", "fault.repeated-header", "fault.control-in-comment", "fault.leading-zero", "fault.feb-30", "fault.empty-header", "mutant.corpus", "mutant.generated", "str-ml-basic", "str-ml-literal", "int-hex", "dt-offset", "aot-header", "nesting.valid-accepted", "nesting.accepted-depth>=40", "nesting.after>=60-siblings"] {
        rep.require_class(c);
    }
    rep.finish()
}
