//! Drivers: proptest `TestRunner` over choice tapes (16 workers), exhaustive enumerators, evidence
//! and replay writers, known-finding bookkeeping.

use crate::tape::Tape;
use proptest::prelude::*;
use proptest::test_runner::{Config, RngSeed, TestCaseError, TestError, TestRunner};
use serde_json::{json, Value as J};
use std::collections::{BTreeMap, HashSet};
use std::sync::atomic::{AtomicBool, Ordering};
use std::sync::Arc;
use std::time::Instant;

pub const VERIF_DIR: &str = "/verif";

#[derive(Clone, Copy, PartialEq, Eq, Debug)]
pub enum Tier {
    Quick,
    Thorough,
}
impl Tier {
    pub fn name(self) -> &'static str {
        match self {
            Tier::Quick => "quick",
            Tier::Thorough => "thorough",
        }
    }
    pub fn pick<T>(self, q: T, t: T) -> T {
        match self {
            Tier::Quick => q,
            Tier::Thorough => t,
        }
    }
}

/// A failed oracle: human-readable message plus the concrete case (JSON) for the replay file.
#[derive(Clone, Debug)]
pub struct Failure {
    pub sub: String,
    pub msg: String,
    pub case: J,
}
impl Failure {
    pub fn new(sub: &str, msg: impl Into<String>, case: J) -> Self {
        Failure { sub: sub.to_string(), msg: msg.into(), case }
    }
}

/// Per-worker statistics; merged at the end of a run.
#[derive(Default)]
pub struct Stats {
    pub counting: bool,
    pub evaluations: u64,
    pub classes: BTreeMap<String, u64>,
    pub nontrivial: HashSet<u64>,
    pub samples: Vec<J>,
    pub max_samples: usize,
    pub known_hit: BTreeMap<String, (u64, String)>,
    pub skipped: BTreeMap<String, u64>,
}
impl Stats {
    pub fn new() -> Self {
        Stats { counting: true, max_samples: 6, ..Default::default() }
    }
    #[inline]
    pub fn eval(&mut self) {
        if self.counting {
            self.evaluations += 1;
        }
    }
    #[inline]
    pub fn evals(&mut self, n: u64) {
        if self.counting {
            self.evaluations += n;
        }
    }
    #[inline]
    pub fn class(&mut self, name: &str) {
        if self.counting {
            if let Some(c) = self.classes.get_mut(name) {
                *c += 1;
            } else {
                self.classes.insert(name.to_string(), 1);
            }
        }
    }
    pub fn class_n(&mut self, name: &str, n: u64) {
        if self.counting && n > 0 {
            *self.classes.entry(name.to_string()).or_insert(0) += n;
        }
    }
    #[inline]
    pub fn nontrivial(&mut self, digest: u64) {
        if self.counting {
            self.nontrivial.insert(digest);
        }
    }
    pub fn skip(&mut self, why: &str) {
        if self.counting {
            *self.skipped.entry(why.to_string()).or_insert(0) += 1;
        }
    }
    /// keep a few samples: the first ones that are offered at geometrically spaced evaluation counts
    pub fn sample(&mut self, f: impl FnOnce() -> J) {
        if self.counting && self.samples.len() < self.max_samples {
            let n = self.evaluations.max(1);
            // take at evaluations 1, 7, 49, 343, ...
            let mut k = 1u64;
            for _ in 0..self.samples.len() {
                k = k.saturating_mul(7);
            }
            if n >= k {
                self.samples.push(f());
            }
        }
    }
    pub fn known(&mut self, finding: &str, what: &str) {
        if self.counting {
            let e = self.known_hit.entry(finding.to_string()).or_insert((0, what.to_string()));
            e.0 += 1;
        }
    }
    pub fn merge(&mut self, o: Stats) {
        self.evaluations += o.evaluations;
        for (k, v) in o.classes {
            *self.classes.entry(k).or_insert(0) += v;
        }
        self.nontrivial.extend(o.nontrivial);
        for s in o.samples {
            if self.samples.len() < self.max_samples.max(6) {
                self.samples.push(s);
            }
        }
        for (k, v) in o.known_hit {
            let e = self.known_hit.entry(k).or_insert((0, v.1.clone()));
            e.0 += v.0;
        }
        for (k, v) in o.skipped {
            *self.skipped.entry(k).or_insert(0) += v;
        }
    }
}

pub type TapeProp = dyn Fn(&mut Tape<'_>, &mut Stats) -> Result<(), Failure> + Sync;

pub struct TapeRun {
    pub stats: Stats,
    /// shrunk tape + failure
    pub failure: Option<(Vec<u32>, Failure)>,
}

thread_local! {
    /// source location of the last panic on this thread (set by the hook `install_panic_hook`)
    pub static LAST_PANIC_AT: std::cell::RefCell<String> = const { std::cell::RefCell::new(String::new()) };
}

/// silence the default panic output (panics inside properties are caught and reported) but keep
/// the location, so that a report can say whether the library or the harness panicked
pub fn install_panic_hook() {
    std::panic::set_hook(Box::new(|info| {
        if let Some(loc) = info.location() {
            let s = format!("{}:{}", loc.file(), loc.line());
            let _ = LAST_PANIC_AT.try_with(|l| *l.borrow_mut() = s);
        }
    }));
}

pub fn last_panic_at() -> String {
    LAST_PANIC_AT.try_with(|l| l.borrow().clone()).unwrap_or_default()
}

fn panic_msg(p: Box<dyn std::any::Any + Send>) -> String {
    let m = if let Some(s) = p.downcast_ref::<&str>() {
        s.to_string()
    } else if let Some(s) = p.downcast_ref::<String>() {
        s.clone()
    } else {
        "non-string panic".to_string()
    };
    let at = last_panic_at();
    if at.is_empty() {
        m
    } else {
        format!("{m} (at {at})")
    }
}

/// Run a property body, converting a panic *anywhere inside it* (library or harness) into a Failure.
pub fn guarded(
    prop: &TapeProp,
    tape: &[u32],
    stats: &mut Stats,
) -> Result<(), Failure> {
    let r = std::panic::catch_unwind(std::panic::AssertUnwindSafe(|| {
        let mut t = Tape::new(tape);
        prop(&mut t, stats)
    }));
    match r {
        Ok(r) => r,
        Err(p) => Err(Failure::new("panic", format!("panic: {}", panic_msg(p)), json!({}))),
    }
}

/// run a check body that is not tape driven (replay of a concrete case, fixture loops): a panic of
/// the library inside it is a failure of the case, not a crash of the harness
pub fn guard<T>(f: impl FnOnce() -> Result<T, Failure>) -> Result<T, Failure> {
    match std::panic::catch_unwind(std::panic::AssertUnwindSafe(f)) {
        Ok(r) => r,
        Err(p) => Err(Failure::new("panic", format!("panic: {}", panic_msg(p)), json!({}))),
    }
}

/// Drive `prop` with proptest over tapes of length 0..=max_tape, `cases` cases in total over
/// `workers` threads. Deterministic in (seed, cases, workers).
pub fn run_tape(
    name: &str,
    prop: &TapeProp,
    max_tape: usize,
    cases: u64,
    seed: u64,
    workers: usize,
) -> TapeRun {
    let stop = Arc::new(AtomicBool::new(false));
    let per = (cases + workers as u64 - 1) / workers as u64;
    let name_h = crate::tape::fnv64(name.as_bytes());
    let results: Vec<(Stats, Option<(Vec<u32>, Failure)>)> = std::thread::scope(|sc| {
        let mut hs = Vec::new();
        for w in 0..workers {
            let stop = stop.clone();
            hs.push(
                std::thread::Builder::new()
                    .stack_size(64 << 20)
                    .spawn_scoped(sc, move || {
                        let stats = Stats::new();
                        let mut sm = crate::tape::SplitMix(
                            seed.wrapping_mul(0x9E3779B97F4A7C15) ^ name_h ^ ((w as u64) << 48),
                        );
                        let cfg = Config {
                            cases: per as u32,
                            rng_seed: RngSeed::Fixed(sm.next()),
                            failure_persistence: None,
                            max_shrink_iters: 3000,
                            max_global_rejects: 1 << 30,
                            ..Config::default()
                        };
                        let mut runner = TestRunner::new(cfg);
                        // length distribution: a mix of short and long tapes
                        let strat = (0usize..4).prop_flat_map(move |k| {
                            let hi = match k {
                                0 => (max_tape / 16).max(8),
                                1 => (max_tape / 4).max(8),
                                _ => max_tape,
                            };
                            proptest::collection::vec(any::<u32>(), 0..=hi)
                        });
                        let failed = std::cell::Cell::new(false);
                        let last_fail: std::cell::RefCell<Option<Failure>> = Default::default();
                        let stats_c = std::cell::RefCell::new(stats);
                        let res = runner.run(&strat, |tape| {
                            if !failed.get() && stop.load(Ordering::Relaxed) {
                                return Ok(());
                            }
                            let mut stats = stats_c.borrow_mut();
                            stats.counting = !failed.get();
                            match guarded(prop, &tape, &mut stats) {
                                Ok(()) => Ok(()),
                                Err(f) => {
                                    failed.set(true);
                                    stop.store(true, Ordering::Relaxed);
                                    let m = f.msg.clone();
                                    *last_fail.borrow_mut() = Some(f);
                                    Err(TestCaseError::fail(m))
                                }
                            }
                        });
                        let mut stats = stats_c.into_inner();
                        let last_fail = last_fail.into_inner();
                        stats.counting = false;
                        let failure = match res {
                            Ok(()) => None,
                            Err(TestError::Fail(_, tape)) => {
                                // post-pass of our own, then recompute the failure on the final tape
                                let tape = shrink_tape(prop, tape, 4000);
                                let mut s2 = Stats::new();
                                s2.counting = false;
                                match guarded(prop, &tape, &mut s2) {
                                    Err(f) => Some((tape, f)),
                                    Ok(()) => last_fail.map(|f| (tape, f)),
                                }
                            }
                            Err(TestError::Abort(r)) => Some((
                                vec![],
                                Failure::new("abort", format!("proptest aborted: {r}"), json!({})),
                            )),
                        };
                        (stats, failure)
                    })
                    .unwrap(),
            );
        }
        hs.into_iter().map(|h| h.join().unwrap()).collect()
    });
    let mut stats = Stats::new();
    let mut failure = None;
    for (s, f) in results {
        stats.merge(s);
        if let Some(f) = f {
            let better = match &failure {
                None => true,
                Some((t, _)) => f.0.len() < Vec::len(t),
            };
            if better {
                failure = Some(f);
            }
        }
    }
    TapeRun { stats, failure }
}

/// Hypothesis-style tape reducer: delete blocks, zero blocks, lower single values.
pub fn shrink_tape(prop: &TapeProp, mut tape: Vec<u32>, budget: usize) -> Vec<u32> {
    let mut used = 0usize;
    let fails = |t: &[u32], used: &mut usize| -> bool {
        *used += 1;
        let mut s = Stats::new();
        s.counting = false;
        guarded(prop, t, &mut s).is_err()
    };
    // trim trailing part never needed
    loop {
        let mut progress = false;
        // delete blocks
        for bs in [64usize, 16, 8, 4, 2, 1] {
            let mut i = 0;
            while i + bs <= tape.len() && used < budget {
                let mut cand = tape.clone();
                cand.drain(i..i + bs);
                if fails(&cand, &mut used) {
                    tape = cand;
                    progress = true;
                } else {
                    i += bs;
                }
            }
        }
        // zero blocks
        for bs in [8usize, 1] {
            let mut i = 0;
            while i + bs <= tape.len() && used < budget {
                if tape[i..i + bs].iter().any(|v| *v != 0) {
                    let mut cand = tape.clone();
                    for v in &mut cand[i..i + bs] {
                        *v = 0;
                    }
                    if fails(&cand, &mut used) {
                        tape = cand;
                        progress = true;
                    }
                }
                i += bs;
            }
        }
        // halve values
        for i in 0..tape.len() {
            while tape[i] != 0 && used < budget {
                let mut cand = tape.clone();
                cand[i] /= 2;
                if fails(&cand, &mut used) {
                    tape = cand;
                    progress = true;
                } else {
                    break;
                }
            }
        }
        while tape.last() == Some(&0) {
            tape.pop();
        }
        if !progress || used >= budget {
            break;
        }
    }
    tape
}

// ------------------------------------------------------------------------------------------------
// Known findings
// ------------------------------------------------------------------------------------------------

#[derive(Clone, Debug)]
pub struct Finding {
    pub id: String,
    pub property: String,
    pub status: String,
    pub what: String,
}

pub fn load_findings() -> Vec<Finding> {
    let p = format!("{VERIF_DIR}/known_findings.json");
    let Ok(s) = std::fs::read_to_string(&p) else { return vec![] };
    let v: J = serde_json::from_str(&s).unwrap_or_else(|e| fault(&format!("known_findings.json: {e}")));
    let mut out = vec![];
    for f in v["findings"].as_array().cloned().unwrap_or_default() {
        out.push(Finding {
            id: f["id"].as_str().unwrap_or("").to_string(),
            property: f["property"].as_str().unwrap_or("").to_string(),
            status: f["status"].as_str().unwrap_or("").to_string(),
            what: f["what"].as_str().unwrap_or("").to_string(),
        });
    }
    out
}

/// Is `finding` listed with status "known" for `property`?
pub fn is_known(findings: &[Finding], property: &str, finding: &str) -> bool {
    findings.iter().any(|f| f.id == finding && f.property.split(',').any(|p| p.trim() == property) && f.status == "known")
}

/// Harness fault / inconclusive: exit code 2, never a VIOLATION.
pub fn fault(msg: &str) -> ! {
    eprintln!("HARNESS-FAULT: {msg}");
    println!("INCONCLUSIVE: {msg}");
    std::process::exit(2)
}

// ------------------------------------------------------------------------------------------------
// Report
// ------------------------------------------------------------------------------------------------

pub struct Report {
    pub property: String,
    pub tier: Tier,
    pub seed: u64,
    pub start: Instant,
    pub stats: Stats,
    pub rule: String,
    pub assumptions: Vec<String>,
    pub extra: serde_json::Map<String, J>,
    pub exhaustive: Option<bool>,
    pub violations: Vec<String>,
    pub findings: Vec<Finding>,
    pub required_classes: Vec<String>,
    pub sub_runs: Vec<J>,
}

impl Report {
    pub fn new(property: &str, tier: Tier, seed: u64) -> Self {
        Report {
            property: property.to_string(),
            tier,
            seed,
            start: Instant::now(),
            stats: Stats::new(),
            rule: String::new(),
            assumptions: vec![],
            extra: Default::default(),
            exhaustive: None,
            violations: vec![],
            findings: load_findings(),
            required_classes: vec![],
            sub_runs: vec![],
        }
    }

    pub fn is_known(&self, finding: &str) -> bool {
        is_known(&self.findings, &self.property, finding)
    }

    /// Record a violation: write a replay file, print the VIOLATION line.
    pub fn violation(&mut self, sub: &str, tape: Option<&[u32]>, f: &Failure) {
        if self.violations.len() >= 8 {
            // enough replay files; keep counting
            self.violations.push(String::new());
            return;
        }
        let dir = format!("{VERIF_DIR}/violations");
        let _ = std::fs::create_dir_all(&dir);
        let path = format!(
            "{dir}/{}-{}-{}-{}.json",
            self.property,
            sub,
            self.seed,
            self.violations.len()
        );
        let j = json!({
            "property": self.property,
            "sub": sub,
            "oracle": f.sub,
            "seed": self.seed,
            "tier": self.tier.name(),
            "message": f.msg,
            "tape": tape,
            "case": f.case,
        });
        std::fs::write(&path, serde_json::to_string_pretty(&j).unwrap()).unwrap();
        println!("VIOLATION property={} replay={}", self.property, path);
        println!("  sub-check: {sub} / {}", f.sub);
        let m: String = f.msg.chars().take(1500).collect();
        println!("  {m}");
        self.violations.push(path);
    }

    /// Merge the result of a tape run; failures become violations.
    pub fn absorb(&mut self, sub: &str, run: TapeRun) {
        let evals = run.stats.evaluations;
        let nt = run.stats.nontrivial.len();
        self.stats.merge(run.stats);
        self.sub_runs.push(json!({"sub": sub, "evaluations": evals, "distinct_nontrivial": nt}));
        if let Some((tape, f)) = run.failure {
            self.violation(sub, Some(&tape), &f);
        }
    }

    pub fn require_class(&mut self, c: &str) {
        self.required_classes.push(c.to_string());
    }

    /// Write evidence, print summary lines, and exit with the right status.
    pub fn finish(mut self) -> ! {
        let wall = self.start.elapsed().as_secs_f64();
        // known findings: print one line per listed finding that was exercised
        let mut known_out = vec![];
        for (id, (n, what)) in &self.stats.known_hit {
            if is_known(&self.findings, &self.property, id) {
                println!("KNOWN-FINDING: property={} {} {} (hit {} times)", self.property, id, what, n);
                known_out.push(json!({"id": id, "hits": n, "what": what}));
            }
        }
        let mut missing = vec![];
        for c in &self.required_classes {
            if self.stats.classes.get(c).copied().unwrap_or(0) == 0 {
                missing.push(c.clone());
            }
        }
        let mut coverage = serde_json::Map::new();
        coverage.insert("evaluations".into(), json!(self.stats.evaluations));
        coverage.insert("distinct_nontrivial".into(), json!(self.stats.nontrivial.len()));
        coverage.insert("rule".into(), json!(self.rule));
        coverage.insert("samples".into(), json!(self.stats.samples));
        coverage.insert("classes".into(), json!(self.stats.classes));
        coverage.insert("skipped".into(), json!(self.stats.skipped));
        coverage.insert("known_findings_hit".into(), json!(known_out));
        coverage.insert("sub_runs".into(), json!(self.sub_runs));
        coverage.insert("required_classes".into(), json!(self.required_classes));
        if let Some(e) = self.exhaustive {
            coverage.insert("exhaustive".into(), json!(e));
        }
        for (k, v) in std::mem::take(&mut self.extra) {
            coverage.insert(k, v);
        }
        let ev = json!({
            "property_id": self.property,
            "tier": self.tier.name(),
            "seed": self.seed,
            "level": "exploration",
            "coverage": coverage,
            "assumptions": self.assumptions,
            "wall_s": wall,
            "violations": self.violations.len(),
        });
        let dir = format!("{VERIF_DIR}/evidence");
        let _ = std::fs::create_dir_all(&dir);
        std::fs::write(
            format!("{dir}/{}.json", self.property),
            serde_json::to_string_pretty(&ev).unwrap(),
        )
        .unwrap();
        println!(
            "{} {}: evaluations={} distinct_nontrivial={} violations={} wall={:.1}s",
            self.property,
            self.tier.name(),
            self.stats.evaluations,
            self.stats.nontrivial.len(),
            self.violations.len(),
            wall
        );
        if !self.violations.is_empty() {
            std::process::exit(1);
        }
        if !missing.is_empty() {
            fault(&format!("required classes never generated: {missing:?}"));
        }
        std::process::exit(0)
    }
}

/// Run `f(i)` for i in 0..n over `workers` threads (static interleaved partition), merging stats;
/// returns the failure with the smallest index, so that enumerations report the first (shortest)
/// counterexample deterministically.
pub fn par_enumerate<F>(n: u64, workers: usize, f: F) -> (Stats, Option<(u64, Failure)>)
where
    F: Fn(u64, &mut Stats) -> Result<(), Failure> + Sync,
{
    let results: Vec<(Stats, Option<(u64, Failure)>)> = std::thread::scope(|sc| {
        let mut hs = vec![];
        for w in 0..workers {
            let f = &f;
            hs.push(
                std::thread::Builder::new()
                    .stack_size(64 << 20)
                    .spawn_scoped(sc, move || {
                        let mut st = Stats::new();
                        let mut fail = None;
                        let mut i = w as u64;
                        while i < n {
                            let r = std::panic::catch_unwind(std::panic::AssertUnwindSafe(|| f(i, &mut st)));
                            let r = match r {
                                Ok(r) => r,
                                Err(p) => Err(Failure::new(
                                    "panic",
                                    format!("panic: {}", panic_msg(p)),
                                    json!({"index": i}),
                                )),
                            };
                            if let Err(e) = r {
                                fail = Some((i, e));
                                break;
                            }
                            i += workers as u64;
                        }
                        (st, fail)
                    })
                    .unwrap(),
            );
        }
        hs.into_iter().map(|h| h.join().unwrap()).collect()
    });
    let mut stats = Stats::new();
    let mut fail: Option<(u64, Failure)> = None;
    for (s, f) in results {
        stats.merge(s);
        if let Some(f) = f {
            if fail.as_ref().map(|x| f.0 < x.0).unwrap_or(true) {
                fail = Some(f);
            }
        }
    }
    (stats, fail)
}

pub fn workers() -> usize {
    std::env::var("VERIF_WORKERS").ok().and_then(|s| s.parse().ok()).unwrap_or(16)
}


// ------------------------------------------------------------------------------------------------
// coverage-guided campaigns (thorough tier): run a pre-built cargo-fuzz target with the oracle
// inside, fresh corpus seeded from files, fixed number of runs per job
// ------------------------------------------------------------------------------------------------

pub struct FuzzResult {
    pub executed: u64,
    pub corpus_files: u64,
    pub crashes: Vec<String>,
}

pub fn fuzz_campaign(rep: &mut Report, target: &str, seeds: &[Vec<u8>], runs_per_job: u64, max_len: usize, jobs: usize) {
    let bin = format!("{VERIF_DIR}/harness/fuzz/target/x86_64-unknown-linux-gnu/release/{target}");
    if !std::path::Path::new(&bin).exists() {
        fault(&format!("{bin} not built (the check script builds the fuzz targets for the thorough tier)"));
    }
    let work = format!("{VERIF_DIR}/harness/fuzz/work/{target}-{}", std::process::id());
    let corpus = format!("{work}/corpus");
    let art = format!("{work}/artifacts/");
    let _ = std::fs::remove_dir_all(&work);
    std::fs::create_dir_all(&corpus).unwrap_or_else(|e| fault(&format!("mkdir {corpus}: {e}")));
    std::fs::create_dir_all(&art).unwrap();
    for (i, s) in seeds.iter().enumerate() {
        let _ = std::fs::write(format!("{corpus}/seed-{i:05}"), s);
    }
    let o = std::process::Command::new(&bin)
        .current_dir(&work)
        .args([
            corpus.as_str(),
            &format!("-artifact_prefix={art}"),
            &format!("-runs={runs_per_job}"),
            &format!("-seed={}", rep.seed.wrapping_add(1)),
            &format!("-max_len={max_len}"),
            "-len_control=0",
            "-print_final_stats=1",
            "-timeout=20",
            "-rss_limit_mb=4096",
            &format!("-jobs={jobs}"),
            &format!("-workers={jobs}"),
        ])
        .env("ASAN_OPTIONS", "detect_leaks=0:abort_on_error=1")
        .output()
        .unwrap_or_else(|e| fault(&format!("cannot run {bin}: {e}")));
    let _ = o;
    // libFuzzer writes one log per job: fuzz-<n>.log
    let mut executed = 0u64;
    if let Ok(rd) = std::fs::read_dir(&work) {
        for e in rd.filter_map(|e| e.ok()) {
            let p = e.path();
            if p.extension().map(|x| x == "log").unwrap_or(false) {
                if let Ok(s) = std::fs::read_to_string(&p) {
                    for l in s.lines() {
                        if let Some(n) = l.strip_prefix("stat::number_of_executed_units:") {
                            executed += n.trim().parse::<u64>().unwrap_or(0);
                        }
                    }
                }
            }
        }
    }
    let corpus_files = std::fs::read_dir(&corpus).map(|rd| rd.count() as u64).unwrap_or(0);
    let mut crashes = vec![];
    if let Ok(rd) = std::fs::read_dir(&art) {
        for e in rd.filter_map(|e| e.ok()) {
            let name = e.file_name().to_string_lossy().to_string();
            let keep = format!("{VERIF_DIR}/violations/{}-{target}-{name}", rep.property);
            let _ = std::fs::create_dir_all(format!("{VERIF_DIR}/violations"));
            let _ = std::fs::copy(e.path(), &keep);
            if name.starts_with("crash-") || name.starts_with("oom-") {
                crashes.push(keep);
            } else if name.starts_with("timeout-") || name.starts_with("slow-unit-") {
                // a time budget hit is inconclusive, never a violation
                println!("INCONCLUSIVE: {target} reported {name} (saved as {keep})");
            }
        }
    }
    rep.stats.evaluations += executed;
    rep.stats.class_n(&format!("fuzz.{target}.executed"), executed);
    rep.stats.class_n(&format!("fuzz.{target}.corpus"), corpus_files);
    rep.sub_runs.push(serde_json::json!({"sub": format!("libfuzzer {target}"), "evaluations": executed, "corpus_files_at_end": corpus_files, "jobs": jobs, "runs_per_job": runs_per_job}));
    for c in &crashes {
        println!("VIOLATION property={} replay={c}", rep.property);
        println!("  sub-check: coverage-guided {target} (oracle inside the target); replay with ./check {} --replay {c}", rep.property);
        rep.violations.push(c.clone());
    }
    if executed == 0 {
        fault(&format!("{target}: no executions recorded (see {work})"));
    }
    if crashes.is_empty() {
        let _ = std::fs::remove_dir_all(&work);
    }
}
