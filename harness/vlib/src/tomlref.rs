//! `tomlref` — an independent, deliberately plain TOML 1.0.0 reader.
//!
//! Layer 1 (`parse_syntax`): hand-written recursive descent over the bytes of a `&str`, following
//! toml.abnf rule by rule, producing a list of statements with spans.
//! Layer 2 (`apply_statements`): the definition rules of DESIGN.md Appendix A as a state machine
//! over table states {Explicit, HeaderImplicit, Dotted} plus closed values.
//!
//! It shares no code with /repo (no winnow, no toml_datetime parsing).

use crate::model::{Dt, Node, Off, Tbl, TblKind};
use std::ops::Range;

#[derive(Clone, Debug)]
pub enum Verdict {
    Valid(Tbl),
    Invalid(String),
    /// validity undecided by the specification (DESIGN.md section 3, class U1)
    U1(&'static str),
    /// valid text that an implementation may refuse (class L)
    Limit(&'static str),
}

impl Verdict {
    pub fn short(&self) -> String {
        match self {
            Verdict::Valid(_) => "valid".into(),
            Verdict::Invalid(r) => format!("invalid({r})"),
            Verdict::U1(c) => format!("U1({c})"),
            Verdict::Limit(c) => format!("limit({c})"),
        }
    }
    pub fn is_valid(&self) -> bool {
        matches!(self, Verdict::Valid(_))
    }
    pub fn is_invalid(&self) -> bool {
        matches!(self, Verdict::Invalid(_))
    }
}

#[derive(Clone, Debug)]
pub struct KeyTok {
    pub name: String,
    pub span: Range<usize>,
    /// 0 bare, 1 basic, 2 literal
    pub style: u8,
}

#[derive(Clone, Debug)]
pub enum ValKind {
    Scalar(Node),
    Array(Vec<Val>),
    Inline(Vec<(Vec<KeyTok>, Val)>),
}
#[derive(Clone, Debug)]
pub struct Val {
    pub kind: ValKind,
    pub span: Range<usize>,
}

#[derive(Clone, Debug)]
pub enum Stmt {
    Header { path: Vec<KeyTok>, aot: bool, span: Range<usize> },
    KeyVal { path: Vec<KeyTok>, val: Val, span: Range<usize> },
}

#[derive(Clone, Debug, Default)]
pub struct Info {
    pub bom: bool,
    pub statements: usize,
    /// byte ranges of the bodies of multi-line strings (between the delimiters)
    pub ml_bodies: Vec<Range<usize>>,
    pub comments: Vec<Range<usize>>,
    pub max_depth: usize,
    /// the last statement line is not terminated by a newline
    pub last_stmt_unterminated: bool,
    pub limit: Option<&'static str>,
    pub has_crlf: bool,
}

/// nesting at or beyond this depth is classed `Limit("depth")` (the library's limit is 80 per
/// construct; anything from 64 up is simply not judged by C01)
pub const DEPTH_SOFT: usize = 64;
const DEPTH_HARD: usize = 300;

struct P<'a> {
    s: &'a str,
    b: &'a [u8],
    pos: usize,
    info: Info,
    depth: usize,
}

type R<T> = Result<T, String>;

impl<'a> P<'a> {
    fn peek(&self) -> Option<u8> {
        self.b.get(self.pos).copied()
    }
    fn peek_at(&self, off: usize) -> Option<u8> {
        self.b.get(self.pos + off).copied()
    }
    fn starts(&self, lit: &str) -> bool {
        self.b[self.pos..].starts_with(lit.as_bytes())
    }
    fn err<T>(&self, msg: &str) -> R<T> {
        Err(format!("{msg} at byte {}", self.pos))
    }
    fn ws(&mut self) {
        while let Some(c) = self.peek() {
            if c == b' ' || c == b'\t' {
                self.pos += 1;
            } else {
                break;
            }
        }
    }
    /// newline = LF / CRLF ; returns true if one was consumed
    fn newline(&mut self) -> bool {
        match self.peek() {
            Some(b'\n') => {
                self.pos += 1;
                true
            }
            Some(b'\r') if self.peek_at(1) == Some(b'\n') => {
                self.pos += 2;
                self.info.has_crlf = true;
                true
            }
            _ => false,
        }
    }
    fn cur_char(&self) -> Option<char> {
        self.s[self.pos..].chars().next()
    }
    /// comment = "#" *non-eol ; control characters other than tab (and DEL) are not permitted
    fn comment(&mut self) -> R<bool> {
        if self.peek() != Some(b'#') {
            return Ok(false);
        }
        let start = self.pos;
        self.pos += 1;
        loop {
            match self.peek() {
                None => break,
                Some(b'\n') => break,
                Some(b'\r') => {
                    if self.peek_at(1) == Some(b'\n') {
                        break;
                    }
                    return self.err("bare CR in comment");
                }
                Some(b'\t') => self.pos += 1,
                Some(c) if c < 0x20 || c == 0x7f => return self.err("control character in comment"),
                Some(c) if c < 0x80 => self.pos += 1,
                Some(_) => self.pos += self.cur_char().unwrap().len_utf8(),
            }
        }
        self.info.comments.push(start..self.pos);
        Ok(true)
    }
    /// ws [comment] (newline | EOF)
    fn line_end(&mut self) -> R<bool> {
        self.ws();
        self.comment()?;
        if self.pos >= self.b.len() {
            return Ok(false);
        }
        if self.newline() {
            return Ok(true);
        }
        self.err("expected newline or end of input")
    }
    /// ws-comment-newline = *( wschar / [ comment ] newline )
    fn ws_comment_newline(&mut self) -> R<()> {
        loop {
            self.ws();
            if self.comment()? {
                // a comment must be followed by newline (or EOF, which the caller rejects)
                if !self.newline() {
                    if self.pos >= self.b.len() {
                        return Ok(());
                    }
                    return self.err("expected newline after comment");
                }
                continue;
            }
            if self.newline() {
                continue;
            }
            return Ok(());
        }
    }

    fn document(&mut self) -> R<Vec<Stmt>> {
        let mut out = vec![];
        if self.s.starts_with('\u{feff}') {
            self.info.bom = true;
            self.pos = 3;
        }
        loop {
            self.ws();
            match self.peek() {
                None => break,
                Some(b'[') => {
                    let st = self.header()?;
                    out.push(st);
                    let nl = self.line_end()?;
                    self.info.last_stmt_unterminated = !nl;
                }
                Some(b'#') | Some(b'\n') | Some(b'\r') => {
                    let nl = self.line_end()?;
                    let _ = nl;
                }
                Some(_) => {
                    let start = self.pos;
                    let (path, val) = self.keyval()?;
                    let span = start..self.pos;
                    out.push(Stmt::KeyVal { path, val, span });
                    let nl = self.line_end()?;
                    self.info.last_stmt_unterminated = !nl;
                }
            }
        }
        self.info.statements = out.len();
        Ok(out)
    }

    fn header(&mut self) -> R<Stmt> {
        let start = self.pos;
        self.pos += 1;
        let aot = self.peek() == Some(b'[');
        if aot {
            self.pos += 1;
        }
        self.ws();
        let path = self.key()?;
        self.ws();
        if self.peek() != Some(b']') {
            return self.err("expected `]`");
        }
        self.pos += 1;
        if aot {
            if self.peek() != Some(b']') {
                return self.err("expected `]]`");
            }
            self.pos += 1;
        }
        self.note_depth(path.len());
        Ok(Stmt::Header { path, aot, span: start..self.pos })
    }

    fn note_depth(&mut self, d: usize) {
        if d > self.info.max_depth {
            self.info.max_depth = d;
        }
        if d >= DEPTH_SOFT {
            self.info.limit.get_or_insert("depth");
        }
    }

    fn keyval(&mut self) -> R<(Vec<KeyTok>, Val)> {
        let path = self.key()?;
        self.note_depth(self.depth + path.len());
        self.ws();
        if self.peek() != Some(b'=') {
            return self.err("expected `=`");
        }
        self.pos += 1;
        self.ws();
        // the tables a dotted key creates nest its value: depth is cumulative (as in the library
        // since the F9 repair), so that class L is decided on the true nesting of the tree
        let extra = path.len() - 1;
        self.depth += extra;
        let val = self.value();
        self.depth -= extra;
        Ok((path, val?))
    }

    /// key = simple-key / dotted-key
    fn key(&mut self) -> R<Vec<KeyTok>> {
        let mut out = vec![self.simple_key()?];
        loop {
            let save = self.pos;
            self.ws();
            if self.peek() == Some(b'.') {
                self.pos += 1;
                self.ws();
                out.push(self.simple_key()?);
                if out.len() > DEPTH_HARD {
                    return Err("#hard-depth".into());
                }
            } else {
                self.pos = save;
                break;
            }
        }
        Ok(out)
    }

    fn simple_key(&mut self) -> R<KeyTok> {
        let start = self.pos;
        match self.peek() {
            Some(b'"') => {
                if self.starts("\"\"\"") {
                    return self.err("multi-line string as key");
                }
                let s = self.basic_string()?;
                Ok(KeyTok { name: s, span: start..self.pos, style: 1 })
            }
            Some(b'\'') => {
                if self.starts("'''") {
                    return self.err("multi-line string as key");
                }
                let s = self.literal_string()?;
                Ok(KeyTok { name: s, span: start..self.pos, style: 2 })
            }
            _ => {
                while let Some(c) = self.peek() {
                    if c.is_ascii_alphanumeric() || c == b'_' || c == b'-' {
                        self.pos += 1;
                    } else {
                        break;
                    }
                }
                if self.pos == start {
                    return self.err("expected key");
                }
                Ok(KeyTok { name: self.s[start..self.pos].to_string(), span: start..self.pos, style: 0 })
            }
        }
    }

    fn escape(&mut self, out: &mut String) -> R<()> {
        // at the character after the backslash
        let c = match self.peek() {
            Some(c) => c,
            None => return self.err("unterminated escape"),
        };
        self.pos += 1;
        match c {
            b'b' => out.push('\u{8}'),
            b't' => out.push('\t'),
            b'n' => out.push('\n'),
            b'f' => out.push('\u{c}'),
            b'r' => out.push('\r'),
            b'"' => out.push('"'),
            b'\\' => out.push('\\'),
            b'u' | b'U' => {
                let n = if c == b'u' { 4 } else { 8 };
                let mut v: u32 = 0;
                for _ in 0..n {
                    let d = match self.peek() {
                        Some(d) if d.is_ascii_hexdigit() => (d as char).to_digit(16).unwrap(),
                        _ => return self.err("bad unicode escape"),
                    };
                    self.pos += 1;
                    v = v * 16 + d;
                }
                match char::from_u32(v) {
                    Some(ch) => out.push(ch),
                    None => return self.err("escape is not a unicode scalar value"),
                }
            }
            _ => {
                self.pos -= 1;
                return self.err("unknown escape");
            }
        }
        Ok(())
    }

    fn basic_string(&mut self) -> R<String> {
        self.pos += 1;
        let mut out = String::new();
        loop {
            let c = match self.peek() {
                Some(c) => c,
                None => return self.err("unterminated basic string"),
            };
            match c {
                b'"' => {
                    self.pos += 1;
                    return Ok(out);
                }
                b'\\' => {
                    self.pos += 1;
                    self.escape(&mut out)?;
                }
                b'\t' => {
                    out.push('\t');
                    self.pos += 1;
                }
                c if c < 0x20 || c == 0x7f => return self.err("control character in basic string"),
                c if c < 0x80 => {
                    out.push(c as char);
                    self.pos += 1;
                }
                _ => {
                    let ch = self.cur_char().unwrap();
                    out.push(ch);
                    self.pos += ch.len_utf8();
                }
            }
        }
    }

    fn literal_string(&mut self) -> R<String> {
        self.pos += 1;
        let start = self.pos;
        loop {
            let c = match self.peek() {
                Some(c) => c,
                None => return self.err("unterminated literal string"),
            };
            match c {
                b'\'' => {
                    let s = self.s[start..self.pos].to_string();
                    self.pos += 1;
                    return Ok(s);
                }
                b'\t' => self.pos += 1,
                c if c < 0x20 || c == 0x7f => return self.err("control character in literal string"),
                c if c < 0x80 => self.pos += 1,
                _ => self.pos += self.cur_char().unwrap().len_utf8(),
            }
        }
    }

    fn ml_basic_string(&mut self) -> R<String> {
        self.pos += 3;
        let body_start = self.pos;
        // first newline trimmed
        self.newline();
        let mut out = String::new();
        loop {
            let c = match self.peek() {
                Some(c) => c,
                None => return self.err("unterminated multi-line basic string"),
            };
            match c {
                b'"' => {
                    let mut n = 0;
                    while self.peek_at(n) == Some(b'"') {
                        n += 1;
                    }
                    if n < 3 {
                        for _ in 0..n {
                            out.push('"');
                        }
                        self.pos += n;
                    } else {
                        let extra = (n - 3).min(2);
                        for _ in 0..extra {
                            out.push('"');
                        }
                        self.pos += extra;
                        self.info.ml_bodies.push(body_start..self.pos);
                        self.pos += 3;
                        return Ok(out);
                    }
                }
                b'\\' => {
                    self.pos += 1;
                    // mlb-escaped-nl = escape ws newline *( wschar / newline )
                    let save = self.pos;
                    self.ws();
                    if self.newline() {
                        loop {
                            self.ws();
                            if !self.newline() {
                                break;
                            }
                        }
                    } else {
                        self.pos = save;
                        self.escape(&mut out)?;
                    }
                }
                b'\n' => {
                    out.push('\n');
                    self.pos += 1;
                }
                b'\r' => {
                    if self.peek_at(1) == Some(b'\n') {
                        // U2.a: normalised to LF
                        out.push('\n');
                        self.pos += 2;
                        self.info.has_crlf = true;
                    } else {
                        return self.err("bare CR in multi-line basic string");
                    }
                }
                b'\t' => {
                    out.push('\t');
                    self.pos += 1;
                }
                c if c < 0x20 || c == 0x7f => {
                    return self.err("control character in multi-line basic string")
                }
                c if c < 0x80 => {
                    out.push(c as char);
                    self.pos += 1;
                }
                _ => {
                    let ch = self.cur_char().unwrap();
                    out.push(ch);
                    self.pos += ch.len_utf8();
                }
            }
        }
    }

    fn ml_literal_string(&mut self) -> R<String> {
        self.pos += 3;
        let body_start = self.pos;
        self.newline();
        let mut out = String::new();
        loop {
            let c = match self.peek() {
                Some(c) => c,
                None => return self.err("unterminated multi-line literal string"),
            };
            match c {
                b'\'' => {
                    let mut n = 0;
                    while self.peek_at(n) == Some(b'\'') {
                        n += 1;
                    }
                    if n < 3 {
                        for _ in 0..n {
                            out.push('\'');
                        }
                        self.pos += n;
                    } else {
                        let extra = (n - 3).min(2);
                        for _ in 0..extra {
                            out.push('\'');
                        }
                        self.pos += extra;
                        self.info.ml_bodies.push(body_start..self.pos);
                        self.pos += 3;
                        return Ok(out);
                    }
                }
                b'\n' => {
                    out.push('\n');
                    self.pos += 1;
                }
                b'\r' => {
                    if self.peek_at(1) == Some(b'\n') {
                        out.push('\n');
                        self.pos += 2;
                        self.info.has_crlf = true;
                    } else {
                        return self.err("bare CR in multi-line literal string");
                    }
                }
                b'\t' => {
                    out.push('\t');
                    self.pos += 1;
                }
                c if c < 0x20 || c == 0x7f => {
                    return self.err("control character in multi-line literal string")
                }
                c if c < 0x80 => {
                    out.push(c as char);
                    self.pos += 1;
                }
                _ => {
                    let ch = self.cur_char().unwrap();
                    out.push(ch);
                    self.pos += ch.len_utf8();
                }
            }
        }
    }

    fn value(&mut self) -> R<Val> {
        let start = self.pos;
        let kind = match self.peek() {
            None => return self.err("expected value"),
            Some(b'"') => {
                if self.starts("\"\"\"") {
                    ValKind::Scalar(Node::Str(self.ml_basic_string()?))
                } else {
                    ValKind::Scalar(Node::Str(self.basic_string()?))
                }
            }
            Some(b'\'') => {
                if self.starts("'''") {
                    ValKind::Scalar(Node::Str(self.ml_literal_string()?))
                } else {
                    ValKind::Scalar(Node::Str(self.literal_string()?))
                }
            }
            Some(b'[') => {
                self.depth += 1;
                self.note_depth(self.depth);
                if self.depth > DEPTH_HARD {
                    return Err("#hard-depth".into());
                }
                let a = self.array()?;
                self.depth -= 1;
                ValKind::Array(a)
            }
            Some(b'{') => {
                self.depth += 1;
                self.note_depth(self.depth);
                if self.depth > DEPTH_HARD {
                    return Err("#hard-depth".into());
                }
                let t = self.inline_table()?;
                self.depth -= 1;
                ValKind::Inline(t)
            }
            Some(_) => {
                // maximal run of characters that cannot end a value
                let mut end = self.pos;
                while let Some(&c) = self.b.get(end) {
                    if matches!(c, b' ' | b'\t' | b'\r' | b'\n' | b',' | b']' | b'}' | b'#') {
                        break;
                    }
                    end += 1;
                }
                // time-delim may be a single space: `1979-05-27 07:32:00`
                if end - self.pos == 10
                    && self.b.get(end) == Some(&b' ')
                    && self.b.get(end + 1).map(|c| c.is_ascii_digit()).unwrap_or(false)
                    && is_full_date_shape(&self.b[self.pos..end])
                {
                    end += 1;
                    while let Some(&c) = self.b.get(end) {
                        if matches!(c, b' ' | b'\t' | b'\r' | b'\n' | b',' | b']' | b'}' | b'#') {
                            break;
                        }
                        end += 1;
                    }
                }
                if end == self.pos {
                    return self.err("expected value");
                }
                if !self.s.is_char_boundary(end) {
                    return self.err("bad token");
                }
                let tok = &self.s[self.pos..end];
                let node = match scalar_token(tok) {
                    Ok(Tok::Node(n)) => n,
                    Ok(Tok::Limit(kind, n)) => {
                        self.info.limit.get_or_insert(kind);
                        n
                    }
                    Err(e) => return Err(format!("{e} at byte {}", self.pos)),
                };
                self.pos = end;
                ValKind::Scalar(node)
            }
        };
        Ok(Val { kind, span: start..self.pos })
    }

    fn array(&mut self) -> R<Vec<Val>> {
        self.pos += 1;
        let mut out = vec![];
        loop {
            self.ws_comment_newline()?;
            match self.peek() {
                None => return self.err("unterminated array"),
                Some(b']') => {
                    self.pos += 1;
                    return Ok(out);
                }
                _ => {}
            }
            out.push(self.value()?);
            self.ws_comment_newline()?;
            match self.peek() {
                Some(b',') => {
                    self.pos += 1;
                }
                Some(b']') => {
                    self.pos += 1;
                    return Ok(out);
                }
                _ => return self.err("expected `,` or `]` in array"),
            }
        }
    }

    fn inline_table(&mut self) -> R<Vec<(Vec<KeyTok>, Val)>> {
        self.pos += 1;
        let mut out = vec![];
        self.ws();
        if self.peek() == Some(b'}') {
            self.pos += 1;
            return Ok(out);
        }
        loop {
            self.ws();
            let kv = self.keyval()?;
            out.push(kv);
            self.ws();
            match self.peek() {
                Some(b',') => {
                    self.pos += 1;
                }
                Some(b'}') => {
                    self.pos += 1;
                    return Ok(out);
                }
                _ => return self.err("expected `,` or `}` in inline table"),
            }
        }
    }
}

fn is_full_date_shape(b: &[u8]) -> bool {
    b.len() == 10
        && b.iter().enumerate().all(|(i, c)| if i == 4 || i == 7 { *c == b'-' } else { c.is_ascii_digit() })
}

pub enum Tok {
    Node(Node),
    Limit(&'static str, Node),
}

/// Classify a complete scalar token (boolean, date-time, integer, float).
pub fn scalar_token(tok: &str) -> Result<Tok, String> {
    if tok == "true" {
        return Ok(Tok::Node(Node::Bool(true)));
    }
    if tok == "false" {
        return Ok(Tok::Node(Node::Bool(false)));
    }
    let b = tok.as_bytes();
    if !tok.is_ascii() {
        return Err(format!("bad value token {tok:?}"));
    }
    // date-time shapes: DDDD- or DD:
    if b.len() >= 5 && b[..4].iter().all(|c| c.is_ascii_digit()) && b[4] == b'-' {
        return datetime(tok).map(|d| Tok::Node(Node::Dt(d)));
    }
    if b.len() >= 3 && b[..2].iter().all(|c| c.is_ascii_digit()) && b[2] == b':' {
        return datetime(tok).map(|d| Tok::Node(Node::Dt(d)));
    }
    number(tok)
}

fn two(b: &[u8], i: usize) -> Option<u32> {
    if i + 2 <= b.len() && b[i].is_ascii_digit() && b[i + 1].is_ascii_digit() {
        Some((b[i] - b'0') as u32 * 10 + (b[i + 1] - b'0') as u32)
    } else {
        None
    }
}

pub fn days_in_month(y: u32, m: u32) -> u32 {
    match m {
        1 | 3 | 5 | 7 | 8 | 10 | 12 => 31,
        4 | 6 | 9 | 11 => 30,
        2 => {
            if (y % 4 == 0 && y % 100 != 0) || y % 400 == 0 {
                29
            } else {
                28
            }
        }
        _ => 0,
    }
}

/// Full-match recogniser for the four TOML date-time kinds (RFC 3339 profile of toml.abnf plus
/// the field-range rules).
pub fn datetime(tok: &str) -> Result<Dt, String> {
    let b = tok.as_bytes();
    let bad = |w: &str| Err(format!("invalid date-time {tok:?}: {w}"));
    let mut i = 0;
    let mut date = None;
    if b.len() >= 5 && b[4] == b'-' {
        // full-date
        if b.len() < 10 || !is_full_date_shape(&b[..10]) {
            return bad("date shape");
        }
        let y = two(b, 0).unwrap() * 100 + two(b, 2).unwrap();
        let m = two(b, 5).unwrap();
        let d = two(b, 8).unwrap();
        if !(1..=12).contains(&m) {
            return bad("month");
        }
        if d < 1 || d > days_in_month(y, m) {
            return bad("day");
        }
        date = Some((y as u16, m as u8, d as u8));
        i = 10;
        if i == b.len() {
            return Ok(Dt { date, time: None, offset: None });
        }
        if !matches!(b[i], b'T' | b't' | b' ') {
            return bad("time delimiter");
        }
        i += 1;
    }
    // partial-time
    let (Some(h), Some(mi), Some(se)) = (two(b, i), two(b, i + 3), two(b, i + 6)) else {
        return bad("time shape");
    };
    if b[i + 2] != b':' || b[i + 5] != b':' {
        return bad("time separators");
    }
    if h > 23 {
        return bad("hour");
    }
    if mi > 59 {
        return bad("minute");
    }
    if se > 60 {
        return bad("second");
    }
    i += 8;
    let mut ns: u32 = 0;
    if i < b.len() && b[i] == b'.' {
        i += 1;
        let st = i;
        while i < b.len() && b[i].is_ascii_digit() {
            if i - st < 9 {
                ns = ns * 10 + (b[i] - b'0') as u32;
            }
            i += 1;
        }
        if i == st {
            return bad("empty fraction");
        }
        for _ in (i - st)..9 {
            ns *= 10;
        }
    }
    let time = Some((h as u8, mi as u8, se as u8, ns));
    if i == b.len() {
        return Ok(Dt { date, time, offset: None });
    }
    if date.is_none() {
        return bad("offset on local time");
    }
    let offset = match b[i] {
        b'Z' | b'z' => {
            i += 1;
            Off::Z
        }
        b'+' | b'-' => {
            let neg = b[i] == b'-';
            let (Some(oh), Some(om)) = (two(b, i + 1), two(b, i + 4)) else {
                return bad("offset shape");
            };
            if b[i + 3] != b':' {
                return bad("offset separator");
            }
            if oh > 23 {
                return bad("offset hour");
            }
            if om > 59 {
                return bad("offset minute");
            }
            i += 6;
            let m = (oh * 60 + om) as i16;
            Off::Min(if neg { -m } else { m })
        }
        _ => return bad("offset"),
    };
    if i != b.len() {
        return bad("trailing characters");
    }
    Ok(Dt { date, time, offset: Some(offset) })
}

/// digits with optional single underscores between digits; returns cleaned digits
fn digits_us(s: &str, ok: impl Fn(u8) -> bool) -> Option<String> {
    let b = s.as_bytes();
    if b.is_empty() {
        return None;
    }
    let mut out = String::new();
    let mut prev_digit = false;
    for (i, &c) in b.iter().enumerate() {
        if ok(c) {
            out.push(c as char);
            prev_digit = true;
        } else if c == b'_' {
            if !prev_digit || i + 1 >= b.len() || !ok(b[i + 1]) {
                return None;
            }
            prev_digit = false;
        } else {
            return None;
        }
    }
    Some(out)
}

/// unsigned-dec-int = DIGIT / digit1-9 1*( DIGIT / underscore DIGIT )
fn dec_int(s: &str) -> Option<String> {
    let d = digits_us(s, |c| c.is_ascii_digit())?;
    if s.len() > 1 && s.as_bytes()[0] == b'0' {
        return None;
    }
    Some(d)
}

pub fn number(tok: &str) -> Result<Tok, String> {
    let bad = || Err(format!("invalid number {tok:?}"));
    // prefixed integers: no sign allowed
    for (pre, radix) in [("0x", 16u32), ("0o", 8), ("0b", 2)] {
        if let Some(rest) = tok.strip_prefix(pre) {
            let Some(d) = digits_us(rest, |c| (c as char).is_digit(radix)) else { return bad() };
            let t = d.trim_start_matches('0');
            let bits = t.len() as u32 * match radix {
                16 => 4,
                8 => 3,
                _ => 1,
            };
            if bits > 70 {
                return Ok(Tok::Limit("int", Node::Int(0)));
            }
            let v = u128::from_str_radix(if t.is_empty() { "0" } else { t }, radix).unwrap();
            if v > i64::MAX as u128 {
                return Ok(Tok::Limit("int", Node::Int(0)));
            }
            return Ok(Tok::Node(Node::Int(v as i64)));
        }
    }
    let (neg, body) = match tok.as_bytes().first() {
        Some(b'+') => (false, &tok[1..]),
        Some(b'-') => (true, &tok[1..]),
        _ => (false, tok),
    };
    if body == "inf" {
        return Ok(Tok::Node(Node::float(if neg { f64::NEG_INFINITY } else { f64::INFINITY })));
    }
    if body == "nan" {
        let n = f64::NAN.copysign(if neg { -1.0 } else { 1.0 });
        return Ok(Tok::Node(Node::float(n)));
    }
    // split int part / frac / exp
    let (mant, exp) = match body.find(|c| c == 'e' || c == 'E') {
        Some(i) => (&body[..i], Some(&body[i + 1..])),
        None => (body, None),
    };
    let (ip, frac) = match mant.find('.') {
        Some(i) => (&mant[..i], Some(&mant[i + 1..])),
        None => (mant, None),
    };
    let Some(ipd) = dec_int(ip) else { return bad() };
    if frac.is_none() && exp.is_none() {
        // integer
        let t = ipd.trim_start_matches('0');
        if t.len() > 30 {
            return Ok(Tok::Limit("int", Node::Int(0)));
        }
        let v: i128 = if t.is_empty() { 0 } else { t.parse().unwrap() };
        let v = if neg { -v } else { v };
        if v < i64::MIN as i128 || v > i64::MAX as i128 {
            return Ok(Tok::Limit("int", Node::Int(0)));
        }
        return Ok(Tok::Node(Node::Int(v as i64)));
    }
    let mut clean = String::new();
    if neg {
        clean.push('-');
    }
    clean.push_str(&ipd);
    if let Some(f) = frac {
        let Some(fd) = digits_us(f, |c| c.is_ascii_digit()) else { return bad() };
        clean.push('.');
        clean.push_str(&fd);
    }
    if let Some(e) = exp {
        let (es, eb) = match e.as_bytes().first() {
            Some(b'+') => ("", &e[1..]),
            Some(b'-') => ("-", &e[1..]),
            _ => ("", e),
        };
        let Some(ed) = digits_us(eb, |c| c.is_ascii_digit()) else { return bad() };
        clean.push('e');
        clean.push_str(es);
        clean.push_str(&ed);
    }
    let v: f64 = match clean.parse() {
        Ok(v) => v,
        Err(_) => return bad(),
    };
    if v.is_infinite() {
        return Ok(Tok::Limit("float", Node::float(v)));
    }
    Ok(Tok::Node(Node::float(v)))
}

// ------------------------------------------------------------------------------------------------
// Layer 2: definition rules (Appendix A)
// ------------------------------------------------------------------------------------------------

#[derive(Clone, Copy, Debug, PartialEq, Eq)]
enum St {
    Explicit,
    HeaderImplicit,
    Dotted,
}

#[derive(Clone, Debug)]
enum SNode {
    Val(Node),
    Tbl(STbl),
    Aot(Vec<STbl>),
}
#[derive(Clone, Debug)]
struct STbl {
    st: St,
    is_elem: bool,
    entries: Vec<(String, SNode)>,
    floating: Vec<String>,
}
impl STbl {
    fn new(st: St) -> STbl {
        STbl { st, is_elem: false, entries: vec![], floating: vec![] }
    }
    fn find(&self, k: &str) -> Option<usize> {
        self.entries.iter().position(|(kk, _)| kk == k)
    }
}

pub enum SemErr {
    Invalid(String),
    U1(&'static str),
}

/// A statement reduced to what the definition rules look at.
#[derive(Clone, Debug)]
pub enum SemStmt {
    Header { path: Vec<String>, aot: bool },
    KeyVal { path: Vec<String>, val: SemVal },
}
#[derive(Clone, Debug)]
pub enum SemVal {
    Scalar(Node),
    Array(Vec<SemVal>),
    Inline(Vec<(Vec<String>, SemVal)>),
}

fn to_sem_val(v: &Val) -> SemVal {
    match &v.kind {
        ValKind::Scalar(n) => SemVal::Scalar(n.clone()),
        ValKind::Array(a) => SemVal::Array(a.iter().map(to_sem_val).collect()),
        ValKind::Inline(t) => SemVal::Inline(
            t.iter().map(|(p, v)| (p.iter().map(|k| k.name.clone()).collect(), to_sem_val(v))).collect(),
        ),
    }
}
pub fn to_sem(stmts: &[Stmt]) -> Vec<SemStmt> {
    stmts
        .iter()
        .map(|s| match s {
            Stmt::Header { path, aot, .. } => {
                SemStmt::Header { path: path.iter().map(|k| k.name.clone()).collect(), aot: *aot }
            }
            Stmt::KeyVal { path, val, .. } => SemStmt::KeyVal {
                path: path.iter().map(|k| k.name.clone()).collect(),
                val: to_sem_val(val),
            },
        })
        .collect()
}

fn build_val(v: &SemVal) -> Result<Node, SemErr> {
    match v {
        SemVal::Scalar(n) => Ok(n.clone()),
        SemVal::Array(a) => Ok(Node::Array(a.iter().map(build_val).collect::<Result<_, _>>()?)),
        SemVal::Inline(pairs) => {
            // the key/value rule inside a fresh table whose only states are Dotted and Val
            let mut t = STbl::new(St::Explicit);
            for (path, v) in pairs {
                let node = build_val(v)?;
                insert_keyval(&mut t, path, node, true)?;
            }
            let mut out = finish_tbl(&t, TblKind::Inline);
            out.kind = TblKind::Inline;
            Ok(Node::Table(out))
        }
    }
}

/// `k1 … kn = v` in table `cur`
fn insert_keyval(cur: &mut STbl, path: &[String], v: Node, _inline: bool) -> Result<(), SemErr> {
    let mut t = cur;
    // U1.b is only the final classification if nothing on the rest of the path is *decidedly*
    // invalid (toml-lang/toml#846: reaching an explicitly defined table is invalid even when an
    // implicit one is crossed first; fixtures invalid/table/append-with-dotted-keys-{1,2}).
    let mut u1 = false;
    for k in &path[..path.len() - 1] {
        let idx = match t.find(k) {
            None => {
                if u1 {
                    return Err(SemErr::U1("U1.b"));
                }
                t.entries.push((k.clone(), SNode::Tbl(STbl::new(St::Dotted))));
                t.entries.len() - 1
            }
            Some(i) => i,
        };
        match &mut t.entries[idx].1 {
            SNode::Tbl(sub) => match sub.st {
                St::Dotted => {}
                St::Explicit => {
                    return Err(SemErr::Invalid(format!(
                        "dotted key extends explicitly defined table `{k}`"
                    )))
                }
                St::HeaderImplicit => u1 = true,
            },
            SNode::Aot(_) => {
                return Err(SemErr::Invalid(format!("dotted key through array of tables `{k}`")))
            }
            SNode::Val(_) => {
                return Err(SemErr::Invalid(format!("dotted key through value `{k}`")))
            }
        }
        t = match &mut t.entries[idx].1 {
            SNode::Tbl(sub) => sub,
            _ => unreachable!(),
        };
    }
    let last = &path[path.len() - 1];
    if t.find(last).is_some() {
        return Err(SemErr::Invalid(format!("duplicate key `{last}`")));
    }
    if u1 {
        return Err(SemErr::U1("U1.b"));
    }
    t.entries.push((last.clone(), SNode::Val(v)));
    Ok(())
}

fn finish_tbl(t: &STbl, hint: TblKind) -> Tbl {
    let kind = if t.is_elem {
        TblKind::AotElem
    } else {
        match t.st {
            St::Explicit => hint,
            St::HeaderImplicit => TblKind::Implicit,
            St::Dotted => TblKind::Dotted,
        }
    };
    let mut out = Tbl::new(kind);
    out.floating = t.floating.clone();
    for (k, n) in &t.entries {
        let node = match n {
            SNode::Val(v) => v.clone(),
            SNode::Tbl(s) => Node::Table(finish_tbl(s, if hint == TblKind::Inline { TblKind::Inline } else { TblKind::Std })),
            SNode::Aot(a) => Node::Aot(a.iter().map(|s| finish_tbl(s, TblKind::AotElem)).collect()),
        };
        out.entries.push((k.clone(), node));
    }
    out
}

/// Apply the definition rules to a statement list.
pub fn apply_statements(stmts: &[SemStmt]) -> Result<Tbl, SemErr> {
    let mut root = STbl::new(St::Explicit);
    // current section as a path of (key, Option<aot index>) resolved afresh each time
    let mut section: Vec<String> = vec![];
    for st in stmts {
        match st {
            SemStmt::Header { path, aot } => {
                let mut t = &mut root;
                for k in &path[..path.len() - 1] {
                    let idx = match t.find(k) {
                        None => {
                            t.entries.push((k.clone(), SNode::Tbl(STbl::new(St::HeaderImplicit))));
                            t.entries.len() - 1
                        }
                        Some(i) => i,
                    };
                    t = match &mut t.entries[idx].1 {
                        SNode::Tbl(sub) => sub,
                        SNode::Aot(a) => a.last_mut().expect("aot never empty"),
                        SNode::Val(_) => {
                            return Err(SemErr::Invalid(format!("header path through value `{k}`")))
                        }
                    };
                }
                let last = &path[path.len() - 1];
                match t.find(last) {
                    None => {
                        if *aot {
                            let mut e = STbl::new(St::Explicit);
                            e.is_elem = true;
                            t.entries.push((last.clone(), SNode::Aot(vec![e])));
                        } else {
                            t.entries.push((last.clone(), SNode::Tbl(STbl::new(St::Explicit))));
                        }
                    }
                    Some(i) => {
                        let n = t.entries.len();
                        let mut floating_key: Option<String> = None;
                        match &mut t.entries[i].1 {
                            SNode::Tbl(sub) if !*aot && sub.st == St::HeaderImplicit => {
                                sub.st = St::Explicit;
                                if i != n - 1 {
                                    floating_key = Some(last.clone());
                                }
                            }
                            SNode::Tbl(sub) if !*aot => {
                                return Err(SemErr::Invalid(format!(
                                    "table `{last}` redefined ({:?})",
                                    sub.st
                                )))
                            }
                            SNode::Aot(a) if *aot => {
                                let mut e = STbl::new(St::Explicit);
                                e.is_elem = true;
                                a.push(e);
                            }
                            SNode::Tbl(_) => {
                                return Err(SemErr::Invalid(format!(
                                    "array-of-tables header on table `{last}`"
                                )))
                            }
                            SNode::Aot(_) => {
                                return Err(SemErr::Invalid(format!(
                                    "table header on array of tables `{last}`"
                                )))
                            }
                            SNode::Val(_) => {
                                return Err(SemErr::Invalid(format!("header on value `{last}`")))
                            }
                        }
                        if let Some(k) = floating_key {
                            if !t.floating.contains(&k) {
                                t.floating.push(k);
                            }
                        }
                    }
                }
                section = path.clone();
            }
            SemStmt::KeyVal { path, val } => {
                let node = build_val(val)?;
                // resolve current section
                let mut t = &mut root;
                for k in &section {
                    let idx = t.find(k).expect("section exists");
                    t = match &mut t.entries[idx].1 {
                        SNode::Tbl(sub) => sub,
                        SNode::Aot(a) => a.last_mut().unwrap(),
                        SNode::Val(_) => unreachable!(),
                    };
                }
                insert_keyval(t, path, node, false)?;
            }
        }
    }
    Ok(finish_tbl(&root, TblKind::Std))
}

pub fn parse_syntax(text: &str) -> (Result<Vec<Stmt>, String>, Info) {
    let mut p = P { s: text, b: text.as_bytes(), pos: 0, info: Info::default(), depth: 0 };
    let r = p.document();
    (r, p.info)
}

/// Full reference decode.
pub fn decode(text: &str) -> (Verdict, Info) {
    let (r, info) = parse_syntax(text);
    let stmts = match r {
        Ok(s) => s,
        Err(e) if e == "#hard-depth" => return (Verdict::Limit("depth"), info),
        Err(e) => return (Verdict::Invalid(e), info),
    };
    let sem = to_sem(&stmts);
    match apply_statements(&sem) {
        Err(SemErr::Invalid(e)) => (Verdict::Invalid(e), info),
        Err(SemErr::U1(c)) => (Verdict::U1(c), info),
        Ok(t) => {
            if let Some(l) = info.limit {
                (Verdict::Limit(l), info)
            } else {
                (Verdict::Valid(t), info)
            }
        }
    }
}

/// Reference decode of a single value (`Value::from_str` position): optional surrounding
/// whitespace is NOT accepted here; the whole text must be one value.
pub fn decode_value(text: &str) -> Result<Node, String> {
    let mut p = P { s: text, b: text.as_bytes(), pos: 0, info: Info::default(), depth: 0 };
    let v = p.value()?;
    if p.pos != text.len() {
        return Err(format!("trailing characters after value at byte {}", p.pos));
    }
    if p.info.limit.is_some() {
        return Err("limit".into());
    }
    match build_val(&to_sem_val(&v)) {
        Ok(n) => Ok(n),
        Err(SemErr::Invalid(e)) => Err(e),
        Err(SemErr::U1(c)) => Err(c.to_string()),
    }
}

/// Reference decode of a (possibly dotted) key.
pub fn decode_key(text: &str) -> Result<Vec<String>, String> {
    let mut p = P { s: text, b: text.as_bytes(), pos: 0, info: Info::default(), depth: 0 };
    let k = p.key()?;
    if p.pos != text.len() {
        return Err(format!("trailing characters after key at byte {}", p.pos));
    }
    Ok(k.into_iter().map(|k| k.name).collect())
}
