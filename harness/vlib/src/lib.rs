pub mod checks;
pub mod corpus;
pub mod engine;
pub mod model;
pub mod tape;
pub mod tomlref;
