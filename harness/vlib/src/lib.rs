pub mod checks;
pub mod corpus;
pub mod engine;
pub mod gen;
pub mod model;
pub mod scalars;
pub mod tape;
pub mod tomlref;
