//! Choice tape: every generator in the harness is a plain function of a `Tape` (a vector of u32
//! drawn by proptest). Value 0 always selects the simplest alternative and all index mappings are
//! monotone, so proptest's vector shrinking (delete elements, binary-search each element towards 0)
//! shrinks the generated case towards fewer / simpler parts. An exhausted tape yields zeros.

#[derive(Clone)]
pub struct Tape<'a> {
    data: &'a [u32],
    pos: usize,
}

impl<'a> Tape<'a> {
    pub fn new(data: &'a [u32]) -> Self {
        Tape { data, pos: 0 }
    }
    pub fn pos(&self) -> usize {
        self.pos
    }
    pub fn exhausted(&self) -> bool {
        self.pos >= self.data.len()
    }
    #[inline]
    pub fn next(&mut self) -> u32 {
        let v = self.data.get(self.pos).copied().unwrap_or(0);
        self.pos += 1;
        v
    }
    /// Uniform in 0..n (n >= 1), monotone in the tape value.
    #[inline]
    pub fn below(&mut self, n: usize) -> usize {
        debug_assert!(n >= 1);
        ((self.next() as u64 * n as u64) >> 32) as usize
    }
    /// Inclusive range lo..=hi, lo is the simplest.
    #[inline]
    pub fn range(&mut self, lo: i64, hi: i64) -> i64 {
        lo + self.below((hi - lo + 1) as usize) as i64
    }
    /// true with probability num/den; false is the simple choice.
    #[inline]
    pub fn chance(&mut self, num: u32, den: u32) -> bool {
        // high tape values -> true, so that shrinking towards 0 gives false
        let v = self.next() as u64;
        v >= ((den - num) as u64 * (1u64 << 32)) / den as u64
    }
    /// Index chosen with the given weights; index 0 is the simplest and is selected by low values.
    pub fn weighted(&mut self, weights: &[u32]) -> usize {
        let total: u64 = weights.iter().map(|w| *w as u64).sum();
        let x = (self.next() as u64 * total) >> 32;
        let mut acc = 0u64;
        for (i, w) in weights.iter().enumerate() {
            acc += *w as u64;
            if x < acc {
                return i;
            }
        }
        weights.len() - 1
    }
    pub fn pick<'b, T>(&mut self, xs: &'b [T]) -> &'b T {
        &xs[self.below(xs.len())]
    }
    pub fn u64(&mut self) -> u64 {
        ((self.next() as u64) << 32) | self.next() as u64
    }
    /// small non-negative integer with geometric-ish distribution, 0 simplest, max inclusive
    pub fn small(&mut self, max: usize) -> usize {
        let v = self.next();
        if max == 0 {
            return 0;
        }
        // 50%: 0..=min(2,max) ; 35%: up to max/4 ; 15%: up to max
        let bucket = v >> 28; // 0..16
        let rest = (v & 0x0fff_ffff) as u64;
        let lim = if bucket < 8 {
            max.min(2)
        } else if bucket < 14 {
            (max / 4).max(max.min(3))
        } else {
            max
        };
        ((rest * (lim as u64 + 1)) >> 28) as usize
    }
}

/// A deterministic SplitMix64, used only to *derive seeds* and to build fixed batteries outside of
/// properties (never inside a property body).
pub struct SplitMix(pub u64);
impl SplitMix {
    pub fn next(&mut self) -> u64 {
        self.0 = self.0.wrapping_add(0x9E3779B97F4A7C15);
        let mut z = self.0;
        z = (z ^ (z >> 30)).wrapping_mul(0xBF58476D1CE4E5B9);
        z = (z ^ (z >> 27)).wrapping_mul(0x94D049BB133111EB);
        z ^ (z >> 31)
    }
}

pub fn fnv64(bytes: &[u8]) -> u64 {
    let mut h: u64 = 0xcbf29ce484222325;
    for b in bytes {
        h ^= *b as u64;
        h = h.wrapping_mul(0x100000001b3);
    }
    h
}
