//! C18 battery: prints one line per (item, capability). The battery file is produced by the
//! harness; this program knows nothing about the harness (no shared code) and is compiled once per
//! feature configuration.
//!
//! battery file: lines `DOC <hex text>` (a document to parse) and `TREE <spec>` (a structure to
//! build through the API and print). Spec grammar (strings hex encoded):
//!   node  = s<hex>; | i<dec>; | f<bits hex>; | b0; | b1; | d<hex of RFC3339 text>; | a[ node* ] | t{ (k<hex>= node)* } | T{ ... } (standard table) | A[ T{..}* ] (array of tables)

#![allow(dead_code, unused_imports, unused_variables)]

fn unhex(s: &str) -> String {
    let b: Vec<u8> = (0..s.len() / 2).map(|i| u8::from_str_radix(&s[2 * i..2 * i + 2], 16).unwrap()).collect();
    String::from_utf8(b).unwrap()
}

#[derive(Debug, Clone)]
enum Spec {
    S(String),
    I(i64),
    F(u64),
    B(bool),
    D(String),
    Arr(Vec<Spec>),
    Inline(Vec<(String, Spec)>),
    Table(Vec<(String, Spec)>),
    Aot(Vec<Vec<(String, Spec)>>),
}

struct P<'a> {
    s: &'a [u8],
    i: usize,
}
impl P<'_> {
    fn until(&mut self, c: u8) -> String {
        let st = self.i;
        while self.s[self.i] != c {
            self.i += 1;
        }
        let out = String::from_utf8(self.s[st..self.i].to_vec()).unwrap();
        self.i += 1;
        out
    }
    fn pairs(&mut self, close: u8) -> Vec<(String, Spec)> {
        let mut out = vec![];
        loop {
            if self.s[self.i] == close {
                self.i += 1;
                return out;
            }
            assert_eq!(self.s[self.i], b'k');
            self.i += 1;
            let k = unhex(&self.until(b'='));
            let v = self.node();
            out.push((k, v));
        }
    }
    fn node(&mut self) -> Spec {
        let c = self.s[self.i];
        self.i += 1;
        match c {
            b's' => Spec::S(unhex(&self.until(b';'))),
            b'i' => Spec::I(self.until(b';').parse().unwrap()),
            b'f' => Spec::F(u64::from_str_radix(&self.until(b';'), 16).unwrap()),
            b'b' => Spec::B(self.until(b';') == "1"),
            b'd' => Spec::D(unhex(&self.until(b';'))),
            b'a' => {
                assert_eq!(self.s[self.i], b'[');
                self.i += 1;
                let mut v = vec![];
                while self.s[self.i] != b']' {
                    v.push(self.node());
                }
                self.i += 1;
                Spec::Arr(v)
            }
            b't' => {
                self.i += 1;
                Spec::Inline(self.pairs(b'}'))
            }
            b'T' => {
                self.i += 1;
                Spec::Table(self.pairs(b'}'))
            }
            b'A' => {
                self.i += 1;
                let mut v = vec![];
                while self.s[self.i] != b']' {
                    assert_eq!(self.s[self.i], b'T');
                    self.i += 2;
                    v.push(self.pairs(b'}'));
                }
                self.i += 1;
                Spec::Aot(v)
            }
            other => panic!("bad spec char {}", other as char),
        }
    }
}

// ---- toml_edit side ------------------------------------------------------------------------------

#[cfg(feature = "te")]
mod te {
    use super::Spec;
    use toml_edit::{Array, ArrayOfTables, InlineTable, Item, Table, Value};

    pub fn dump_value(v: &Value, out: &mut String) {
        match v {
            Value::String(s) => out.push_str(&format!("s{:?}", s.value())),
            Value::Integer(i) => out.push_str(&format!("i{}", i.value())),
            Value::Float(f) => out.push_str(&format!("f{:016x}", canon_nan(*f.value()))),
            Value::Boolean(b) => out.push_str(&format!("b{}", *b.value() as u8)),
            Value::Datetime(d) => out.push_str(&format!("d{}", d.value())),
            Value::Array(a) => {
                out.push('[');
                for e in a.iter() {
                    dump_value(e, out);
                    out.push(',');
                }
                out.push(']');
            }
            Value::InlineTable(t) => {
                out.push('{');
                for (k, v) in t.iter() {
                    out.push_str(&format!("{k:?}:"));
                    dump_value(v, out);
                    out.push(',');
                }
                out.push('}');
            }
        }
    }
    pub fn canon_nan(f: f64) -> u64 {
        if f.is_nan() {
            0x7ff8_0000_0000_0000
        } else {
            f.to_bits()
        }
    }
    pub fn dump_table(t: &Table, out: &mut String) {
        out.push('{');
        for (k, it) in t.iter() {
            out.push_str(&format!("{k:?}:"));
            dump_item(it, out);
            out.push(',');
        }
        out.push('}');
    }
    pub fn dump_item(it: &Item, out: &mut String) {
        match it {
            Item::None => out.push_str("none"),
            Item::Value(v) => dump_value(v, out),
            Item::Table(t) => dump_table(t, out),
            Item::ArrayOfTables(a) => {
                out.push('[');
                for t in a.iter() {
                    dump_table(t, out);
                    out.push(',');
                }
                out.push(']');
            }
        }
    }

    /// every key and item location of a parsed document (spans are part of what parsing yields)
    pub fn dump_spans(t: &Table, out: &mut String) {
        for (k, it) in t.iter() {
            let ks = t.key(k).and_then(|key| key.span());
            out.push_str(&format!("{k:?}@{ks:?}={:?}", it.span()));
            match it {
                Item::Table(c) => {
                    out.push('{');
                    dump_spans(c, out);
                    out.push('}');
                }
                Item::ArrayOfTables(a) => {
                    out.push('[');
                    for c in a.iter() {
                        out.push_str(&format!("{:?}{{", c.span()));
                        dump_spans(c, out);
                        out.push('}');
                    }
                    out.push(']');
                }
                Item::Value(v) => dump_value_spans(v, out),
                Item::None => {}
            }
            out.push(';');
        }
    }
    pub fn dump_value_spans(v: &Value, out: &mut String) {
        match v {
            Value::Array(a) => {
                out.push('[');
                for e in a.iter() {
                    out.push_str(&format!("{:?}", e.span()));
                    dump_value_spans(e, out);
                    out.push(',');
                }
                out.push(']');
            }
            Value::InlineTable(t) => {
                out.push('{');
                for (k, e) in t.iter() {
                    let ks = t.key(k).and_then(|key| key.span());
                    out.push_str(&format!("{k:?}@{ks:?}={:?}", e.span()));
                    dump_value_spans(e, out);
                    out.push(',');
                }
                out.push('}');
            }
            _ => {}
        }
    }

    pub fn build_value(s: &Spec) -> Value {
        match s {
            Spec::S(x) => Value::from(x.as_str()),
            Spec::I(x) => Value::from(*x),
            Spec::F(x) => Value::from(f64::from_bits(*x)),
            Spec::B(x) => Value::from(*x),
            Spec::D(x) => Value::from(x.parse::<toml_edit::Datetime>().expect("battery datetime")),
            Spec::Arr(v) => Value::Array(Array::from_iter(v.iter().map(build_value))),
            Spec::Inline(p) | Spec::Table(p) => {
                let mut t = InlineTable::new();
                for (k, v) in p {
                    t.insert(k.as_str(), build_value(v));
                }
                Value::InlineTable(t)
            }
            Spec::Aot(v) => Value::Array(Array::from_iter(v.iter().map(|p| build_value(&Spec::Inline(p.clone()))))),
        }
    }
    pub fn build_table(p: &[(String, Spec)]) -> Table {
        let mut t = Table::new();
        for (k, v) in p {
            let item = match v {
                Spec::Table(q) => Item::Table(build_table(q)),
                Spec::Aot(els) => Item::ArrayOfTables(ArrayOfTables::from_iter(els.iter().map(|q| build_table(q)))),
                other => Item::Value(build_value(other)),
            };
            t.insert(k, item);
        }
        t
    }
}

// ---- toml side -------------------------------------------------------------------------------------

#[cfg(feature = "t")]
mod t {
    use super::Spec;
    pub fn dump(v: &toml::Value, sorted: bool, out: &mut String) {
        match v {
            toml::Value::String(s) => out.push_str(&format!("s{s:?}")),
            toml::Value::Integer(i) => out.push_str(&format!("i{i}")),
            toml::Value::Float(f) => out.push_str(&format!("f{:016x}", if f.is_nan() { 0x7ff8_0000_0000_0000 } else { f.to_bits() })),
            toml::Value::Boolean(b) => out.push_str(&format!("b{}", *b as u8)),
            toml::Value::Datetime(d) => out.push_str(&format!("d{d}")),
            toml::Value::Array(a) => {
                out.push('[');
                for e in a {
                    dump(e, sorted, out);
                    out.push(',');
                }
                out.push(']');
            }
            toml::Value::Table(t) => {
                out.push('{');
                let mut keys: Vec<&String> = t.keys().collect();
                if sorted {
                    keys.sort();
                }
                for k in keys {
                    out.push_str(&format!("{k:?}:"));
                    dump(&t[k], sorted, out);
                    out.push(',');
                }
                out.push('}');
            }
        }
    }
    /// the same value, every table filled in the opposite order
    pub fn build_rev(s: &Spec) -> toml::Value {
        match s {
            Spec::Arr(v) => toml::Value::Array(v.iter().map(build_rev).collect()),
            Spec::Inline(p) | Spec::Table(p) => {
                let mut t = toml::Table::new();
                for (k, v) in p.iter().rev() {
                    t.insert(k.clone(), build_rev(v));
                }
                toml::Value::Table(t)
            }
            Spec::Aot(v) => toml::Value::Array(v.iter().map(|p| build_rev(&Spec::Table(p.clone()))).collect()),
            other => build(other),
        }
    }
    pub fn build(s: &Spec) -> toml::Value {
        match s {
            Spec::S(x) => toml::Value::String(x.clone()),
            Spec::I(x) => toml::Value::Integer(*x),
            Spec::F(x) => toml::Value::Float(f64::from_bits(*x)),
            Spec::B(x) => toml::Value::Boolean(*x),
            Spec::D(x) => toml::Value::Datetime(x.parse().expect("battery datetime")),
            Spec::Arr(v) => toml::Value::Array(v.iter().map(build).collect()),
            Spec::Inline(p) | Spec::Table(p) => {
                let mut t = toml::Table::new();
                for (k, v) in p {
                    t.insert(k.clone(), build(v));
                }
                toml::Value::Table(t)
            }
            Spec::Aot(v) => toml::Value::Array(v.iter().map(|p| build(&Spec::Table(p.clone()))).collect()),
        }
    }
}

fn hex(s: &str) -> String {
    s.bytes().map(|b| format!("{b:02x}")).collect()
}

fn main() {
    let path = std::env::args().nth(1).expect("battery file");
    let data = std::fs::read_to_string(path).expect("read battery");
    let mut out = String::new();
    for (i, line) in data.lines().enumerate() {
        if let Some(h) = line.strip_prefix("DOC ") {
            let text = unhex(h);
            #[cfg(feature = "te_parse")]
            {
                // ImDocument is available without the display feature
                match toml_edit::ImDocument::parse(text.as_str()) {
                    Ok(d) => {
                        let mut s = String::new();
                        te::dump_table(d.as_table(), &mut s);
                        out.push_str(&format!("{i} P ok {}\n", hex(&s)));
                        let mut sp = String::new();
                        te::dump_spans(d.as_table(), &mut sp);
                        out.push_str(&format!("{i} S {}\n", hex(&sp)));
                        #[cfg(feature = "te_display")]
                        {
                            let m = d.clone().into_mut();
                            out.push_str(&format!("{i} R {}\n", hex(&m.to_string())));
                        }
                    }
                    Err(_) => out.push_str(&format!("{i} P err\n")),
                }
            }
            #[cfg(feature = "t_parse")]
            {
                match toml::from_str::<toml::Value>(&text) {
                    Ok(v) => {
                        let mut s = String::new();
                        t::dump(&v, true, &mut s);
                        out.push_str(&format!("{i} TP ok {}\n", hex(&s)));
                        let mut s = String::new();
                        t::dump(&v, false, &mut s);
                        out.push_str(&format!("{i} TO {}\n", hex(&s)));
                        #[cfg(feature = "t_display")]
                        {
                            out.push_str(&format!("{i} TR {}\n", hex(&toml::to_string(&v).unwrap_or_else(|e| format!("ERR {e}")))));
                        }
                    }
                    Err(_) => out.push_str(&format!("{i} TP err\n")),
                }
            }
        } else if let Some(ops) = line.strip_prefix("OPS ") {
            // a call history on toml::Table: `i<hexkey>` insert, `r<hexkey>` remove, `e<hexkey>` remove through the entry API
            #[cfg(feature = "t")]
            {
                let mut tb = toml::Table::new();
                let mut n = 0i64;
                for op in ops.split(';').filter(|o| !o.is_empty()) {
                    let k = unhex(&op[1..]);
                    n += 1;
                    match &op[..1] {
                        "i" => {
                            tb.insert(k, toml::Value::Integer(n));
                        }
                        "r" => {
                            tb.remove(&k);
                        }
                        _ => {
                            if let toml::map::Entry::Occupied(e) = tb.entry(k) {
                                e.remove();
                            }
                        }
                    }
                }
                let keys: Vec<String> = tb.iter().map(|(k, v)| format!("{k:?}={}", v.as_integer().unwrap_or(-1))).collect();
                out.push_str(&format!("{i} TM {}\n", hex(&keys.join(","))));
            }
        } else if let Some(rest) = line.strip_prefix("EDIT ") {
            // an edit history on a parsed toml_edit document: `EDIT <hex text> <op>;<op>;...`, op =
            // letter + dotted path of hex keys. T: new standard table under the table at the path,
            // A: push an element to the array of tables at the path (created if absent),
            // V: new value in the table at the path, S: sort_values on the table at the path, X: remove the entry at the path
            #[cfg(all(feature = "te_parse", feature = "te_display"))]
            {
                use toml_edit::{ArrayOfTables, DocumentMut, Item, Table};
                fn nav<'a>(root: &'a mut Table, path: &[String]) -> Option<&'a mut Table> {
                    let mut cur = root;
                    for k in path {
                        cur = match cur.get_mut(k)? {
                            Item::Table(t) => t,
                            Item::ArrayOfTables(a) => {
                                let n = a.len();
                                if n == 0 {
                                    return None;
                                }
                                a.get_mut(n - 1)?
                            }
                            _ => return None,
                        };
                    }
                    Some(cur)
                }
                let (h, ops) = rest.split_once(' ').unwrap_or((rest, ""));
                let text = unhex(h);
                if let Ok(mut doc) = text.parse::<DocumentMut>() {
                    let mut n = 0i64;
                    for op in ops.split(';').filter(|o| !o.is_empty()) {
                        n += 1;
                        let path: Vec<String> = op[1..].split('.').filter(|k| !k.is_empty()).map(unhex).collect();
                        match &op[..1] {
                            "T" => {
                                if let Some(t) = nav(doc.as_table_mut(), &path) {
                                    let mut nt = Table::new();
                                    nt.insert("v", toml_edit::value(n));
                                    t.insert(&format!("new{n}"), Item::Table(nt));
                                }
                            }
                            "V" => {
                                if let Some(t) = nav(doc.as_table_mut(), &path) {
                                    t.insert(&format!("val{n}"), toml_edit::value(n));
                                }
                            }
                            "S" => {
                                // sort the body of the table by key (the order keys compare in)
                                if let Some(t) = nav(doc.as_table_mut(), &path) {
                                    t.sort_values();
                                }
                            }
                            "A" => {
                                if let Some((last, parent)) = path.split_last() {
                                    if let Some(t) = nav(doc.as_table_mut(), parent) {
                                        let mut nt = Table::new();
                                        nt.insert("v", toml_edit::value(n));
                                        match t.get_mut(last) {
                                            Some(Item::ArrayOfTables(a)) => a.push(nt),
                                            Some(_) => {}
                                            None => {
                                                let mut a = ArrayOfTables::new();
                                                a.push(nt);
                                                t.insert(last, Item::ArrayOfTables(a));
                                            }
                                        }
                                    }
                                }
                            }
                            _ => {
                                if let Some((last, parent)) = path.split_last() {
                                    if let Some(t) = nav(doc.as_table_mut(), parent) {
                                        t.remove(last);
                                    }
                                }
                            }
                        }
                    }
                    let printed = doc.to_string();
                    let mut tree = String::new();
                    te::dump_table(doc.as_table(), &mut tree);
                    out.push_str(&format!("{i} E {}\n", hex(&printed)));
                    out.push_str(&format!("{i} EB {}\n", hex(&tree)));
                    // what was printed reads back as the edited tree
                    let back = match printed.parse::<DocumentMut>() {
                        Ok(d) => {
                            let mut s = String::new();
                            te::dump_table(d.as_table(), &mut s);
                            if s == tree { "same".to_string() } else { format!("differs {}", hex(&s)) }
                        }
                        Err(e) => format!("invalid {}", hex(&e.to_string())),
                    };
                    out.push_str(&format!("{i} EP {back}\n"));
                } else {
                    out.push_str(&format!("{i} E err\n"));
                }
            }
        } else if let Some(spec) = line.strip_prefix("TREE ") {
            let mut p = P { s: spec.as_bytes(), i: 0 };
            let Spec::Table(root) = p.node() else { panic!("root spec") };
            #[cfg(feature = "te_display")]
            {
                let tb = te::build_table(&root);
                let mut doc = toml_edit::DocumentMut::new();
                *doc.as_table_mut() = tb;
                out.push_str(&format!("{i} D {}\n", hex(&doc.to_string())));
                // the same structure with caller-supplied decoration that uses CRLF line ends
                // (comments before entries and tables, after values, inside arrays, at the end)
                fn decorate(t: &mut toml_edit::Table, n: &mut usize) {
                    t.decor_mut().set_prefix(format!("\r\n# table {n}\r\n"));
                    let keys: Vec<String> = t.iter().map(|(k, _)| k.to_string()).collect();
                    for k in keys {
                        *n += 1;
                        if t.get(&k).map(|it| it.is_value()).unwrap_or(false) {
                            if let Some(mut km) = t.key_mut(&k) {
                                km.leaf_decor_mut().set_prefix(format!("# before entry {n}\r\n"));
                            }
                        }
                        match t.get_mut(&k) {
                            Some(toml_edit::Item::Value(v)) => {
                                v.decor_mut().set_suffix(format!(" # after value {n}\r"));
                                if let toml_edit::Value::Array(a) = v {
                                    if !a.is_empty() {
                                        for e in a.iter_mut() {
                                            e.decor_mut().set_prefix("\r\n    ");
                                        }
                                        a.set_trailing("\r\n");
                                        a.set_trailing_comma(true);
                                    }
                                }
                            }
                            Some(toml_edit::Item::Table(c)) => decorate(c, n),
                            Some(toml_edit::Item::ArrayOfTables(a)) => {
                                for c in a.iter_mut() {
                                    decorate(c, n);
                                }
                            }
                            _ => {}
                        }
                    }
                }
                let mut doc2 = toml_edit::DocumentMut::new();
                *doc2.as_table_mut() = te::build_table(&root);
                let mut n = 0usize;
                decorate(doc2.as_table_mut(), &mut n);
                doc2.as_table_mut().decor_mut().set_prefix("");
                doc2.set_trailing("# the end\r\n");
                out.push_str(&format!("{i} DD {}\n", hex(&doc2.to_string())));
            }
            #[cfg(all(feature = "te", not(feature = "te_display")))]
            {
                // structure only: the API works without display
                let tb = te::build_table(&root);
                let mut s = String::new();
                te::dump_table(&tb, &mut s);
                out.push_str(&format!("{i} B {}\n", hex(&s)));
            }
            #[cfg(feature = "te_display")]
            {
                let tb = te::build_table(&root);
                let mut s = String::new();
                te::dump_table(&tb, &mut s);
                out.push_str(&format!("{i} B {}\n", hex(&s)));
            }
            #[cfg(feature = "t")]
            {
                // equality of decoded values does not depend on the order the tables were filled in
                // (a repeated key keeps the value inserted last: compare only when keys are unique)
                fn unique(p: &[(String, Spec)]) -> bool {
                    let mut seen = std::collections::BTreeSet::new();
                    p.iter().all(|(k, v)| {
                        seen.insert(k.clone())
                            && match v {
                                Spec::Inline(q) | Spec::Table(q) => unique(q),
                                Spec::Aot(els) => els.iter().all(|q| unique(q)),
                                Spec::Arr(a) => a.iter().all(|e| match e {
                                    Spec::Inline(q) | Spec::Table(q) => unique(q),
                                    _ => true,
                                }),
                                _ => true,
                            }
                    })
                }
                if unique(&root) {
                    let a = t::build(&Spec::Table(root.clone()));
                    let b = t::build_rev(&Spec::Table(root.clone()));
                    let nan = format!("{a:?}").contains("NaN");
                    out.push_str(&format!("{i} TQ {}\n", if nan { "nan".to_string() } else { (a == b && b == a).to_string() }));
                }
            }
            #[cfg(feature = "t")]
            {
                // conversions of the built value into types it does not fit: the outcome and the
                // error's message() are results, not presentation - the same in every configuration
                use std::collections::BTreeMap;
                let v = t::build(&Spec::Table(root.clone()));
                let mut s = String::new();
                fn put<T>(s: &mut String, r: Result<T, toml::de::Error>) {
                    match r {
                        Ok(_) => s.push_str("ok;"),
                        Err(e) => s.push_str(&format!("err {:?};", e.message())),
                    }
                }
                put(&mut s, v.clone().try_into::<BTreeMap<String, i64>>());
                put(&mut s, v.clone().try_into::<BTreeMap<String, BTreeMap<String, i64>>>());
                put(&mut s, v.clone().try_into::<BTreeMap<String, BTreeMap<String, BTreeMap<String, String>>>>());
                put(&mut s, v.clone().try_into::<BTreeMap<String, Vec<BTreeMap<String, bool>>>>());
                put(&mut s, v.clone().try_into::<BTreeMap<String, toml::Value>>());
                out.push_str(&format!("{i} TE {}\n", hex(&s)));
            }
            #[cfg(feature = "t_display")]
            {
                let v = t::build(&Spec::Table(root.clone()));
                out.push_str(&format!("{i} TD {}\n", hex(&toml::to_string(&v).unwrap_or_else(|e| format!("ERR {e}")))));
                let mut s = String::new();
                t::dump(&v, false, &mut s);
                out.push_str(&format!("{i} TB {}\n", hex(&s)));
            }
        }
    }
    print!("{out}");
}
