use vlib::engine::{fault, Tier};

fn main() {
    let argv: Vec<String> = std::env::args().collect();
    if argv.len() < 2 {
        fault("usage: vcheck <property|calibrate> [--tier quick|thorough] [--replay file]");
    }
    let id = argv[1].clone();
    if id == "probe" {
        // developer aid: show what the library and the reference say about a text (from a file or literal)
        let arg = argv.get(2).cloned().unwrap_or_default();
        let text = std::fs::read_to_string(&arg).unwrap_or(arg.replace("\\n", "\n"));
        println!("reference: {}", vlib::tomlref::decode(&text).0.short());
        match text.parse::<toml_edit::DocumentMut>() {
            Ok(d) => println!("DocumentMut ok:\n{}---\n{}", d, vlib::model::tbl_to_json(&vlib::model::from_doc(&d))),
            Err(e) => println!("DocumentMut err: message={:?} span={:?}\n{}", e.message(), e.span(), e),
        }
        match toml::from_str::<toml::Table>(&text) {
            Ok(_) => println!("toml ok"),
            Err(e) => println!("toml err: {:?} {:?}", e.message(), e.span()),
        }
        std::process::exit(0);
    }
    let mut tier = match std::env::var("VERIF_TIER").as_deref() {
        Ok("thorough") => Tier::Thorough,
        _ => Tier::Quick,
    };
    let mut replay = None;
    let mut i = 2;
    while i < argv.len() {
        match argv[i].as_str() {
            "--tier" => {
                i += 1;
                tier = match argv.get(i).map(|s| s.as_str()) {
                    Some("quick") => Tier::Quick,
                    Some("thorough") => Tier::Thorough,
                    _ => fault("--tier quick|thorough"),
                };
            }
            "--replay" => {
                i += 1;
                replay = Some(argv.get(i).cloned().unwrap_or_else(|| fault("--replay <file>")));
            }
            other => fault(&format!("unknown argument {other}")),
        }
        i += 1;
    }
    let seed: u64 = std::env::var("VERIF_SEED").ok().and_then(|s| s.parse().ok()).unwrap_or(0);
    // silence the default panic message: panics inside properties are caught and reported
    vlib::engine::install_panic_hook();
    if id == "calibrate" {
        let fx = vlib::corpus::load();
        let bad = vlib::corpus::calibrate(&fx);
        println!("{} fixtures, {} disagreements", fx.len(), bad.len());
        for b in &bad {
            println!("  {b}");
        }
        std::process::exit(if bad.is_empty() { 0 } else { 2 });
    }
    // safety net: a panic that reaches this point escaped every per-case guard (it happened in a
    // loop on the main thread). Raised inside the library it is a failure of the property's check;
    // raised inside the harness it is a harness fault (exit 2), never a violation.
    let id2 = id.clone();
    let r = std::panic::catch_unwind(std::panic::AssertUnwindSafe(move || -> () { vlib::checks::dispatch(&id2, vlib::checks::Args { tier, seed, replay }) }));
    let msg = match r {
        Ok(()) => String::new(),
        Err(p) => p.downcast_ref::<String>().cloned().or_else(|| p.downcast_ref::<&str>().map(|s| s.to_string())).unwrap_or_default(),
    };
    let loc = vlib::engine::last_panic_at();
    if loc.contains("/repo/") || loc.starts_with("crates/toml") {
        let _ = std::fs::create_dir_all("/verif/violations");
        let path = format!("/verif/violations/{id}-panic-{seed}.json");
        let _ = std::fs::write(&path, format!("{{\"property\": {id:?}, \"sub\": \"panic\", \"message\": {msg:?}, \"location\": {loc:?}, \"note\": \"the library panicked in an unguarded loop of this check; re-run ./check {id} to reproduce\"}}\n"));
        println!("VIOLATION property={id} replay={path}");
        println!("  sub-check: panic in the library at {loc}: {msg}");
        std::process::exit(1);
    }
    vlib::engine::fault(&format!("harness panic at {loc}: {msg}"))
}
