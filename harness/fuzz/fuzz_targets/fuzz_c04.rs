#![no_main]
// C04 (every entry point, ASan) and C15 (error well-formedness) on coverage-guided bytes
use libfuzzer_sys::fuzz_target;
fuzz_target!(|data: &[u8]| {
    if data.len() > 8192 {
        return;
    }
    vlib::checks::c04::exercise(data);
    if let Ok(text) = std::str::from_utf8(data) {
        let mut st = vlib::engine::Stats::new();
        st.counting = false;
        if let Err(f) = vlib::checks::c15::check_text_tolerant(text, &mut st) {
            panic!("C15 VIOLATION: {}", f.msg);
        }
    }
});
