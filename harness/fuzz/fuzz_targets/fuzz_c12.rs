#![no_main]
// C12 on coverage-guided strings: the two date-time recognisers must agree
use libfuzzer_sys::fuzz_target;
fuzz_target!(|data: &[u8]| {
    if data.len() > 64 {
        return;
    }
    if let Ok(text) = std::str::from_utf8(data) {
        let mut st = vlib::engine::Stats::new();
        st.counting = false;
        if let Err(f) = vlib::checks::c12::check_string(text, &mut st) {
            panic!("C12 VIOLATION: {}", f.msg);
        }
    }
});
