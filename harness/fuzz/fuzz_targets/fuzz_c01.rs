#![no_main]
// C01 / C02 on coverage-guided bytes: the differential against the reference decoder is the oracle
use libfuzzer_sys::fuzz_target;
fuzz_target!(|data: &[u8]| {
    if data.len() > 4096 {
        return;
    }
    if let Err(f) = vlib::checks::c01::bytes_check(data, "fuzz") {
        panic!("C01 VIOLATION: {}", f.msg);
    }
});
