#![no_main]
// C03 on coverage-guided text: valid inputs only; print-back equals the reference normalisation
// (modulo known finding F11's signature), re-parses, same data, fixed point
use libfuzzer_sys::fuzz_target;
fuzz_target!(|data: &[u8]| {
    if data.len() > 4096 {
        return;
    }
    if let Ok(text) = std::str::from_utf8(data) {
        if let Err(f) = vlib::checks::c03::check_text(text, true) {
            panic!("C03 VIOLATION: {}", f.msg);
        }
    }
});
