#!/bin/bash
# run every claimed check (quick tier) on the current tree, validate evidence files
cd /verif
if ! git -C /repo diff --quiet; then echo "REPO DIRTY"; exit 2; fi
ids=$(python3 -c "import json;print(' '.join(c['property_id'] for c in json.load(open('MANIFEST.json'))['checks']))")
rc=0
for id in $ids; do
  out=$(./check $id --tier ${1:-quick} 2>/dev/null); code=$?
  echo "$out" | grep -E "VIOLATION|KNOWN-FINDING|INCONCLUSIVE|quick:|thorough:" | cut -c1-220
  [ $code -ne 0 ] && { echo "  -> exit $code"; rc=1; }
done
python3-vt - <<'PY'
import json,jsonschema,glob
sch=json.load(open('/root/.vp/EVIDENCE.schema.json'))
m=json.load(open('/verif/MANIFEST.json'))
for c in m['checks']:
    f=c['evidence_file']
    try:
        jsonschema.validate(json.load(open(f)),sch)
    except Exception as e:
        print("EVIDENCE INVALID",f,str(e)[:200])
print("evidence validated")
PY
exit $rc
