#!/bin/bash
# usage: tools/process_round.sh <suffix e.g. r5> [ids...] — runs tools/try_seed.sh for every finished seed of a round, one line each
suf=$1; shift
ids=${@:-"C01 C02 C03 C04 C05 C06 C07 C08 C09 C10 C11 C12 C13 C14 C15 C16 C17 C18 C19 C20"}
cd /verif
for i in $ids; do
  [ -f /tmp/seed-out/$i-$suf/patch.diff ] || { echo "$i-$suf: no patch yet"; continue; }
  out=$(tools/try_seed.sh $i-$suf $i 2>&1)
  t=$(echo "$out" | grep -A1 "== 1\." | tail -1 | tr -d ' ')
  dw=$(echo "$out" | grep -A1 "== 2\." | tail -1 | tr -d ' ')
  dwo=$(echo "$out" | grep -A1 "== 3\." | tail -1 | tr -d ' ')
  res=$(echo "$out" | grep "\[$i\] exit=" | tr -d ' ')
  sub=$(echo "$out" | grep -m1 "sub-check" | sed 's/ *sub-check: //')
  echo "$i-$suf: tests[$t] demo-with[$dw] demo-without[$dwo] check$res $sub"
done
