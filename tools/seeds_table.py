#!/usr/bin/env python3
"""usage: tools/seeds_table.py — regenerates tools/sensitivity_seeds.md (the seeds section of SENSITIVITY.md)
from seeded/*/meta.json and replaces that section in SENSITIVITY.md"""
import json, os, re
ROUNDS = ['one', 'two', 'three', 'four', 'five', 'six', 'seven', 'eight', 'nine', 'ten']
ids = sorted(os.listdir('/verif/seeded'))
nrounds = max([int(i.split('-r')[1]) if '-r' in i else 1 for i in ids])
inconcl = [i for i in ids if 'INCONCLUSIVE' in json.load(open(f'/verif/seeded/{i}/meta.json'))['our_checks']]
out = [f"## Seeded changes written by sub-agents ({ROUNDS[nrounds-1]} rounds, {len(ids)} kept)", ""]
out.append("Each was given only the property text and a scratch worktree; each compiles, passes the repository's own tests unedited and comes with a demonstration that fails with it and passes without it (re-verified by `tools/try_seed.sh`). `tools/recheck_seeds.sh` re-applies every one of them to /repo in turn and confirms that the quick tier of its property's check reports a violation (last run: %d of %d as violations; %s, hangs, as INCONCLUSIVE by design). Single re-run: `git -C /repo apply /verif/seeded/<id>/patch.diff && ./check <ID>; git -C /repo checkout -- .`" % (len(ids) - len(inconcl), len(ids), ' and '.join(inconcl)))
out += ["", "| seed | file(s) | what it needs to manifest | our checks |", "|---|---|---|---|"]
for i in ids:
    m = json.load(open(f'/verif/seeded/{i}/meta.json'))
    files = ', '.join(os.path.basename(f) for f in m['files_changed'])
    esc = lambda t: t.replace('|', '\\|').replace('\n', ' ')
    out.append(f"| {i} | `{files}` | {esc(m['needs_to_manifest'])} | {esc(m['our_checks'])} |")
text = '\n'.join(out) + '\n'
open('/verif/tools/sensitivity_seeds.md', 'w').write(text)
p = '/verif/SENSITIVITY.md'
s = open(p).read()
k = s.index('## Seeded changes written by sub-agents')
open(p, 'w').write(s[:k] + text)
print(len(ids), 'rows')
