#!/bin/bash
# usage: tools/mut.sh <file-under-/repo> <sed-expr> <check-id>...   (sensitivity probe: mutate, run checks, revert)
f=$1; expr=$2; shift 2
cd /repo || exit 2
if ! git diff --quiet; then echo "repo dirty"; exit 2; fi
sed -i "$expr" "$f"
if git diff --quiet; then echo "MUTATION DID NOT APPLY"; exit 2; fi
git diff | grep '^[+-]' | grep -v '^+++\|^---'
for id in "$@"; do
  (cd /verif && timeout 900 ./check $id --tier quick 2>&1 | grep -E "VIOLATION|INCONCLUSIVE|HARNESS|quick:|^  " | head -12)
done
git checkout -- .
