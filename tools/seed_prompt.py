#!/usr/bin/env python3
"""prints the prompt for a seeding sub-agent for property <id> (only the property text and the scratch paths)"""
import json,sys
pid=sys.argv[1]
rnd = sys.argv[2] if len(sys.argv) > 2 else ""   # "", "r2", "r3", ...
round2 = bool(rnd)
sid = pid + (f"-{rnd}" if rnd else "")
import glob
prevs = [json.load(open(f)) for f in sorted(glob.glob(f"/verif/seeded/{pid}*/meta.json"))] if round2 else []
p=[json.loads(l) for l in open('/verif/properties.jsonl') if json.loads(l)['id']==pid][0]
extra = ("Changes for this property that have already been collected:\n" + "".join(f"  - files {q['files_changed']}; trigger: {q['needs_to_manifest']}\n" for q in prevs) + f"Yours must be of a DIFFERENT kind: a different code site and a different trigger, exercising another part of the statement (read the statement closely: pick a clause, a quantified input class or an anchored file that none of the above touches).\n\nIMPORTANT: never use `git stash` (it is shared between worktrees); to toggle your change use `git diff > /tmp/seed-out/{sid}/p.diff; git apply -R /tmp/seed-out/{sid}/p.diff; ...; git apply /tmp/seed-out/{sid}/p.diff`.\n\n") if round2 else ""
print(f"""You are helping to evaluate a verification effort for the Rust project toml-rs/toml (crates toml, toml_edit, toml_datetime, toml_write, serde_spanned). You get ONE semantic property of the library and your own scratch git worktree of the repository. Your job: write a realistic code change to the library that BREAKS this property while the crate still compiles and the repository's existing test suite still passes, and a demonstration that fails with your change and passes without it.

Property {p['id']}: {p['title']}
Statement: {p['statement']}
Quantified over: {p['quantifier']['text']}
Code it is anchored in: {', '.join(p['anchors']['files'])}

Your scratch worktree (a git worktree of the repository, yours alone): /tmp/seed-{sid}
Write your results to: /tmp/seed-out/{sid}/  (create it)

{extra}Rules:
- Work ONLY inside /tmp/seed-{sid} and /tmp/seed-out/{sid}. Never touch /repo or /verif (do not read /verif either). No network is available; use `--offline` with cargo.
- The change must be the kind of mistake a maintainer could plausibly make in a refactoring or optimisation (an off-by-one, a dropped condition, a swapped argument, a wrong iterator adaptor, a cache that is not invalidated, two sites that each look fine alone ...), NOT an obviously malicious special case like `if input == "magic"`.
- It must need something specific to manifest: an unusual input, a multi-step sequence of API calls, a particular combination of constructs, a boundary value, or two cooperating sites. Ordinary use and the existing tests must NOT expose it. Prefer subtle over blatant.
- It must compile (`cargo build --workspace --offline`) and the full existing test suite must still pass unedited: run `cargo test --workspace --no-fail-fast --offline` in the worktree (about 1-2 minutes) and check that nothing fails. If a test fails, make the change subtler.
- Do not edit, delete or add files under any `tests/` directory or any existing test module, and do not change Cargo.toml / Cargo.lock.
- Deliverables in /tmp/seed-out/{sid}/:
  1. `patch.diff` - output of `git -C /tmp/seed-{sid} diff` (changes to library sources only).
  2. `demo/` - a demonstration: a small standalone cargo project (path dependencies on /tmp/seed-{sid}/crates/...; copy /tmp/seed-{sid}/Cargo.lock next to its Cargo.toml and build with --offline) whose `cargo run --offline` exits 0 on the unmodified library and exits non-zero (or panics) with your change applied. Verify both directions yourself (toggle with `git diff > p.diff; git apply -R p.diff` and `git apply p.diff`; never use `git stash`, it is shared between worktrees).
  3. `notes.md` - which part of the property the change breaks, what exactly is needed for it to manifest (the input / call sequence / combination), why the existing tests do not notice, and the exact commands you ran with their outcome.
- Keep the worktree with your change applied at the end (so `git diff` shows it).
- Finish with a short summary: files changed, the trigger, test-suite result, demo result in both directions.""")
