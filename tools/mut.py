#!/usr/bin/env python3
"""usage: tools/mut.py <file-under-/repo> <old> <new> <check-id>...  — sensitivity probe: apply a literal
replacement (first occurrence) in /repo, run the quick checks, revert."""
import subprocess, sys
f, old, new, ids = sys.argv[1], sys.argv[2], sys.argv[3], sys.argv[4:]
p = '/repo/' + f
if subprocess.run(['git','-C','/repo','diff','--quiet']).returncode != 0:
    print('repo dirty'); sys.exit(2)
s = open(p).read()
if old not in s:
    print('MUTATION DID NOT APPLY'); sys.exit(2)
open(p,'w').write(s.replace(old, new, 1))
try:
    for i in ids:
        r = subprocess.run(['./check', i, '--tier', 'quick'], cwd='/verif', capture_output=True, text=True, timeout=1800)
        lines = [l for l in r.stdout.splitlines() if l.startswith(('VIOLATION','INCONCLUSIVE','HARNESS','  ')) or ' quick:' in l]
        print(f'[{i}] exit={r.returncode}')
        for l in lines[:8]: print('   ', l[:300])
finally:
    subprocess.run(['git','-C','/repo','checkout','--','.'])
