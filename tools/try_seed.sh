#!/bin/bash
# usage: tools/try_seed.sh <ID> [check ids...]   — verify a seeded change produced by a sub-agent, then run our checks against it
id=$1; shift; checks=${@:-$id}
wt=/tmp/seed-$id; out=/tmp/seed-out/$id
[ -f $out/patch.diff ] || { echo "no patch"; exit 2; }
echo "== patch: $(grep -c '^[+-][^+-]' $out/patch.diff) changed lines in: $(grep '^+++ ' $out/patch.diff | sed 's#+++ b/##' | tr '\n' ' ')"
echo "== 1. repository tests with the change (in $wt)"
(cd $wt && git diff --quiet && { echo "worktree has no change applied; applying"; git apply $out/patch.diff; })
fails=$(cd $wt && cargo test --workspace --no-fail-fast --offline 2>&1 | sed 's/\x1b\[[0-9;]*m//g' | grep -cE "FAILED|test result: FAILED|^error")
echo "   failing lines: $fails"
echo "== 2. demo with the change"
(cd $out/demo && cargo run --offline >/tmp/seed-out/$id-demo-with.log 2>&1; echo "   exit=$?")
echo "== 3. demo without the change"
# (git stash is shared by all worktrees of a repository: toggle with apply -R instead)
(cd $wt && git diff > /tmp/seed-out/$id-toggle.diff && git apply -R /tmp/seed-out/$id-toggle.diff) && (cd $out/demo && cargo run --offline >/tmp/seed-out/$id-demo-without.log 2>&1; echo "   exit=$?"); (cd $wt && git apply /tmp/seed-out/$id-toggle.diff)
echo "== 4. our checks against the change applied to /repo"
if ! git -C /repo diff --quiet; then echo "repo dirty"; exit 2; fi
git -C /repo apply $out/patch.diff || { echo "patch does not apply to /repo"; exit 2; }
for c in $checks; do
  (cd /verif && timeout 3000 ./check $c --tier quick 2>/dev/null | grep -E "^VIOLATION|^  sub-check|INCONCLUSIVE|quick:" | head -6 | cut -c1-400; echo "   [$c] exit=${PIPESTATUS[0]}")
done
git -C /repo checkout -- .
