#!/usr/bin/env python3
"""usage: tools/keep_seed.py <ID> '<needs>' '<caught by / result>'  — store a verified seeded change under /verif/seeded/<ID>/"""
import json, os, re, shutil, subprocess, sys
sid, needs, result = sys.argv[1], sys.argv[2], sys.argv[3]
pid = sid.split('-')[0]
src = f'/tmp/seed-out/{sid}'
dst = f'/verif/seeded/{sid}'
os.makedirs(dst, exist_ok=True)
shutil.copy(f'{src}/patch.diff', f'{dst}/patch.diff')
if os.path.exists(f'{src}/notes.md'):
    shutil.copy(f'{src}/notes.md', f'{dst}/notes.md')
demo = f'{dst}/demo'
if os.path.exists(demo): shutil.rmtree(demo)
shutil.copytree(f'{src}/demo', demo, ignore=shutil.ignore_patterns('target', 'target-*'))
# the demo depends on the sub-agent's scratch worktree: point it at /repo (apply patch.diff there to see it fail)
for root, _, files in os.walk(demo):
    for f in files:
        if f == 'Cargo.toml' or f.endswith('.rs') or f.endswith('.sh'):
            p = os.path.join(root, f)
            s = open(p).read()
            s2 = re.sub(r'/tmp/seed-[A-Za-z0-9_-]+/', '/repo/', s)
            if s2 != s: open(p, 'w').write(s2)
lock = os.path.join(demo, 'Cargo.lock')
meta = {
  "property": pid,
  "breaks": open(f'{src}/notes.md').read().split('\n\n')[0][:600] if os.path.exists(f'{src}/notes.md') else "",
  "needs_to_manifest": needs,
  "files_changed": [l[6:].strip() for l in open(f'{dst}/patch.diff') if l.startswith('+++ b/')],
  "confirmed": {
     "repository_tests_with_change": "cargo test --workspace --no-fail-fast --offline in the sub-agent's worktree: 0 failures (re-run by tools/try_seed.sh)",
     "demo_with_change": "cargo run --offline: non-zero exit",
     "demo_without_change": "cargo run --offline after git stash: exit 0",
  },
  "our_checks": result,
  "how_to_rerun": f"git -C /repo apply /verif/seeded/{sid}/patch.diff && (cd /verif && ./check {pid}); git -C /repo checkout -- .",
}
json.dump(meta, open(f'{dst}/meta.json', 'w'), indent=1)
print('kept', dst)
