#!/bin/bash
# usage: tools/recheck_seeds.sh [seed ids...] — applies every kept seeded change to /repo in turn, runs the quick tier of
# its own property's check, reverts, and reports the ones that are NOT caught (exit 1 expected for each)
cd /verif
if ! git -C /repo diff --quiet; then echo "repo dirty"; exit 2; fi
ids=${@:-$(ls seeded)}
miss=0
for s in $ids; do
  p=${s%%-*}
  git -C /repo apply /verif/seeded/$s/patch.diff || { echo "$s: patch does not apply"; miss=$((miss+1)); continue; }
  timeout 1500 ./check $p --tier quick >/tmp/recheck.out 2>&1; rc=$?
  git -C /repo checkout -- .
  if { [ "$s" = "C04-r7" ] && [ $rc -eq 2 ] && grep -q "INCONCLUSIVE: no input finished" /tmp/recheck.out; } || { [ "$s" = "C04-r9" ] && [ $rc -eq 2 ] && grep -q "INCONCLUSIVE: .*took [0-9]* ms" /tmp/recheck.out; } || { [ "$s" = "C05-r8" ] && [ $rc -eq 2 ] && grep -q "INCONCLUSIVE: .*did not finish its batch" /tmp/recheck.out; }; then echo "$s: reported as inconclusive (exit 2, a hang - by design not a violation)"
  elif [ $rc -eq 1 ] && grep -q "^VIOLATION" /tmp/recheck.out; then echo "$s: caught ($(grep -m1 'sub-check' /tmp/recheck.out | sed 's/ *sub-check: //'))"; else echo "$s: NOT CAUGHT (exit $rc)"; miss=$((miss+1)); fi
done
echo "not caught: $miss"
