#!/bin/bash
# usage: tools/process_round_par.sh <suffix> — like process_round.sh, but the steps that only touch the
# sub-agents' worktrees (repository tests with the change, demo in both directions) run four at a time;
# the step that applies the change to /repo and runs our check stays sequential
suf=$1; shift
ids=${@:-"C01 C02 C03 C04 C05 C06 C07 C08 C09 C10 C11 C12 C13 C14 C15 C16 C17 C18 C19 C20"}
cd /verif
phaseA() {
  i=$1; id=$i-$suf; wt=/tmp/seed-$id; out=/tmp/seed-out/$id
  [ -f $out/patch.diff ] || { echo "$id: no patch" > /tmp/seed-out/$id.A; return; }
  (cd $wt && git diff --quiet && git apply $out/patch.diff)
  fails=$(cd $wt && cargo test --workspace --no-fail-fast --offline 2>&1 | sed 's/\x1b\[[0-9;]*m//g' | grep -cE "FAILED|test result: FAILED|^error")
  (cd $out/demo && timeout 900 cargo run --offline >/dev/null 2>&1); dw=$?
  (cd $wt && git diff > /tmp/seed-out/$id-toggle.diff && git apply -R /tmp/seed-out/$id-toggle.diff)
  (cd $out/demo && timeout 900 cargo run --offline >/dev/null 2>&1); dwo=$?
  (cd $wt && git apply /tmp/seed-out/$id-toggle.diff)
  echo "tests[fail=$fails] demo-with[$dw] demo-without[$dwo]" > /tmp/seed-out/$id.A
}
export -f phaseA; export suf
echo $ids | tr ' ' '\n' | xargs -P ${PAR:-4} -I{} bash -c 'phaseA {}'
for i in $ids; do
  id=$i-$suf; out=/tmp/seed-out/$id
  [ -f $out/patch.diff ] || { echo "$id: no patch yet"; continue; }
  if ! git -C /repo diff --quiet; then echo "repo dirty"; exit 2; fi
  git -C /repo apply $out/patch.diff || { echo "$id: patch does not apply"; continue; }
  r=$(timeout 1200 ./check $i --tier quick 2>/dev/null); rc=$?
  git -C /repo checkout -- .
  sub=$(echo "$r" | grep -m1 "sub-check" | sed 's/ *sub-check: //')
  echo "$id: $(cat /tmp/seed-out/$id.A) check[exit=$rc] $sub"
done
