#!/usr/bin/env python3
"""Regenerates /verif/MANIFEST.json from the table below (kept in one place so it stays valid)."""
import json, sys

CHECKS = {
 "C10": dict(
   technique="exhaustive small-scope enumeration of strings + proptest random strings; round-trip oracle through library parser and independent reference decoder",
   text="Exhaustive over all strings of length <= 5 (quick) / 6 (thorough) on a 14-class alphabet, plus 100k/2M random long strings: every offered quoting style must parse (alone and in 6 document positions) and decode to the original, by the library and by the reference decoder. Exhaustive inside the stated scope, sampled beyond it.",
   note="trusts the harness' reference decoder (calibrated on the 562 toml-test 1.0.0 fixtures at every run of C01) and rustc/std",
   design="4/C10"),
}

NOT_YET = {}

def main():
    props=[json.loads(l) for l in open('/verif/properties.jsonl')]
    checks=[]; na=[]
    for p in props:
        i=p['id']
        if i in CHECKS:
            c=CHECKS[i]
            checks.append({
              "property_id": i,
              "quick_cmd": f"./check {i} --tier quick",
              "thorough_cmd": f"./check {i} --tier thorough",
              "evidence_file": f"/verif/evidence/{i}.json",
              "replay_cmd_template": f"./check {i} --replay {{path}}",
              "engine": "vcheck",
              "level_claimed": {"category":"exploration","text":c['text'],"design_ref":c['design']},
              "level_note": c['note'],
              "technique": c['technique'],
            })
        else:
            na.append({"property_id": i, "reason": NOT_YET.get(i, "check not built yet in this revision of /verif (planned in DESIGN.md section 4); not claimed until it exists")})
    m={
      "version":1,
      "setup_cmd":"cd /verif/harness && CARGO_NET_OFFLINE=true cargo build --profile chk -p vcheck",
      "hooks":{"guard":"toml_verif","enable":"none needed: every observation point is public API; checks build /repo through path dependencies (RUSTFLAGS --cfg toml_verif would enable hooks if any existed)","baseline_off_cmd":"cd /repo && cargo test --workspace --no-fail-fast --offline","source_commits":[],"add_only":True},
      "engines":[{"name":"vcheck","path":"/verif/harness","serves_properties":sorted(CHECKS),"kind_free_text":"Rust harness: proptest TestRunner over choice tapes (generation + shrinking), exhaustive small-scope enumerators, model-based op interpreters, cargo-fuzz targets; oracles: independent reference decoder, by-construction renderer, round-trips, differentials"}],
      "checks":checks,
      "not_applicable":na,
      "notes":"Exit codes: 0 held, 1 VIOLATION, 2 harness fault/inconclusive. VERIF_SEED and VERIF_TIER are honoured. Known findings: /verif/known_findings.json.",
    }
    json.dump(m,open('/verif/MANIFEST.json','w'),indent=1)
    import jsonschema
    jsonschema.validate(m,json.load(open('/root/.vp/MANIFEST.schema.json')))
    print("manifest ok:",len(checks),"checks,",len(na),"not claimed")
main()
