#!/usr/bin/env python3
"""Regenerates /verif/MANIFEST.json from the table below (kept in one place so it stays valid)."""
import json, sys

CHECKS = {
 "C01": dict(
   technique="differential testing against an independent reference decoder over generated valid documents, labelled faults and byte/line/digit mutants (proptest-driven, shrinking); cross-front-end agreement",
   text="Generated valid documents must be accepted, labelled faults rejected, and ~1M (quick) / 20M (thorough) mutants of generated and corpus documents get the verdict of an independent TOML 1.0.0 reference decoder; all four front ends must agree; documents nested 1..63 deep through any composition of arrays, inline tables, dotted keys and header paths, also after hundreds of shallow siblings, must be accepted. Sampled exploration with an explicit oracle; U1/limit classes skipped and counted.",
   note="trusts the harness' reference decoder, re-calibrated on all 562 toml-test 1.0.0 fixtures at every run (exit 2 on disagreement)",
   design="4/C01"),
 "C02": dict(
   technique="tree-first generation with by-construction expected tree (proptest over choice tapes), exact model comparison across six decoding entry points",
   text="A generated tree rendered in a generated spelling is decoded by ImDocument, DocumentMut, toml::Value, toml::Table, toml_edit::de::from_str/from_slice and compared exactly (float bits, key order) with the tree it was rendered from; 191 valid fixtures against their expected trees; a document containing a number no i64 / f64 holds must be refused; mutated/corpus documents are compared with the reference inside C01's differential.",
   note="expected values come from the harness' renderer (exact decimal re-spellings of std's shortest float digits); reference decoder must agree with the renderer (exit 2 otherwise)",
   design="4/C02"),
 "C03": dict(
   technique="round-trip (parse then print) against a by-construction normalised text; metamorphic fixed-point and data-equality oracles; proptest-driven",
   text="Adjacent mode: DocumentMut::to_string() must equal the renderer's own normalisation of the input byte for byte; all modes: output valid, same data, every uniquely marked comment kept, fixed point. Known finding F11 is excluded by construction in the exact run and exercised by a probe run and six fixtures under a token-level signature.",
   note="normalisation computed by the renderer and cross-checked with a reference-based normaliser (exit 2 on disagreement)",
   design="4/C03"),
 "C09": dict(
   technique="exhaustive small-scope enumeration of statement sequences against a reference state machine of the definition rules; plus proptest random longer sequences",
   text="Every sequence of <= 3 (quick) / 4 (thorough) statements out of 98 over paths <= 3 on {a,b}, a second scope on {a,b,c}, every inline table in two stated scopes (paths <= 3 and <= 4 segments), plus 1.5M/10M random sequences of 5-12 statements and 1M/8M short sequences with paths of up to 5 segments and recursively generated inline tables: verdict and merged tree (order included) must equal those of the reference definition rules. Exhaustive inside the stated scope.",
   note="trusts the transition table of DESIGN.md Appendix A as implemented in tomlref (calibrated on the toml-test fixtures); U1.b sequences skipped and counted",
   design="4/C09, Appendix A"),
 "C10": dict(
   technique="exhaustive small-scope enumeration of strings + proptest random strings; round-trip oracle through library parser and independent reference decoder",
   text="Exhaustive over all strings of length <= 5 (quick) / 6 (thorough) on a 14-class alphabet, runs of each character at 30 lengths up to 1025 around the powers of two, plus 100k/2M random long strings: every offered quoting style must parse (alone and in 6 document positions) and decode to the original, by the library and by the reference decoder. Exhaustive inside the stated scope, sampled beyond it.",
   note="trusts the harness' reference decoder (calibrated on the 562 toml-test 1.0.0 fixtures at every run of C01) and rustc/std",
   design="4/C10"),
}

 
CHECKS["C14"] = dict(
   technique="by-construction source map from a tree-first renderer compared with reported spans (proptest-driven); slice re-parse round-trip; differential twin types with/without Spanned",
   text="For generated documents (multi-byte characters, BOM, CRLF, decoration around every token) the byte range of every key, value and header section is known by construction and must equal Key/Value/Item::span() on ImDocument and the ranges a span-probing serde mirror type receives; slices re-parse to the same value/key/table; containment, bounds and char boundaries hold; spans vanish after into_mut(); four twin types with/without Spanned succeed together. Sampled exploration (40k quick / 1M thorough documents).",
   note="expected ranges come from the harness' renderer; table spans without a header of their own are only required to be in bounds",
   design="4/C14")
CHECKS["C20"] = dict(
   technique="recording visitors compared with an independent pre-order walk of the by-construction model (proptest-driven); metamorphic rewrite (+1 on every integer) checked on the decoded tree and on verbatim fragments",
   text="For generated documents and the valid fixtures, the event log of a recording Visit and VisitMut (defaults everywhere) must equal the walk computed from the expected model alone: every kv, item, table, inline table, array, array of tables, value and typed scalar exactly once, in order. A visit_integer_mut override must change all integers and nothing else; the crates' own overriding visitors (DocumentFormatter, Pretty) must change layout only. Sampled exploration.",
   note="expected model comes from the harness' renderer; documents with specification-ambiguous key order (U2.c) are skipped and counted",
   design="4/C20")
CHECKS["C15"] = dict(
   technique="fault injection and mutation over generated documents with an independent line/column oracle; exhaustive truncation of fixtures; typed-decode errors provoked at a chosen path by a seed type, location known by construction",
   text="Every rejection by DocumentMut, ImDocument, toml::from_str and toml_edit::de::from_str must carry a non-empty message, a span inside the document on char boundaries, render without panic with `line L, column C` equal to an independent character-based computation and the right echoed line; typed mismatches - with every node on the way asked for plainly or through deserialize_option / newtype_struct / struct - must be located at the offending item's source range (text available) or by key path (DocumentMut). Sampled exploration plus exhaustive truncation of all fixtures <= 600 bytes.",
   note="expected positions follow the wording of the property; known finding F14 (empty message for a stray CR, pinned by the repository's own tests) is tolerated under a narrow signature",
   design="4/C15")
CHECKS["C04"] = dict(
   technique="generated and mutated byte strings through every entry point in a child process with debug assertions and overflow checks; panics caught and shrunk by proptest, process death bisected, per-input time budget",
   text="800k (quick) / 20M (thorough) byte strings - random bytes, mutants of generated and corpus documents incl. invalid UTF-8, structure-aware extremes, plus every truncation of every corpus document <= 400 bytes - go through 20 entry points and everything a caller can do with the result. No panic, no process death; a time-budget overrun - or a worker that marks no new input for 150 s (a hang) - is reported as inconclusive with the inputs in flight named. Sampled exploration; absence of hangs is only observed, not proved.",
   note="debug-assertions and overflow-checks on (profile chk); termination judged by a generous wall-clock budget (exit 2 when exceeded)",
   design="4/C04")
CHECKS["C05"] = dict(
   technique="grammar-based generation of nesting combinations executed in worker processes on 2 MiB threads (debug and release builds); limit search per construct; delta-reduction of failures",
   text="Every single nesting construct is swept over depths 1..200 (limit must exist, no holes, <= 79 accepted) and 1.5k (quick) / 40k (thorough) multiplicative combinations are parsed, printed, debug-printed, cloned, dropped and deserialized on a 2 MiB thread in a debug and a release build: the worker must survive and any accepted document must have decoded depth <= 256; documents whose header path and whose key/value expression are each below the limit must be accepted; wide documents (79..600 shallow siblings of 14 kinds, then a construct nested 40 or 70 deep) must be accepted; nested arrays written in four multi-line layouts (depths 1..200) must have the outcome of the one-line layout. A worker that does not finish a batch in 240 s ends the run as inconclusive (exit 2) with the input named.",
   note="stack behaviour is that of this toolchain/platform (x86-64 Linux); the depth bound 256 is the harness' constant, above anything additive composition of per-construct limits of 80 can reach",
   design="4/C05")
CHECKS["C11"] = dict(
   technique="boundary enumeration plus proptest sampling over bit patterns and decimal exponents; print-parse round-trip with bit equality; generated out-of-range literals in four bases must be rejected; serde width matrix in both directions",
   text="All i64 within 300 of 0, of every +-2^k and +-10^k, float boundary list and neighbours of every power of ten, plus 400k (quick) / 20M (thorough) generated i64/f64/f32 values go through every writer and back with bit-exact comparison; literals around the i64 edge in bases 2/8/10/16 (signs, underscores, leading zeros) and decimal floats around the overflow threshold of both signs must be accepted exactly or rejected; every integer width is exercised at its own edges in both serde directions.",
   note="NaN payloads are not representable; NaN sign required on construction/print routes, ignored on serde routes; 128-bit serde targets are unsupported by the library and an error is accepted for them",
   design="4/C11")
CHECKS["C12"] = dict(
   technique="differential testing of the two date-time recognisers over an exhaustive field-edge product, edit-distance mutants over the date-time alphabet and struct-generated values; print-parse round-trip",
   text="Dates and times alone are enumerated over the full edge product, every February/month length of years 0000-9999 is enumerated, combined kinds are sampled (150k quick / 6M thorough) with 16 offsets and 3 delimiters, plus 200k/10M mutants and 100k/4M generated values: Datetime::from_str and the document grammar must agree on verdict and fields, and printing must yield text both accept and read back identically (also via toml_edit::Value::from and serde).",
   note="compares the two library parsers with each other; the harness' own recogniser is only recorded to say which side is wrong",
   design="4/C12")
CHECKS["C06"] = dict(
   technique="tree-first generation built through generated API routes (proptest over choice tapes); print-parse round-trip against the built model under the stable-partition rule; purity (print twice / clone)",
   text="100k (quick) / 2M (thorough) trees with adversarial keys and leaves are assembled through a generated mix of every construction route of toml_edit, converted between standard and inline form in both directions, given the dotted / implicit layout flags, and built as toml::Table/Value; the printed text must be valid (library and reference), decode to the same tree with the same order (values before tables as a stable partition; empty array of tables = absent) and be a pure function of the structure.",
   note="Item::None, raw decor setters, set_dotted/implicit/position and non-value items under value containers are excluded preconditions",
   design="4/C06")
CHECKS["C16"] = dict(
   technique="stateful model-based testing: generated call histories interpreted in lock step against a reference ordered map with explicit placeholders / Vec, invariant and return values compared after every call; histories shrink as one value",
   text="60k (quick) / 1.5M (thorough) histories of up to 40 calls per container kind (Table, InlineTable, dyn TableLike over both, Array, ArrayOfTables, toml::Map in the sorted and the preserve_order build): every return value and the full observable state (len, is_empty, iter forwards and backwards, lookups on the container and through the Item holding it, get_values, printed text) must equal the reference after every call.",
   note="return values of calls made on a placeholder slot are left open by the property and not compared (counted); toml::Map under preserve_order runs in a second build of the harness",
   design="4/C16")
CHECKS["C08"] = dict(
   technique="stateful model-based testing: generated edit histories on a generated document, interpreted against a plain ordered tree plus a set of untouched source fragments; oracles after every edit; histories shrink as one value",
   text="30k (quick) / 600k (thorough) histories of 1-25 structural edits (21 kinds over tables, inline tables, arrays, arrays of tables) on documents whose every line carries a unique marker: after every edit the printed text must parse, decode to the model with the same edit applied (values before sections, hidden empties), the structure must read back as the model, and every untouched `key = value # marker` source fragment must still be present verbatim. A probe run exercises known finding F18, recognised by a constructive signature (renumbering table positions in visiting order makes the failure disappear).",
   note="orders the specification/API leave open are compared as sets and listed in DESIGN.md (children of a parent with a header-less table, sections after sort_values, parent of an array of tables that lost its first element); main run excludes F18's trigger by construction",
   design="4/C08")
CHECKS["C07"] = dict(
   technique="generated values of a derived-type family through seven serializers; oracle = independent model serializer (expected TOML tree by the documented mapping) + deserialize-back equality; proptest-driven with shrinking",
   text="60k (quick) / 1.5M (thorough) values of ~20 root types covering every serde shape TOML supports and the documented unsupported ones: each serializer (five text serializers, Value/Table::try_from, and the two ValueSerializers for single values) must return an error exactly for the unsupported shapes, otherwise produce valid text (reference) that decodes to the independently computed tree and deserializes back to an equal value (NaN-total equality).",
   note="the mapping serde data model -> TOML is the harness' reading of the documentation (serdefam::expected_node); None as a map value and tuple/struct variants at the root are treated as left open (stated in DESIGN.md)",
   design="4/C07")
CHECKS["C13"] = dict(
   technique="differential testing of nine decoding routes and three value deserializers on serialized and re-spelt texts of generated typed values, and of nine routes on generated documents; try_from vs serialize-then-parse",
   text="For 20k (quick) / 500k (thorough) typed values: on each of four serialized texts and on a re-spelt text (same data, generated other layout/spelling) all nine routes must succeed, agree and return the value; on perturbed documents the routes that succeed must agree; Value/Table::try_from must equal parsing the serialized text; single values of any shape (newtypes, scalars, sequences, tuples, enums as root targets) go through three value writers and four value readers. 30k/600k generated documents are decoded into toml::Value through nine routes and compared with the by-construction tree.",
   note="known finding F5 (date-times through the stand-alone toml::Value serializer/deserializer) is tolerated under its signature",
   design="4/C13")
CHECKS["C17"] = dict(
   technique="metamorphic / idempotence testing on generated toml::Value trees and typed values, in the sorted and the preserve_order build of the harness",
   text="60k+20k (quick) / 1.5M+500k (thorough) cases per build: to_string is deterministic, reaches a fixed point in one step (plain and pretty), plain and pretty decode to equal trees, the output is valid and decodes to the value whatever order the map yields keys in, toml::Table Display is deterministic and a fixed point, toml_edit's serializer carries the same data.",
   note="second build of the harness with toml's preserve_order feature (target-po)",
   design="4/C17")
CHECKS["C18"] = dict(
   technique="differential testing across cargo feature configurations: a seeded battery of generated documents and API-built structures run through a battery program compiled once per configuration; canonical dumps compared across configurations and with by-construction expectations",
   text="6 (quick) / 14 (thorough) feature configurations of toml_edit and toml are built from /repo (a configuration that does not build is a violation) and run on 2000 (quick) / 8000 (thorough) battery items (documents, API-built structures, toml::Table call histories, edit histories on larger reordered documents): dumps of decoded trees, of the span of every key and item, of API-built structures and of printed text must be identical across configurations with the capability (and equal to the harness' own expectation for by-construction items), toml's key order must be insertion order exactly under preserve_order and sorted without, over-limit nesting must flip from reject to accept under unbounded only.",
   note="the battery program shares no code with the harness; each configuration has its own target directory under harness/target-c18",
   design="4/C18")
CHECKS["C19"] = dict(
   technique="generated programs: documents from a Rust-tokenizable sub-grammar embedded in toml!{} and as string literals, compiled against /repo and run; in-binary oracle (table equality with float bits); delta-reduction of failures by recompilation",
   text="8 programs x 200 documents (quick) / 32 x 400 (thorough) are generated, compiled against /repo/crates/toml and run; inside the binary the macro's table must equal str::parse::<toml::Table>() of the same text; a program that does not compile is a violation; failures are reduced by dropping top-level entries (one compile per step).",
   note="shapes the macro cannot take as Rust tokens (positive offsets, integers beyond i32, literal / multi-line strings, comments, numeric-looking bare keys) are outside the generated sub-grammar and listed in the evidence rule",
   design="4/C19")
NOT_YET = {}

def main():
    props=[json.loads(l) for l in open('/verif/properties.jsonl')]
    checks=[]; na=[]
    for p in props:
        i=p['id']
        if i in CHECKS:
            c=CHECKS[i]
            checks.append({
              "property_id": i,
              "quick_cmd": f"./check {i} --tier quick",
              "thorough_cmd": f"./check {i} --tier thorough",
              "evidence_file": f"/verif/evidence/{i}.json",
              "replay_cmd_template": f"./check {i} --replay {{path}}",
              "engine": "vcheck",
              "level_claimed": {"category":"exploration","text":c['text'],"design_ref":c['design']},
              "level_note": c['note'],
              "technique": c['technique'],
            })
        else:
            na.append({"property_id": i, "reason": NOT_YET.get(i, "check not built yet in this revision of /verif (planned in DESIGN.md section 4); not claimed until it exists")})
    m={
      "version":1,
      "setup_cmd":"cd /verif/harness && CARGO_NET_OFFLINE=true cargo build --profile chk -p vcheck && CARGO_NET_OFFLINE=true cargo build -p c05worker && CARGO_NET_OFFLINE=true cargo build --release -p c05worker && CARGO_NET_OFFLINE=true cargo build --profile chk -p vcheck --features preserve_order --target-dir /verif/harness/target-po",
      "hooks":{"guard":"toml_verif","enable":"none needed: every observation point is public API; checks build /repo through path dependencies (RUSTFLAGS --cfg toml_verif would enable hooks if any existed)","baseline_off_cmd":"cd /repo && cargo test --workspace --no-fail-fast --offline","source_commits":[],"add_only":True},
      "engines":[{"name":"vcheck","path":"/verif/harness","serves_properties":sorted(CHECKS),"kind_free_text":"Rust harness: proptest TestRunner over choice tapes (generation + shrinking), exhaustive small-scope enumerators, model-based op interpreters, cargo-fuzz targets; oracles: independent reference decoder, by-construction renderer, round-trips, differentials"}],
      "checks":checks,
      "not_applicable":na,
      "notes":"Exit codes: 0 held, 1 VIOLATION, 2 harness fault/inconclusive. VERIF_SEED and VERIF_TIER are honoured. Known findings: /verif/known_findings.json.",
    }
    json.dump(m,open('/verif/MANIFEST.json','w'),indent=1)
    import jsonschema
    jsonschema.validate(m,json.load(open('/root/.vp/MANIFEST.schema.json')))
    print("manifest ok:",len(checks),"checks,",len(na),"not claimed")
main()
