#!/usr/bin/env python3
"""Sensitivity suite: applies each mutant (one literal replacement in /repo) in turn, runs the quick tier of
the named checks, reverts, and writes /verif/SENSITIVITY.md. Run from a clean /repo; takes ~1 min per mutant.
usage: tools/sensitivity.py [filter-substring]"""
import subprocess, sys, json, time, os

M = [
 # (name, file, old, new, checks)
 ("C01 DEL allowed in literal strings", "crates/toml_edit/src/parser/strings.rs", ") = (0x9, 0x20..=0x26, 0x28..=0x7E, NON_ASCII);", ") = (0x9, 0x20..=0x26, 0x28..=0x7F, NON_ASCII);", ["C01"]),
 ("C01 DEL allowed in comments", "crates/toml_edit/src/parser/trivia.rs", "(0x09, 0x20..=0x7E, NON_ASCII);", "(0x09, 0x20..=0x7F, NON_ASCII);", ["C01"]),
 ("C01 hour 24 accepted by the grammar", "crates/toml_edit/src/parser/datetime.rs", "if (0..=23).contains(&d) {", "if (0..=24).contains(&d) {", ["C01", "C12"]),
 ("C02 octal parsed with radix 10", "crates/toml_edit/src/parser/numbers.rs", "&s.replace('_', \"\"), 8))", "&s.replace('_', \"\"), 10))", ["C02"]),
 ("C02 \\U escape reads 4 digits", "crates/toml_edit/src/parser/strings.rs", "cut_err(hexescape::<8>)", "cut_err(hexescape::<4>)", ["C02", "C01"]),
 ("C02 first-newline trimming eats a second newline", "crates/toml_edit/src/parser/strings.rs", "preceded(opt(newline), cut_err(ml_basic_body))", "preceded((opt(newline), opt(newline)), cut_err(ml_basic_body))", ["C02"]),
 ("C03 inline-table preamble not printed", "crates/toml_edit/src/encode.rs", "    this.preamble().encode_with_default(buf, input, \"\")?;", "", ["C03"]),
 ("C03 tables sorted by a wrong key in Display", "crates/toml_edit/src/encode.rs", "tables.sort_by_key(|&(id, _, _, _)| id);", "tables.sort_by_key(|&(id, _, _, is_array)| (is_array, id));", ["C03"]),
 ("C04 unwrap on char::from_u32", "crates/toml_edit/src/parser/strings.rs", ".try_map(|h| char::from_u32(h).ok_or(CustomError::OutOfRange))", ".map(|h| char::from_u32(h).unwrap())", ["C04"]),
 ("C04 off-by-one line in error rendering", "crates/toml_edit/src/error.rs", "let content = raw.split('\\n').nth(line).expect(\"valid line number\");", "let content = raw.split('\\n').nth(line + (line > 7) as usize).expect(\"valid line number\");", ["C04", "C15"]),
 ("C05 LIMIT raised to 8000", "crates/toml_edit/src/parser/mod.rs", "const LIMIT: usize = 80;", "const LIMIT: usize = 8000;", ["C05"]),
 ("C05 check_depth dropped from key()", "crates/toml_edit/src/parser/key.rs", "RecursionCheck::check_depth(k.len())?;", "", ["C05"]),
 ("C06 tables with only sub-tables get no header", "crates/toml_edit/src/encode.rs", "let is_visible_std_table = !(table.implicit && children.is_empty());", "let is_visible_std_table = !children.is_empty();", ["C06"]),
 ("C06/C11 -nan written as nan (f64)", "crates/toml_write/src/value.rs", "impl WriteTomlValue for f64 {\n    fn write_toml_value<W: TomlWrite + ?Sized>(&self, writer: &mut W) -> core::fmt::Result {\n        match (self.is_sign_negative(), self.is_nan(), *self == 0.0) {\n            (true, true, _) => write!(writer, \"-nan\"),", "impl WriteTomlValue for f64 {\n    fn write_toml_value<W: TomlWrite + ?Sized>(&self, writer: &mut W) -> core::fmt::Result {\n        match (self.is_sign_negative(), self.is_nan(), *self == 0.0) {\n            (true, true, _) => write!(writer, \"nan\"),", ["C06", "C11"]),
 ("C07 serialize_u64 casts", "crates/toml_edit/src/ser/value.rs", "        let v: i64 = v\n            .try_into()\n            .map_err(|_err| Error::OutOfRange(Some(\"u64\")))?;\n        self.serialize_i64(v)", "        self.serialize_i64(v as i64)", ["C07", "C11"]),
 ("C07 DocumentFormatter promotes tables inside values", "crates/toml/src/fmt.rs", "            self.is_value = other.is_value();", "            self.is_value = false;", ["C07", "C17"]),
 ("C08 Table::remove uses swap_remove", "crates/toml_edit/src/table.rs", "        self.items.shift_remove(key)", "        self.items.swap_remove(key)", ["C08", "C16"]),
 ("C08 InlineTable::remove uses swap_remove", "crates/toml_edit/src/inline_table.rs", "            .shift_remove(key)", "            .swap_remove(key)", ["C08", "C16"]),
 ("C09 dotted table check inverted", "crates/toml_edit/src/parser/state.rs", "let mixed_table_types = table.is_dotted() == path.is_empty();", "let mixed_table_types = table.is_dotted() != path.is_empty() && false;", ["C09"]),
 ("C09 implicit-dotted tables reopenable by a header", "crates/toml_edit/src/parser/state.rs", "Item::Table(t) if t.implicit && !t.is_dotted() => {", "Item::Table(t) if t.implicit => {", ["C09"]),
 ("C09 descend_path enters the first array element", "crates/toml_edit/src/parser/state.rs", "let index = array.len() - 1;", "let index = 0;", ["C09", "C02"]),
 ("C10 literal style offered with an apostrophe run of 3", "crates/toml_write/src/string.rs", "if self.metrics.escape_codes || 2 < self.metrics.max_seq_single_quotes {", "if self.metrics.escape_codes || 3 < self.metrics.max_seq_single_quotes {", ["C10"]),
 ("C11 overflow guard compares with f64::MAX only", "crates/toml_edit/src/parser/numbers.rs", ".verify(|f: &f64| !f.is_infinite()),", ".verify(|f: &f64| *f != f64::INFINITY),", ["C11"]),
 ("C11 -0.0 written as 0.0 (f32)", "crates/toml_write/src/value.rs", "(true, false, true) => write!(writer, \"-0.0\"),", "(true, false, true) => write!(writer, \"0.0\"),", ["C11"]),
 ("C12 leap rule without the 400 case", "crates/toml_datetime/src/datetime.rs", "(date.year % 4 == 0) && ((date.year % 100 != 0) || (date.year % 400 == 0));", "(date.year % 4 == 0) && (date.year % 100 != 0);", ["C12"]),
 ("C12 second > 59 rejected by the standalone parser", "crates/toml_datetime/src/datetime.rs", "if time.second > 60 {", "if time.second > 59 {", ["C12"]),
 ("C14 array span one byte short", "crates/toml_edit/src/parser/value.rs", "        Value::Array(ref mut arr) => {\n            arr.span = Some(span);", "        Value::Array(ref mut arr) => {\n            arr.span = Some(span.start..span.end.saturating_sub(1));", ["C14"]),
 ("C14 table span not widened by its values", "crates/toml_edit/src/parser/state.rs", "self.current_table.span = Some((existing.start)..(value.end));", "self.current_table.span = Some((existing.start)..(existing.end));", ["C14"]),
 ("C15 key path appended instead of prepended", "crates/toml_edit/src/error.rs", "self.keys.insert(0, key);", "self.keys.push(key);", ["C15"]),
 ("C15 column counted from the previous line start", "crates/toml_edit/src/error.rs", "        Some(nl) => nl + 1,\n        None => 0,\n    };\n    let line = ", "        Some(nl) => nl,\n        None => 0,\n    };\n    let line = ", ["C15"]),
 ("C16 toml::Map::remove uses swap_remove (preserve_order)", "crates/toml/src/map.rs", "shift_remove", "swap_remove", ["C16"]),
 ("C16 Table::len counts placeholders", "crates/toml_edit/src/table.rs", "    pub fn len(&self) -> usize {\n        self.iter().count()\n    }", "    pub fn len(&self) -> usize {\n        self.items.len()\n    }", ["C16"]),
 ("C17 pretty arrays without trailing comma (benign: must stay green)", "crates/toml_edit/src/ser/pretty.rs", "node.set_trailing_comma(true);", "node.set_trailing_comma(false);", ["C17"]),
 ("C18 perf-only truncation of one 16-byte key", "crates/toml_edit/src/internal_string.rs", "        let inner = kstring::KString::from_ref(s);", "        let inner = kstring::KString::from_ref(if s == \"sixteen-bytes-xx\" { \"sixteen-bytes-x\" } else { s });", ["C18"]),
 ("C19 negative sign dropped for array elements in toml!", "crates/toml/src/macros.rs", "        $crate::toml_internal!(@array $root (-$v) , $($rest)*);", "        $crate::toml_internal!(@array $root ($v) , $($rest)*);", ["C19"]),
 ("C20 visit_table_like_mut skips the first entry", "crates/toml_edit/src/visit_mut.rs", "    for (key, item) in node.iter_mut() {\n        v.visit_table_like_kv_mut(key, item);", "    for (key, item) in node.iter_mut().skip(1) {\n        v.visit_table_like_kv_mut(key, item);", ["C20"]),
 ("C20 visit_item without the ArrayOfTables arm", "crates/toml_edit/src/visit.rs", "        Item::Table(table) => v.visit_table(table),\n        Item::ArrayOfTables(array) => v.visit_array_of_tables(array),", "        Item::Table(table) => v.visit_table(table),\n        Item::ArrayOfTables(_array) => {}", ["C20"]),
 ("C13 toml::Value deserializer skips the last array element", "crates/toml/src/value.rs", "            Value::Array(v) => {\n                let len = v.len();\n                let mut deserializer = SeqDeserializer::new(v);", "            Value::Array(mut v) => {\n                if v.len() > 3 { v.pop(); }\n                let len = v.len();\n                let mut deserializer = SeqDeserializer::new(v);", ["C13"]),
]

def sh(*a, **k):
    return subprocess.run(*a, **k)

def main():
    flt = sys.argv[1] if len(sys.argv) > 1 else None
    if sh(['git', '-C', '/repo', 'diff', '--quiet']).returncode != 0:
        print('repo dirty'); sys.exit(2)
    rows = []
    for name, f, old, new, checks in M:
        if flt and flt not in name: continue
        p = '/repo/' + f
        s = open(p).read()
        if old not in s:
            rows.append((name, f, 'DID NOT APPLY', '')); print(name, 'DID NOT APPLY'); continue
        open(p, 'w').write(s.replace(old, new, 1))
        res = []
        try:
            # does the repository's own suite notice? (only the fast crates' tests, informative)
            for c in checks:
                t0 = time.time()
                r = sh(['./check', c, '--tier', 'quick'], cwd='/verif', capture_output=True, text=True, timeout=3000)
                first = next((l for l in r.stdout.splitlines() if l.startswith('  ') and 'sub-check' not in l), '')
                sub = next((l.strip() for l in r.stdout.splitlines() if 'sub-check' in l), '')
                res.append((c, r.returncode, sub, first.strip()[:160], time.time() - t0))
        finally:
            sh(['git', '-C', '/repo', 'checkout', '--', '.'])
        rows.append((name, f, res, ''))
        print(name, [(c, rc) for c, rc, *_ in res], flush=True)
    out = ['# Sensitivity: mutants applied to /repo one at a time, quick tier of the named checks', '',
           'Produced by `tools/sensitivity.py` (each row: apply one literal replacement, run `./check <ID> --tier quick`, revert).',
           'exit 1 = the check reported a VIOLATION (mutant killed); exit 0 = not noticed; exit 2 = inconclusive.', '',
           '| mutant | file | check: exit (sub-check) | first line of the report |', '|---|---|---|---|']
    for name, f, res, _ in rows:
        if isinstance(res, str):
            out.append(f'| {name} | {f} | {res} | |'); continue
        cell = '; '.join(f'{c}: {rc} ({sub.replace("sub-check: ", "")})' if rc == 1 else f'{c}: {rc}' for c, rc, sub, first, dt in res)
        first = next((first for c, rc, sub, first, dt in res if rc == 1), '')
        out.append(f'| {name} | `{f.split("/")[-1]}` | {cell} | {first.replace("|", "/")} |')
    extra = open('/verif/tools/sensitivity_seeds.md').read() if os.path.exists('/verif/tools/sensitivity_seeds.md') else ''
    open('/verif/SENSITIVITY.md', 'w').write('\n'.join(out) + '\n\n' + extra)
main()
