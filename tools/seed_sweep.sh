#!/bin/bash
# usage: tools/seed_sweep.sh "<seeds>" [check ids...] — runs the quick tier of every check under several
# VERIF_SEED values on the current tree and prints only what is not silent (a check must never raise an
# alarm on the unchanged tree, whatever the seed). Evidence files are overwritten: re-run seed 0 afterwards.
seeds=${1:-"1 2 3 4 5"}; shift
ids=${@:-"C01 C02 C03 C04 C05 C06 C07 C08 C09 C10 C11 C12 C13 C14 C15 C16 C17 C20"}
cd /verif
for s in $seeds; do
  for c in $ids; do
    out=$(VERIF_SEED=$s timeout 1500 ./check $c --tier quick 2>&1); rc=$?
    if [ $rc -ne 0 ] || echo "$out" | grep -q "^VIOLATION"; then
      echo "== seed $s $c exit=$rc"; echo "$out" | grep -E "^VIOLATION|sub-check|INCONCLUSIVE|HARNESS" -A3 | cut -c1-400 | head -20
    fi
  done
  echo "seed $s done"
done
